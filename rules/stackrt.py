"""Whole-stack scenarios: bec2format -> registered plug-in adapter -> pyaes modes, interpreted on one abstract heap.

Same technique as rules/c16stream.py: a synthetic entry point (scaffold, interpreted only) calls repo functions with byte
strings of FIXED LENGTH and SYMBOLIC CONTENT; AES block encryption / decryption are the uninterpreted, mutually inverse
permutations E_k / D_k (licensed by C16's block rules), CRC-16 is an uninterpreted 16-bit function of its input bytes
(licensed by C15), SHA-256 stays an opaque call.  Results are terms; the rules compare them by identity after XOR
canonicalisation.  Lengths are enumerated, contents and keys are universally quantified.
"""
from __future__ import annotations

from typing import Dict, List, Optional, Sequence

from bfsa.exprs import sbytes
from bfsa.guard import unsnap
from bfsa.heap import Unsupported
from bfsa.load import AnalysisError
from bfsa.symexec import Exec
from bfsa.terms import C, NONE, Term, cval, is_const, mk, show, sym, xor_canon

from rules import c16stream as S

BEC2 = "bec2format.bec2file"
INLINE = ("register_crypto_plugin", "bec2format.bec2file", "bec2format.crypto", "bec2format.bytes_reader", "bec2format.bf3file", "bec2format.configid")


def pol(ex, fi, depth):
    m = fi.module.name
    return (m.startswith("register_crypto_plugin.pyaes") or m in INLINE) and depth < 18


def crc_hook(ex, fi, args, kwargs, st, node):
    items = ex.iter_items(args[0], st)
    if items is None:
        raise Unsupported("crc8404B over bytes that are not known item by item: %s" % show(args[0], 5)[:120])
    start = args[1] if len(args) > 1 else kwargs.get("start_value")
    return mk("uf", "crc8404B", tuple(S.canon(x) for x in items), start if start is not None else NONE)


def hooks():
    h = S.hooks()
    h[BEC2 + ".crc8404B"] = crc_hook
    return h


class Stack:
    def __init__(self, prog, extra_hooks=None, mac_axiom=False):
        self.prog = prog
        self.runs = 0
        self.extra_hooks = extra_hooks
        self.mac_axiom = mac_axiom

    def run(self, module, src, args):
        ex = Exec(self.prog, policy=pol)
        ex.summaries = hooks()
        if self.extra_hooks:
            ex.summaries.update(self.extra_hooks() if callable(self.extra_hooks) else self.extra_hooks)
        ex.sym_bytes = True
        ex.mac_axiom = self.mac_axiom
        self.runs += 1
        try:
            res = ex.run_driver(self.prog.module(module), src, args=args)
        except Unsupported as u:
            raise AnalysisError("scenario not interpretable: %s\n%s" % (u, src))
        return ex, res


def syms(tag, n):
    return [sym("%s%d_" % (tag, i)) for i in range(n)]


def cbc_plain_blocks(ct: Sequence[Term], key: Term, iv: Optional[Sequence[Term]] = None) -> Optional[List[Term]]:
    """the plaintext a CBC ciphertext (terms) was produced from: every block must be E_key(<16 terms>); plaintext block j is
    that argument XOR the previous ciphertext block (the IV for j = 0).  None if the bytes are not of that shape."""
    if len(ct) % 16:
        return None
    prev = list(iv) if iv is not None else [C(0)] * 16
    out: List[Term] = []
    for j in range(0, len(ct), 16):
        blk = ct[j:j + 16]
        x0 = blk[0]
        if x0.op != "aesE" or x0.args[0] is not key:
            return None
        arg = x0.args[1]
        if not all(x.op == "aesE" and x.args[0] is key and x.args[1] is arg and x.args[2] == i for i, x in enumerate(blk)):
            return None
        out.extend(xor_canon(a, p) for a, p in zip(arg, prev))
        prev = list(blk)
    return out


def flat(ex, res, t):
    return S._flat(ex, res, t)


# ------------------------------------------------------------------------------------------------ abstract EC layer
PLUG = "register_crypto_plugin"
SPKI_P256 = bytes.fromhex("3059301306072A8648CE3D020106082A8648CE3D03010703420004")


def ecc_hooks(counter: Optional[Dict[str, int]] = None) -> Dict[str, object]:
    """P-256 key objects of the plug-in as abstract values: a private key is a symbol d, its public point is G*d whose 64 raw
    bytes are the terms pub(d, 0..63); ECDH is the symmetric uninterpreted function dh{d1, d2} (x coordinate, 32 bytes).
    Licensed by C17 (arithmetic, ECDH symmetry on valid points) and C19 (encodings)."""
    cnt = counter if counter is not None else {}

    def new_priv(ex, st, d):
        o = ex.new_obj(st, "obj", cls=ex.prog.cls(PLUG + ".PrivateEccKeyProxy"), label="priv")
        ex.obj(st, o).attrs["#d"] = d
        return o

    def new_pub(ex, st, q):
        o = ex.new_obj(st, "obj", cls=ex.prog.cls(PLUG + ".PublicEccKeyProxy"), label="pub")
        ex.obj(st, o).attrs["#q"] = q
        return o

    def h_generate(ex, fi, args, kwargs, st, node):
        cnt["generate"] = cnt.get("generate", 0) + 1
        return new_priv(ex, st, sym("d%d_" % cnt["generate"]))

    def h_public(ex, fi, args, kwargs, st, node):
        d = ex.obj(st, args[0]).attrs.get("#d")
        if d is None:
            return None
        return new_pub(ex, st, mk("uf", "G*", d))

    def h_to_der(ex, fi, args, kwargs, st, node):
        q = ex.obj(st, args[0]).attrs.get("#q")
        if q is None:
            return None
        return sbytes([C(b) for b in SPKI_P256] + [mk("pub", q, i) for i in range(64)])

    def h_from_der(ex, fi, args, kwargs, st, node):
        from bfsa.exprs import sb_items

        items = sb_items(unsnap(args[-1]))
        if items is None or len(items) != 27 + 64 or any(not (is_const(x) and cval(x) == b) for x, b in zip(items[:27], SPKI_P256)):
            raise Unsupported("public key DER is not the P-256 SubjectPublicKeyInfo of 91 known bytes")
        raw = [unsnap(x) for x in items[27:]]
        x0 = raw[0]
        if x0.op == "pub" and all(x.op == "pub" and x.args[0] is x0.args[0] and x.args[1] == i for i, x in enumerate(raw)):
            return new_pub(ex, st, x0.args[0])
        return new_pub(ex, st, mk("uf", "point", tuple(raw)))

    def h_dh(ex, fi, args, kwargs, st, node):
        d = ex.obj(st, args[0]).attrs.get("#d")
        po = ex.obj(st, args[1])
        q = po.attrs.get("#q") if po is not None else None
        if d is None or q is None:
            return None
        cnt["dh"] = cnt.get("dh", 0) + 1
        if q.op == "uf" and q.args[0] == "G*":
            pair = sorted([d, q.args[1]], key=lambda t: t.uid)
            s_ = mk("uf", "dh", tuple(pair))
        else:
            s_ = mk("uf", "dh1", d, q)
        return sbytes([mk("byteof", s_, 32, i) for i in range(32)])

    return {
        PLUG + ".PrivateEccKeyProxy.generate": h_generate,
        PLUG + ".PrivateEccKeyProxy.public_key": h_public,
        PLUG + ".PrivateEccKeyProxy.compute_dh_secret": h_dh,
        PLUG + ".PublicEccKeyProxy.to_der_fmt": h_to_der,
        PLUG + ".PublicEccKeyProxy.create_from_der_fmt": h_from_der,
    }


def rng_hook(counter: Dict[str, int]):
    def h(ex, fi, args, kwargs, st, node):
        n = args[0]
        if not (is_const(n) and isinstance(cval(n), int)):
            return None
        counter["random_bytes"] = counter.get("random_bytes", 0) + 1
        k = counter["random_bytes"]
        return sbytes([sym("rnd%d_%d_" % (k, i)) for i in range(cval(n))])

    return h


def guarded(chk, rule: str, fn, *a, **k):
    """run a scenario rule group; a scenario the interpreter cannot follow makes the group undecided (never a violation, never a pass)"""
    try:
        return fn(*a, **k)
    except AnalysisError as e:
        chk.incomplete(rule, str(e).split("\n")[0])
    except RecursionError:
        chk.incomplete(rule, "recursion limit in a scenario")
