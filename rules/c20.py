"""C20 -- shared curve objects and the reader-writer lock.

Decided statically (necessary structural conditions of the lock-free publication idiom and of the light-switch lock):
 R1 EFFECT  `__precompute` / `__coords` of both point classes are only ever *replaced* (plain assignment of a freshly built
            value): never mutated in place, neither directly nor through an alias.
 R2 PATH    in _maybe_precompute the publishing assignment is the last use of the local table; the local is created fresh.
 R3 FLOW    snapshot reads: within a method the coordinates of one receiver come from one load (tuple unpack); further loads
            are separated by scale() or are single-component zero tests.
 R4 LOCK    _LightSwitch.acquire/release: mutex first / last on all paths, counter +-1 in between, outer lock taken iff counter
            == 1 after increment and released iff == 0 after decrement.
 R5 LOCK    RWLock wiring (which switch guards which lock, nesting order).
Not decided: "under every interleaving" and deadlock freedom (enumerating interleavings is model checking, another family)."""
from __future__ import annotations

import ast
from typing import List

from bfsa.guard import rel, unsnap
from bfsa.load import AnalysisError
from bfsa.symexec import Exec
from bfsa.terms import C, NONE, Term, cval, is_const, mk, show

LEVEL = "other"
EC = "register_crypto_plugin.ecdsa.ellipticcurve"
RW = "register_crypto_plugin.ecdsa._rwlock"
MUTATORS = {"append", "extend", "insert", "pop", "remove", "sort", "reverse", "clear", "update", "setdefault", "popitem", "add", "discard", "__setitem__", "__delitem__", "__iadd__"}
SHARED = ("__precompute", "__coords")


def _is_shared_attr(n: ast.AST, names=SHARED) -> bool:
    return isinstance(n, ast.Attribute) and n.attr in names


def publication_rules(prog, chk, pid):
    P = lambda s: "%s.%s" % (pid, s)
    for cname in ("PointJacobi", "PointEdwards"):
        cls = prog.cls(EC + "." + cname)
        n_sites = 0
        for mname, m in cls.methods.items():
            fn = m.node
            where = lambda n: "%s:%d" % (m.file, getattr(n, "lineno", fn.lineno))
            aliases = {}
            for n in ast.walk(fn):
                # stores
                if isinstance(n, ast.Assign):
                    for t in n.targets:
                        for x in (t.elts if isinstance(t, (ast.Tuple, ast.List)) else [t]):
                            if _is_shared_attr(x):
                                n_sites += 1
                                fresh = isinstance(n.value, (ast.Tuple, ast.List, ast.Name, ast.Call, ast.ListComp)) and not _is_shared_attr(n.value)
                                single = len(n.targets) == 1 and x is t
                                if mname in ("__init__", "__setstate__"):
                                    chk.ok(P("replace-only"), m.qualname, "self.%s = ... (constructor)" % x.attr, where(n), "initialisation before the object is shared", nontrivial=False)
                                else:
                                    chk.require(fresh and single, P("replace-only"), m.qualname, "self.%s = %s" % (x.attr, ast.unparse(n.value)[:40]), where(n),
                                                "shared attribute is replaced by one plain assignment of a freshly built value (atomic publication)", "shared attribute is not published by a single plain assignment of a fresh value")
                            if isinstance(x, ast.Subscript) and _is_shared_attr(x.value):
                                n_sites += 1
                                chk.fail(P("replace-only"), m.qualname, ast.unparse(x)[:60] + " = ...", where(n), "element store into the shared %s: readers can observe a half-updated value" % x.value.attr)
                    # alias tracking: name = self.__precompute
                    if len(n.targets) == 1 and isinstance(n.targets[0], ast.Name) and _is_shared_attr(n.value):
                        aliases[n.targets[0].id] = n.value.attr
                elif isinstance(n, ast.AugAssign):
                    t = n.target
                    if _is_shared_attr(t) or (isinstance(t, ast.Subscript) and _is_shared_attr(t.value)):
                        n_sites += 1
                        chk.fail(P("replace-only"), m.qualname, ast.unparse(n)[:60], where(n), "in-place update of the shared attribute")
                elif isinstance(n, ast.Delete):
                    for t in n.targets:
                        if _is_shared_attr(t) or (isinstance(t, ast.Subscript) and _is_shared_attr(t.value)):
                            chk.fail(P("replace-only"), m.qualname, ast.unparse(n)[:60], where(n), "deletion on the shared attribute")
                elif isinstance(n, ast.Call) and isinstance(n.func, ast.Attribute) and n.func.attr in MUTATORS:
                    recv = n.func.value
                    if _is_shared_attr(recv):
                        n_sites += 1
                        chk.fail(P("replace-only"), m.qualname, ast.unparse(n)[:60], where(n), "mutating call on the shared %s: other threads can observe the partially built value" % recv.attr)
            # mutation through an alias of the attribute
            for n in ast.walk(fn):
                if isinstance(n, ast.Call) and isinstance(n.func, ast.Attribute) and n.func.attr in MUTATORS and isinstance(n.func.value, ast.Name) and n.func.value.id in aliases:
                    chk.fail(P("replace-only"), m.qualname, ast.unparse(n)[:60], where(n), "mutation through a local alias of the shared %s" % aliases[n.func.value.id])
                if isinstance(n, (ast.Assign, ast.AugAssign)):
                    tg = n.targets if isinstance(n, ast.Assign) else [n.target]
                    for t in tg:
                        if isinstance(t, ast.Subscript) and isinstance(t.value, ast.Name) and t.value.id in aliases:
                            chk.fail(P("replace-only"), m.qualname, ast.unparse(n)[:60], where(n), "element store through a local alias of the shared %s" % aliases[t.value.id])
            # the same objects reached through the instance dictionary: d = self.__dict__ / vars(self) (live) or a shallow copy of it (the VALUES are still the
            # shared objects): d["_Point..__precompute"] may be rebound in a copy, but the list / tuple found there must not be changed in place
            def inst_dict(e):
                if isinstance(e, ast.Attribute) and e.attr == "__dict__" and isinstance(e.value, ast.Name) and e.value.id == "self":
                    return "live"
                if isinstance(e, ast.Call) and isinstance(e.func, ast.Name) and e.func.id == "vars" and len(e.args) == 1 and isinstance(e.args[0], ast.Name) and e.args[0].id == "self":
                    return "live"
                if isinstance(e, ast.Call) and isinstance(e.func, ast.Attribute) and e.func.attr == "copy" and not e.args and inst_dict(e.func.value):
                    return "copy"
                if isinstance(e, ast.Call) and isinstance(e.func, ast.Name) and e.func.id == "dict" and len(e.args) == 1 and inst_dict(e.args[0]):
                    return "copy"
                if isinstance(e, ast.Call) and isinstance(e.func, ast.Attribute) and e.func.attr == "copy" and len(e.args) == 1 and inst_dict(e.args[0]):
                    return "copy"  # copy.copy(self.__dict__)
                return None

            dnames = {}
            for n in ast.walk(fn):
                if isinstance(n, ast.Assign) and len(n.targets) == 1 and isinstance(n.targets[0], ast.Name) and inst_dict(n.value):
                    dnames[n.targets[0].id] = inst_dict(n.value)

            def shared_entry(e):
                """attribute name when e is <instance dict or copy>["..__precompute" / "..__coords"]"""
                if isinstance(e, ast.Subscript) and isinstance(e.slice, ast.Constant) and isinstance(e.slice.value, str) and e.slice.value.endswith(SHARED):
                    kind = inst_dict(e.value) or (dnames.get(e.value.id) if isinstance(e.value, ast.Name) else None)
                    if kind:
                        return e.slice.value, kind
                return None

            entry_alias = {}
            for n in ast.walk(fn):
                if isinstance(n, ast.Assign) and len(n.targets) == 1 and isinstance(n.targets[0], ast.Name) and shared_entry(n.value):
                    entry_alias[n.targets[0].id] = shared_entry(n.value)[0]
            for n in ast.walk(fn):
                tgts = []
                if isinstance(n, ast.Assign):
                    tgts = [(t, "store") for t in n.targets]
                elif isinstance(n, ast.AugAssign):
                    tgts = [(n.target, "in-place update")]
                elif isinstance(n, ast.Delete):
                    tgts = [(t, "deletion") for t in n.targets]
                for t, how in tgts:
                    inner = t.value if isinstance(t, ast.Subscript) else None
                    se = shared_entry(inner) if inner is not None else None
                    if se or (isinstance(inner, ast.Name) and inner.id in entry_alias):
                        n_sites += 1
                        chk.fail(P("replace-only"), m.qualname, ast.unparse(n)[:60], where(n), "%s inside the shared %s reached through the instance dictionary (a shallow copy of __dict__ still holds the very object other threads are reading)" % (how, se[0] if se else entry_alias[inner.id]))
                    se2 = shared_entry(t)
                    if se2 and se2[1] == "live" and mname not in ("__init__", "__setstate__") and how != "store":
                        n_sites += 1
                        chk.fail(P("replace-only"), m.qualname, ast.unparse(n)[:60], where(n), "%s of the shared %s through the live instance dictionary" % (how, se2[0]))
                if isinstance(n, ast.Call) and isinstance(n.func, ast.Attribute) and n.func.attr in MUTATORS:
                    se = shared_entry(n.func.value)
                    if se or (isinstance(n.func.value, ast.Name) and n.func.value.id in entry_alias):
                        n_sites += 1
                        chk.fail(P("replace-only"), m.qualname, ast.unparse(n)[:60], where(n), "mutating call on the shared %s reached through the instance dictionary" % (se[0] if se else entry_alias[n.func.value.id]))
        # ---- who may write the table: the constructors (before the object is shared) and _maybe_precompute (the one publisher).  A store anywhere else --
        # even of a fresh list -- discards a table that another thread may be walking (an in-place rescale that also resets the table, a "clear cache" method)
        writers = {}
        for mname, m in cls.methods.items():
            for n in ast.walk(m.node):
                if isinstance(n, (ast.Assign, ast.AugAssign, ast.Delete)):
                    tg = n.targets if isinstance(n, (ast.Assign, ast.Delete)) else [n.target]
                    for t in tg:
                        for x in (t.elts if isinstance(t, (ast.Tuple, ast.List)) else [t]):
                            if _is_shared_attr(x, ("__precompute",)):
                                writers.setdefault(mname, n)
        allowed_w = {"__init__", "__setstate__", "_maybe_precompute"}

        def only_from_allowed(name, seen=()):
            if name in allowed_w:
                return True
            if name in seen:
                return False
            callers = [mn for mn, mm in cls.methods.items() if mn != name and any(isinstance(c_, ast.Attribute) and c_.attr == name and isinstance(c_.value, ast.Name) and c_.value.id in ("self", "cls") for c_ in ast.walk(mm.node))]
            return bool(callers) and all(only_from_allowed(c_, seen + (name,)) for c_ in callers)

        for mname, node in writers.items():
            chk.require(only_from_allowed(mname), P("table-writers"), cls.methods[mname].qualname, "self.__precompute written in %s" % mname, "%s:%d" % (cls.methods[mname].file, node.lineno),
                        "the multiplication table is written only by the constructors and by its one publisher (or by helpers reached only from them)",
                        "%s writes the shared table and is reachable from methods other than the constructors and _maybe_precompute: a published table can be replaced or emptied while another thread is using it" % mname)
        chk.info["%s_shared_store_sites" % cname] = n_sites
        # ---- publish-last
        m = cls.methods.get("_maybe_precompute")
        if m is None:
            raise AnalysisError("%s._maybe_precompute missing" % cname)
        body = m.node.body
        pub = [(i, s) for i, s in enumerate(body) if isinstance(s, ast.Assign) and any(_is_shared_attr(t, ("__precompute",)) for t in s.targets)]
        ok = len(pub) == 1 and isinstance(pub[0][1].value, ast.Name)
        why = "expected exactly one top-level publishing assignment self.__precompute = <local>"
        anywhere = [s for s in ast.walk(m.node) if isinstance(s, ast.Assign) and any(_is_shared_attr(t, ("__precompute",)) for t in s.targets)]
        if not ok and len(anywhere) == 1 and len(anywhere[0].targets) == 1:
            # the other way of publishing a complete value: the table is built by an expression and assigned in the same statement -- list(<generator call>),
            # a comprehension or a display; no name refers to it before it is published, so nothing can change it afterwards except through the attribute (R1)
            v = anywhere[0].value
            fresh_expr = isinstance(v, (ast.ListComp, ast.List, ast.Tuple)) or (isinstance(v, ast.Call) and isinstance(v.func, ast.Name) and v.func.id in ("list", "tuple") and len(v.args) == 1
                                                                                  and isinstance(v.args[0], (ast.Call, ast.GeneratorExp, ast.ListComp)))
            if fresh_expr and not any(_is_shared_attr(n, ("__precompute",)) for n in ast.walk(v)):
                pub = [(0, anywhere[0])]
                chk.ok(P("publish-last"), m.qualname, "self.__precompute = %s" % ast.unparse(v)[:50], "%s:%d" % (m.file, anywhere[0].lineno),
                       "the table is built by one expression and published by the same statement: no partially built list is ever reachable from the attribute")
                continue_publish = True
            else:
                continue_publish = False
        else:
            continue_publish = False
        if continue_publish:
            pass
        elif ok:
            i, s = pub[0]
            local = s.value.id
            later = [n for st in body[i + 1:] for n in ast.walk(st) if isinstance(n, ast.Name) and n.id == local and not isinstance(n.ctx, ast.Load)]
            later_mut = [n for st in body[i + 1:] for n in ast.walk(st) if isinstance(n, ast.Call) and isinstance(n.func, ast.Attribute) and isinstance(n.func.value, ast.Name) and n.func.value.id == local and n.func.attr in MUTATORS]
            created = [st for st in body[:i] if isinstance(st, ast.Assign) and any(isinstance(t, ast.Name) and t.id == local for t in st.targets)]
            fresh = len(created) == 1 and isinstance(created[0].value, (ast.List, ast.ListComp, ast.Call)) and not any(_is_shared_attr(n) for n in ast.walk(created[0].value))
            # not nested in a loop/branch: publication is the statement after the loop
            ok = not later and not later_mut and fresh
            why = "the table is mutated after it was published, or the local is not a freshly created list"
        if not continue_publish:
          chk.require(ok, P("publish-last"), m.qualname, "precompute = []; ...; self.__precompute = precompute", "%s:%d" % (m.file, pub[0][1].lineno if pub else m.node.lineno),
                    "the lazily built table becomes visible by one final assignment of a completely built fresh list", why)
        # ---- snapshot reads
        for mname, m in cls.methods.items():
            loads = {}
            order = []
            for n in ast.walk(m.node):
                pass
            # linear order of relevant events
            events = []
            for st in ast.walk(m.node):
                if isinstance(st, ast.Attribute) and st.attr == "__coords" and isinstance(st.ctx, ast.Load) and isinstance(st.value, ast.Name):
                    events.append((st.lineno, st.col_offset, "load", st.value.id, st))
                if isinstance(st, ast.Call) and isinstance(st.func, ast.Attribute) and st.func.attr == "scale" and isinstance(st.func.value, ast.Name):
                    events.append((st.lineno, st.col_offset, "scale", st.func.value.id, st))
                if isinstance(st, ast.Assign) and any(_is_shared_attr(t, ("__coords",)) for t in st.targets):
                    events.append((st.lineno, st.col_offset, "store", "self", st))
            events.sort(key=lambda x: (x[0], x[1]))
            parents = {}
            for p_ in ast.walk(m.node):
                for c_ in ast.iter_child_nodes(p_):
                    parents[id(c_)] = p_
            last_full = {}
            for (ln, co, kind, recv, node) in events:
                if kind in ("scale", "store"):
                    last_full.pop(recv, None)
                    if kind == "store":
                        last_full.pop("self", None)
                    continue
                par = parents.get(id(node))
                # (a slice of the tuple is still ONE load of the attribute: its parts belong to the same version)
                subscripted = isinstance(par, ast.Subscript) and par.value is node and not isinstance(par.slice, ast.Slice)
                if subscripted:
                    # only allowed as a zero test: `not self.__coords[1]`
                    gp = parents.get(id(par))
                    zero_test = isinstance(gp, ast.UnaryOp) and isinstance(gp.op, ast.Not) or isinstance(gp, (ast.If, ast.BoolOp))
                    chk.require(zero_test, P("snapshot-reads"), m.qualname, ast.unparse(par), "%s:%d" % (m.file, ln), "single-component read used only as a zero test", "a single coordinate is read separately and used in arithmetic: coordinates from different versions of the point can be mixed")
                    continue
                if recv in last_full:
                    chk.fail(P("snapshot-reads"), m.qualname, "%s.__coords loaded twice (lines %d and %d) without scale() in between" % (recv, last_full[recv], ln), "%s:%d" % (m.file, ln), "two separate loads of the coordinate tuple in one method can observe different versions of the point")
                else:
                    # one load of the tuple, either unpacked at once or bound to a local whose items are used afterwards (`coords = self.__coords; coords[2]`)
                    unpack = isinstance(par, ast.Assign) and len(par.targets) == 1 and isinstance(par.targets[0], (ast.Tuple, ast.List, ast.Name)) and par.value is node
                    sliced = isinstance(par, ast.Subscript) and par.value is node and isinstance(par.slice, ast.Slice)
                    chk.require(unpack or sliced, P("snapshot-reads"), m.qualname, ("%s = %s.__coords" % (ast.unparse(par.targets[0]), recv)) if unpack else ast.unparse(par) if sliced else "? = %s.__coords" % recv, "%s:%d" % (m.file, ln), "all coordinates used together are taken from one load of the tuple", "coordinate tuple is not taken as one snapshot (tuple unpack of a single load)")
                last_full[recv] = ln


# ------------------------------------------------------------------------------------------------ locks
def _events(prog, qual):
    fi = prog.func(qual)
    ex = Exec(prog, policy=lambda e, f, d: False)
    res = ex.run(fi)
    return fi, ex, res


def _attr_of_self(t: Term, name_suffix: str) -> bool:
    t = unsnap(t)
    return t.op == "attr" and t.args[1].endswith(name_suffix) and unsnap(t.args[0]).op in ("param",)


def _switch_bound_lock_attr(prog):
    """name of the attribute when a light switch is bound to the lock it operates at construction: `self.X = <constructor parameter>` in __init__ and
    no other assignment to X in the class (the lock a switch works on is then fixed per switch object instead of being named at every call)"""
    lsc = prog.cls(RW + "._LightSwitch")
    if "__init__" not in lsc.methods:
        return None
    fi, ex, res = _events(prog, RW + "._LightSwitch.__init__")
    cands = [e.d["name"] for e in res.events if e.kind == "setattr" and unsnap(e.d["value"]).op == "param" and unsnap(e.d["value"]).args[0] in fi.params[1:]]
    if len(cands) != 1:
        return None
    short = cands[0].split("__")[-1]
    writes = 0
    for n in ast.walk(lsc.node):
        if isinstance(n, ast.Attribute) and isinstance(n.ctx, (ast.Store, ast.Del)) and n.attr.split("__")[-1] == short:
            writes += 1
    return cands[0] if writes == 1 else None


def lightswitch_rules(prog, chk, pid):
    P = lambda s: "%s.%s" % (pid, s)
    bound = _switch_bound_lock_attr(prog)
    for meth, delta, thresh, lockop in (("acquire", 1, 1, "acquire"), ("release", -1, 0, "release")):
        fi, ex, res = _events(prog, RW + "._LightSwitch." + meth)
        where = "%s:%d" % (fi.file, fi.lineno)
        ev = [e for e in res.events if e.kind in ("mcall", "setattr", "with_enter", "with_exit", "branch", "guard", "return")]
        seq = []
        for e in ev:
            if e.kind == "mcall" and e.d["name"] in ("acquire", "release"):
                r = unsnap(e.d["recv"])
                who = "mutex" if _attr_of_self(r, "__mutex") else ("lock" if r.op == "param" or (bound is not None and _attr_of_self(r, bound) and r.args[1] == bound) else "?")
                seq.append((who + "." + e.d["name"], e))
            elif e.kind == "with_enter" and _attr_of_self(e.d["mgr"], "__mutex"):
                seq.append(("mutex.acquire", e))
            elif e.kind == "with_exit" and _attr_of_self(e.d["mgr"], "__mutex"):
                seq.append(("mutex.release", e))
            elif e.kind == "setattr" and e.d["name"].endswith("__counter"):
                seq.append(("counter", e))
        names = [s[0] for s in seq]
        ok = names == ["mutex.acquire", "counter", "lock." + lockop, "mutex.release"]
        why = "operations are %s; documented mutex.acquire, counter %+d, conditional lock.%s, mutex.release" % (names, delta, lockop)
        if ok:
            # mutex acquire/release unconditional
            for k in (0, 3):
                if [f for f in seq[k][1].ctx if f[0] in ("if", "loop", "try", "except")]:
                    ok, why = False, "the mutex is not taken/released on every path"
            cnt = seq[1][1]
            v = unsnap(cnt.d["value"])
            good = v.op == "bin" and v.args[0] in ("Add", "Sub") and is_const(v.args[2]) and _attr_of_self(v.args[1], "__counter") and (cval(v.args[2]) if v.args[0] == "Add" else -cval(v.args[2])) == delta
            if not good or [f for f in cnt.ctx if f[0] in ("if", "loop")]:
                ok, why = False, "counter is not changed by exactly %+d on every path" % delta
            lk = seq[2][1]
            fr = [f for f in lk.ctx if f[0] == "if"]
            good = len(fr) == 1 and fr[0][2] is True
            if good:
                # the test, a term over the new counter value, is true for exactly the threshold (`c == 0`, `not c`, `c < 1` with c >= 0 are the same test)
                from bfsa.evalterm import NoEval, eval_term

                try:
                    good = all(bool(eval_term(fr[0][1], {v.uid: n})) == (n == thresh) for n in range(0, 6))
                except NoEval:
                    good = False
            if not good:
                ok, why = False, "outer lock is not %sd exactly when the counter is %d after the update" % (lockop, thresh)
        chk.require(ok, P("lightswitch-" + meth), fi.qualname, "mutex; counter %+d; if counter == %d: lock.%s(); release mutex" % (delta, thresh, lockop), where,
                    "first-in takes / last-out releases the outer lock, with the counter only touched under the mutex", why)
    # constructor: counter 0, own mutex -- a switch without a constructor, or with its Lock created in the class body,
    # shares one mutex between all switches (the read and the write switch of a lock would block each other)
    lsc = prog.cls(RW + "._LightSwitch")
    import ast as _ast

    class_level = [_ast.unparse(n)[:60] for n in lsc.node.body if isinstance(n, (_ast.Assign, _ast.AnnAssign)) and "Lock" in _ast.unparse(n)]
    if "__init__" not in lsc.methods or class_level:
        chk.fail(P("lightswitch-init"), lsc.qualname, "counter = 0; mutex = threading.Lock() per instance", "%s:%d" % (lsc.module.relpath, lsc.node.lineno),
                 "the switch's mutex is not created per instance in __init__ (%s): all switches share one lock object" % (class_level[:1] or "no __init__"))
        return
    fi, ex, res = _events(prog, RW + "._LightSwitch.__init__")
    sets = {e.d["name"].split("__")[-1]: unsnap(e.d["value"]) for e in res.events if e.kind == "setattr"}
    ok = is_const(sets.get("counter", NONE)) and cval(sets["counter"]) == 0 and "mutex" in sets and show(sets["mutex"], 3).startswith("threading.Lock")
    chk.require(ok, P("lightswitch-init"), fi.qualname, "counter = 0; mutex = threading.Lock()", "%s:%d" % (fi.file, fi.lineno), "switch starts off with its own mutex", "switch is not initialised with counter 0 and its own Lock")


def rwlock_rules(prog, chk, pid):
    P = lambda s: "%s.%s" % (pid, s)
    fi, ex, res = _events(prog, RW + ".RWLock.__init__")
    sets = {e.d["name"].split("__")[-1]: unsnap(e.d["value"]) for e in res.events if e.kind == "setattr"}
    locks = {k: v for k, v in sets.items() if show(v, 3).startswith("threading.Lock")}
    switches = {k: v for k, v in sets.items() if v.op == "ref"}
    ok = set(locks) == {"no_readers", "no_writers", "readers_queue"} and len({v.uid for v in locks.values()}) == 3 and set(switches) == {"read_switch", "write_switch"} and len({v.uid for v in switches.values()}) == 2
    chk.require(ok, P("rwlock-init"), fi.qualname, "two light switches, three locks, all distinct", "%s:%d" % (fi.file, fi.lineno), "distinct switch and lock objects", "RWLock is not built from two distinct switches and three distinct locks (%s / %s)" % (sorted(locks), sorted(switches)))

    # a switch bound to its lock at construction: read_switch = _LightSwitch(no_writers) -- the lock named at the call sites in the other spelling
    bound_to = {}
    if _switch_bound_lock_attr(prog) is not None:
        for e in res.events:
            if e.kind == "new" and e.d["cls"].name == "_LightSwitch" and len(e.d["args"]) == 1 and not e.d["kwargs"]:
                a0 = unsnap(e.d["args"][0])
                sw = [k for k, v in switches.items() if v is unsnap(e.d["result"])]
                lk = [k for k, v in locks.items() if v is a0] or ([a0.args[1].split("__")[-1]] if a0.op == "attr" else [])
                if len(sw) == 1 and len(lk) == 1:
                    bound_to[sw[0]] = lk[0]

    def ops(qual):
        f, e, r = _events(prog, qual)
        out = []
        for x in r.events:
            if x.kind == "mcall" and x.d["name"] in ("acquire", "release"):
                recv = unsnap(x.d["recv"])
                nm = recv.args[1].split("__")[-1] if recv.op == "attr" else show(recv, 2)
                arg = ""
                if x.d["args"]:
                    a = unsnap(x.d["args"][0])
                    arg = a.args[1].split("__")[-1] if a.op == "attr" else show(a, 2)
                elif nm in bound_to:
                    arg = bound_to[nm]
                out.append("%s.%s(%s)" % (nm, x.d["name"], arg))
            elif x.kind == "call" and x.d["callee"].name in ("acquire", "release"):
                recv = unsnap(x.d["args"][0]) if x.d["args"] else None
                # receiver is the attribute the switch was loaded from
                out.append("switch.%s" % x.d["callee"].name)
            if x.kind in ("mcall", "call") and [fr for fr in x.ctx if fr[0] in ("if", "loop", "try")] and (x.kind == "call" or x.d["name"] in ("acquire", "release")):
                out.append("<conditional>")
        return f, out

    want = {
        "reader_acquire": ["readers_queue.acquire()", "no_readers.acquire()", "read_switch.acquire(no_writers)", "no_readers.release()", "readers_queue.release()"],
        "reader_release": ["read_switch.release(no_writers)"],
        "writer_acquire": ["write_switch.acquire(no_readers)", "no_writers.acquire()"],
        "writer_release": ["no_writers.release()", "write_switch.release(no_readers)"],
    }
    for name, seq in want.items():
        f, got = ops(RW + ".RWLock." + name)
        chk.require(got == seq, P("rwlock-" + name), f.qualname, " ; ".join(seq), "%s:%d" % (f.file, f.lineno), "lock operations occur unconditionally in the documented order and wiring (readers: read switch on no_writers behind the turnstile; writers: write switch on no_readers, then exclusive no_writers)", "operations are %s" % got)


MUTATING_CALLS = {"append", "extend", "insert", "pop", "remove", "clear", "add", "discard", "update", "setdefault", "popitem", "sort", "reverse", "appendleft", "popleft", "__setitem__", "__delitem__"}
STATE_MODULES = ("ellipticcurve", "numbertheory", "ecdsa", "keys", "curves", "util", "der", "_compat", "rfc6979", "ecdh", "_rwlock", "_sha3", "errors")
_STATE_SAMPLE = '''
_last = None
_seen = set()
def f(a):
    global _last
    if a == _last:
        return 1
    _last = a
    _seen.add(a)
    return 0
'''


def _module_state_writes(tree: ast.Module):
    """(function name, line, description) for every write to module-level state made from inside a function of the module"""
    top = set()

    def collect(stmts):
        for st in stmts:
            if isinstance(st, (ast.Assign, ast.AnnAssign, ast.AugAssign)):
                for t in (st.targets if isinstance(st, ast.Assign) else [st.target]):
                    for x in ast.walk(t):
                        if isinstance(x, ast.Name):
                            top.add(x.id)
            elif isinstance(st, (ast.If, ast.Try, ast.With, ast.For, ast.While)):
                for fld in ("body", "orelse", "finalbody"):
                    collect(getattr(st, fld, []) or [])
                for h in getattr(st, "handlers", []) or []:
                    collect(h.body)

    collect(tree.body)
    out = []

    def funcs(node, prefix=""):
        for ch in ast.iter_child_nodes(node):
            if isinstance(ch, (ast.FunctionDef, ast.AsyncFunctionDef)):
                yield prefix + ch.name, ch
                yield from funcs(ch, prefix + ch.name + ".")
            elif isinstance(ch, ast.ClassDef):
                yield from funcs(ch, prefix + ch.name + ".")
            elif not isinstance(ch, ast.Lambda):
                yield from funcs(ch, prefix)

    for qn, fn in funcs(tree):
        own = [n for n in ast.walk(fn)]
        declared = {nm for n in own if isinstance(n, ast.Global) for nm in n.names}
        params = {a.arg for a in fn.args.posonlyargs + fn.args.args + fn.args.kwonlyargs} | ({fn.args.vararg.arg} if fn.args.vararg else set()) | ({fn.args.kwarg.arg} if fn.args.kwarg else set())
        local = {x.id for n in own if isinstance(n, (ast.Assign, ast.AnnAssign, ast.AugAssign, ast.For, ast.NamedExpr, ast.withitem, ast.comprehension))
                 for t in ([n.target] if hasattr(n, "target") else getattr(n, "targets", None) or ([n.optional_vars] if getattr(n, "optional_vars", None) is not None else []))
                 for x in ast.walk(t) if isinstance(x, ast.Name) and isinstance(x.ctx, ast.Store)} - declared
        shared = lambda nm: (nm in top and nm not in local and nm not in params) or nm in declared
        for n in own:
            if isinstance(n, ast.Name) and isinstance(n.ctx, (ast.Store, ast.Del)) and n.id in declared:
                out.append((qn, n.lineno, "assigns the module global %s" % n.id))
            if isinstance(n, ast.Call) and isinstance(n.func, ast.Attribute) and n.func.attr in MUTATING_CALLS and isinstance(n.func.value, ast.Name) and shared(n.func.value.id):
                out.append((qn, n.lineno, "%s.%s(...) on a module-level object" % (n.func.value.id, n.func.attr)))
            if isinstance(n, (ast.Subscript, ast.Attribute)) and isinstance(n.ctx, (ast.Store, ast.Del)) and isinstance(n.value, ast.Name) and shared(n.value.id) and not (isinstance(n, ast.Attribute) and n.value.id in ("self", "cls")):
                out.append((qn, n.lineno, "stores into the module-level object %s" % n.value.id))
    # state that no function ever reads (a write-only statistic such as a test counter) cannot feed back into any result
    read_names = set()
    for qn, fn in funcs(tree):
        for n in ast.walk(fn):
            if isinstance(n, ast.Name) and isinstance(n.ctx, ast.Load):
                read_names.add(n.id)
    out = [r for r in out if not (r[2].startswith("assigns the module global ") and r[2].split()[-1] not in read_names)]
    # one report per (function, description)
    seen, uniq = set(), []
    for r in out:
        if (r[0], r[2]) not in seen:
            seen.add((r[0], r[2]))
            uniq.append(r)
    return uniq


def module_state_rules(prog, chk, pid):
    """curve and point objects are shared between threads, and so is everything their methods reach: a function of the arithmetic that remembers something in a
    module-level variable (a memo, a cache of validated points, a last-result slot) is read and written by all threads without any lock"""
    P = lambda s: "%s.%s" % (pid, s)
    sample = _module_state_writes(ast.parse(_STATE_SAMPLE))
    if len(sample) != 2:
        raise AnalysisError("the module-state detector does not recognise its own positive example (%s)" % (sample,))
    n_mod = n_fn = 0
    for short in STATE_MODULES:
        q = "register_crypto_plugin.ecdsa." + short
        if q not in prog.modules:
            continue
        m = prog.modules[q]
        n_mod += 1
        n_fn += sum(1 for n in ast.walk(m.tree) if isinstance(n, (ast.FunctionDef, ast.AsyncFunctionDef)))
        for fn, line, what in _module_state_writes(m.tree):
            chk.fail(P("no-module-state"), "%s.%s" % (q, fn), what, "%s:%d" % (m.relpath, line),
                     "%s %s: the value is shared by every thread that uses the library and is read and written without a lock (two interleaved calls can pair one call's key with the other's value)" % (fn, what))
    chk.ok(P("no-module-state"), "register_crypto_plugin.ecdsa", "%d modules, %d functions scanned for writes to module-level state" % (n_mod, n_fn), "",
           "no function of the ECC package assigns a module global or mutates a module-level container: shared curve / point objects are the only shared state")


def run(prog, chk, tier):
    chk.explanation = ("Structural necessary conditions of the two mechanisms the property rests on. Publication: every store to __precompute/__coords outside the constructors is a "
                       "single plain assignment of a freshly built value, no in-place mutation directly or via an alias, the table is published by the last statement that touches "
                       "it, and each method takes the coordinate tuple as one snapshot (reloads only after scale(), single components only in zero tests). Lock: the light switch "
                       "touches its counter only between mutex acquire and release on all paths, changes it by exactly one, takes the outer lock iff the counter is 1 after the "
                       "increment and releases it iff 0 after the decrement; RWLock wires read/write switches and locks in the documented order. 'Every interleaving' and "
                       "deadlock freedom are not decided: that needs state-space exploration (a different technique family); a plain lock-order graph would report an infeasible cycle.")
    publication_rules(prog, chk, "C20")
    lightswitch_rules(prog, chk, "C20")
    rwlock_rules(prog, chk, "C20")
    module_state_rules(prog, chk, "C20")
    chk.assume("CPython attribute assignment and tuple loads are atomic (GIL); threading.Lock is a correct mutex")
    chk.assume("interleaving semantics (absence of deadlock, mutual exclusion under all schedules) is not decided by this check")
