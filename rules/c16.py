"""C16 -- bundled AES equals FIPS-197 and the adapter is a pure zero-padded CBC.

R1  CONST  all 14 lookup tables + rcon + number_of_rounds equal tables regenerated from the GF(2^8) definitions (exhaustive).
R2  LANES  AES.encrypt / AES.decrypt / AES.__init__ interpreted over symbolic key and block bytes in a byte-lane term domain
           and compared, byte for byte, with FIPS-197 (cipher, equivalent inverse cipher, key expansion) written in the same domain.
R4  FLOW   ECB / CBC mode equations.   R5-R9 adapter rules.   R10 pad / create_AES128 pass-through.
R11 (rules/c16stream.py) ECB/CBC/CFB/OFB/CTR objects and Encrypter/Decrypter feeders, call by call, for enumerated lengths and splits with symbolic
           contents: every output byte equals the SP 800-38A term.  R12 no state shared between cipher objects."""
from __future__ import annotations

from typing import Dict, List

from bfsa.domains.lanes import LaneEval, Lanes, TABLE_SPEC, Word, ref_decrypt_equiv, ref_encrypt, ref_inv_mix_word, ref_key_expansion, reference_rcon, reference_table
from bfsa.guard import unsnap
from bfsa.heap import Unsupported
from bfsa.layout import builtin_call, meth_call
from bfsa.load import AnalysisError, NotConst
from bfsa.symexec import Exec
from bfsa.terms import C, NONE, Term, cval, is_const, mk, show, sym

from rules import adapter, c16stream
from rules import stackrt

LEVEL = "other"
AESQ = "register_crypto_plugin.pyaes.aes"


def pol(ex, fi, depth):
    return fi.module.name.startswith("register_crypto_plugin.pyaes") and depth < 12


# ------------------------------------------------------------------------------------------------ R1
def table_rules(prog, chk, pid):
    cls = prog.cls(AESQ + ".AES")
    where = "%s:%d" % (cls.module.relpath, cls.node.lineno)
    total = 0
    for name in ["S", "Si"] + ["T%d" % i for i in range(1, 9)] + ["U%d" % i for i in range(1, 5)]:
        try:
            lit = prog.fold_class_attr(cls, name)
        except NotConst:
            raise AnalysisError("AES.%s is not a literal table" % name)
        ref = reference_table(name)
        bad = [i for i in range(256) if i >= len(lit) or lit[i] != ref[i]] if len(lit) == 256 else list(range(min(len(lit), 256)))
        total += 256
        chk.require(len(lit) == 256 and not bad, "%s.table-%s" % (pid, name), cls.qualname, "%s[0..255]" % name, where,
                    "all 256 entries equal the table generated from the GF(2^8) definition (inverse + affine map; MixColumns coefficients %s)" % (TABLE_SPEC[name][1],),
                    "%d entries differ from the GF(2^8) definition (first at index %s: literal %s, definition %s)" % (len(bad), bad[0] if bad else "-", hex(lit[bad[0]]) if bad and bad[0] < len(lit) else "-", hex(ref[bad[0]]) if bad else "-"))
    rc = prog.fold_class_attr(cls, "rcon")
    ref = reference_rcon(len(rc))
    # the schedule for 128-bit keys consumes 10, 192: 8, 256: 7 constants
    bad = [i for i in range(min(len(rc), 10)) if rc[i] != ref[i]]
    chk.require(len(rc) >= 10 and not bad and list(rc) == ref, "%s.table-rcon" % pid, cls.qualname, "rcon[0..%d]" % (len(rc) - 1), where, "round constants are successive powers of 2 in GF(2^8)", "rcon differs from x^i in GF(2^8) at %s" % (bad[:3] or "tail"))
    nr = prog.fold_class_attr(cls, "number_of_rounds")
    chk.require(nr == {16: 10, 24: 12, 32: 14}, "%s.number-of-rounds" % pid, cls.qualname, "number_of_rounds", where, "10/12/14 rounds for 128/192/256-bit keys", "number_of_rounds is %r" % (nr,))
    chk.info["table_entries_checked"] = total + len(rc)
    # tables are never written
    import ast

    writers = []
    for m in prog.modules.values():
        if m.is_test or not m.name.startswith("register_crypto_plugin"):
            continue
        for n in ast.walk(m.tree):
            tgts = []
            if isinstance(n, ast.Assign):
                tgts = n.targets
            elif isinstance(n, (ast.AugAssign,)):
                tgts = [n.target]
            elif isinstance(n, ast.Delete):
                tgts = n.targets
            for t in tgts:
                base = t.value if isinstance(t, ast.Subscript) else t
                if isinstance(base, ast.Attribute) and base.attr in TABLE_SPEC or (isinstance(base, ast.Attribute) and base.attr == "rcon"):
                    if isinstance(t, ast.Subscript) or not isinstance(base.value, ast.Name) or True:
                        writers.append("%s:%d" % (m.relpath, n.lineno))
            if isinstance(n, ast.Call) and isinstance(n.func, ast.Attribute) and n.func.attr in ("append", "extend", "insert", "pop", "remove", "sort", "reverse", "clear", "__setitem__") and isinstance(n.func.value, ast.Attribute) and (n.func.value.attr in TABLE_SPEC or n.func.value.attr == "rcon"):
                writers.append("%s:%d" % (m.relpath, n.lineno))
    chk.require(not writers, "%s.tables-immutable" % pid, cls.qualname, "no store / mutation of S, Si, T*, U*, rcon", writers[0] if writers else where, "lookup tables are read-only in the plug-in", "a table is written at %s" % writers[:3])


# ------------------------------------------------------------------------------------------------ R2
def _mk_words(ex, st, n_rounds_plus_1, tag):
    rows = []
    syms = []
    for r in range(n_rounds_plus_1):
        ws = [sym("%s_%d_%d_" % (tag, r, i)) for i in range(4)]
        syms.append(ws)
        rows.append(ex.new_list(st, ws))
    return ex.new_list(st, rows), syms


def block_rules(prog, chk, pid, tier):
    cls = prog.cls(AESQ + ".AES")
    for meth, keyattr, ref in (("encrypt", "_Ke", ref_encrypt), ("decrypt", "_Kd", ref_decrypt_equiv)):
        fi = prog.method(AESQ + ".AES", meth)
        where = "%s:%d" % (fi.file, fi.lineno)
        for nr in (10, 12, 14):
            ex = Exec(prog, policy=pol)
            holder = {}

            def setup(st, _nr=nr, _ex=ex, _holder=holder, _keyattr=keyattr):
                selfo = _ex.new_obj(st, "obj", cls=cls, label="aes")
                ke, syms = _mk_words(_ex, st, _nr + 1, "k")
                _ex.obj(st, selfo).attrs[_keyattr] = ke
                blk = [sym("p%d_" % i) for i in range(16)]
                _holder["syms"], _holder["blk"] = syms, blk
                return {fi.params[0]: selfo, fi.params[1]: _ex.new_list(st, blk)}

            try:
                res = ex.run(fi, setup=setup)
            except Unsupported as u:
                raise AnalysisError("AES.%s not interpretable: %s" % (meth, u))
            if res.dead or res.ret is None:
                chk.fail("%s.block-%s" % (pid, meth), fi.qualname, "rounds=%d" % nr, where, "no normal return for a 16-byte block")
                continue
            out = ex.iter_items(res.ret, res.state)
            d = Lanes()
            leafmap: Dict[int, Word] = {}
            for i, t in enumerate(holder["blk"]):
                leafmap[t.uid] = d.byte(d.B.inp("p%d" % i))
            rk = []
            for r, ws in enumerate(holder["syms"]):
                for c, t in enumerate(ws):
                    bs = [d.B.inp("k%d.%d.%d" % (r, c, j)) for j in range(4)]  # MSB first
                    leafmap[t.uid] = d.from_bytes_be(bs, signed=True)
                    rk.append(bs)
            ev = LaneEval(ex, d, lambda t: leafmap.get(t.uid))
            ok, why = out is not None and len(out) == 16, "result is not a list of 16 values"
            if ok:
                try:
                    got = [d.as_byte(ev.ev(t)) for t in out]
                except Unsupported as u:
                    raise AnalysisError("AES.%s result not interpretable in the lane domain: %s" % (meth, u))
                want = ref(d, [d.B.inp("p%d" % i) for i in range(16)], rk, nr)
                bad = [i for i in range(16) if got[i] != want[i]]
                ok = not bad
                why = "output bytes %s differ from FIPS-197 (%s rounds); byte %d is %s, FIPS-197 gives %s" % (bad[:6], nr, bad[0] if bad else 0, d.B.show(got[bad[0]], 2)[:200] if bad else "", d.B.show(want[bad[0]], 2)[:200] if bad else "")
            chk.require(ok, "%s.block-%s" % (pid, meth), fi.qualname, "%d rounds: 16 output bytes as terms over (block, round keys)" % nr, where,
                        "all 16 output bytes equal, as byte-lane terms, the FIPS-197 %s for symbolic block and round-key bytes" % ("cipher" if meth == "encrypt" else "equivalent inverse cipher"), why)
            chk.info.setdefault("unrolled_statements", 0)
            chk.info["unrolled_statements"] += ex.unrolled_total
            if tier == "quick" and nr == 10 and False:
                break


def key_schedule_rules(prog, chk, pid):
    cls = prog.cls(AESQ + ".AES")
    fi = prog.method(AESQ + ".AES", "__init__")
    where = "%s:%d" % (fi.file, fi.lineno)
    for klen in (16, 24, 32):
        ex = Exec(prog, policy=pol)
        holder = {}

        def setup(st, _klen=klen, _ex=ex, _holder=holder):
            selfo = _ex.new_obj(st, "obj", cls=cls, label="aes")
            kb = [sym("key%d_" % i) for i in range(_klen)]
            _holder["kb"], _holder["self"] = kb, selfo
            return {fi.params[0]: selfo, fi.params[1]: _ex.new_list(st, kb)}

        try:
            res = ex.run(fi, setup=setup)
        except Unsupported as u:
            raise AnalysisError("AES.__init__ not interpretable for %d-byte keys: %s" % (klen, u))
        if res.dead:
            chk.fail("%s.key-schedule" % pid, fi.qualname, "%d-byte key" % klen, where, "constructor raises for a valid key length")
            continue
        st = res.state
        so = ex.obj(st, holder["self"])
        d = Lanes()
        leafmap = {t.uid: d.byte(d.B.inp("key%d" % i)) for i, t in enumerate(holder["kb"])}
        ev = LaneEval(ex, d, lambda t: leafmap.get(t.uid))
        nr = {16: 10, 24: 12, 32: 14}[klen]
        refw = ref_key_expansion(d, [d.B.inp("key%d" % i) for i in range(klen)])

        def words_of(attr):
            ref_t = so.attrs.get(attr)
            rows = ex.iter_items(ref_t, st) if ref_t is not None else None
            if rows is None or len(rows) != nr + 1:
                return None
            out = []
            for r in rows:
                ws = ex.iter_items(r, st)
                if ws is None or len(ws) != 4:
                    return None
                out.append(ws)
            return out

        for attr in ("_Ke", "_Kd"):
            rows = words_of(attr)
            if rows is None:
                chk.fail("%s.key-schedule%s" % (pid, attr), fi.qualname, "%d-byte key" % klen, where, "%s is not a list of %d rounds x 4 words" % (attr, nr + 1))
                continue
            bad = []
            try:
                for r in range(nr + 1):
                    for c in range(4):
                        w = ev.ev(rows[r][c])
                        got = [w.lanes[3], w.lanes[2], w.lanes[1], w.lanes[0]]
                        if attr == "_Ke":
                            want = refw[4 * r + c]
                        else:
                            want = refw[4 * (nr - r) + c]
                            if 1 <= r < nr:
                                want = ref_inv_mix_word(d, want)
                        if got != want:
                            bad.append((r, c))
            except Unsupported as u:
                raise AnalysisError("AES.__init__ %s not interpretable in the lane domain: %s" % (attr, u))
            chk.require(not bad, "%s.key-schedule%s" % (pid, attr), fi.qualname, "%d-byte key: %d round-key words" % (klen, 4 * (nr + 1)), where,
                        ("encryption round keys equal the FIPS-197 5.2 expansion (RotWord/SubWord/Rcon%s) word by word" % (", extra SubWord for 256-bit keys" if klen == 32 else "")) if attr == "_Ke" else "decryption round keys are the mirrored encryption keys with InvMixColumns applied to rounds 1..Nr-1 (FIPS-197 5.3.5)",
                        "round-key words %s differ from FIPS-197" % bad[:6])
    # key-size guard
    exg = Exec(prog, policy=lambda e, f, d: False)
    rg = exg.run(fi)
    from bfsa.guard import raise_rel

    gs = [g for g in rg.events if g.kind == "guard" and g.d.get("term") == "raise"]
    okg = False
    for g in gs:
        r = raise_rel(g)
        if r[0] == "rel" and r[1] == "NotIn" and is_const(r[3]) and tuple(cval(r[3])) == (16, 24, 32) and r[2].op == "len":
            okg = True
    chk.require(okg, "%s.key-size-guard" % pid, fi.qualname, "len(key) not in (16, 24, 32) -> raise", where, "other key sizes are rejected", "key size is not restricted to 16/24/32 bytes")


# ------------------------------------------------------------------------------------------------ R4 modes
def mode_rules(prog, chk, pid):
    P = lambda s: "%s.%s" % (pid, s)
    pol_m = lambda e, f, d: f.module.name.startswith("register_crypto_plugin.pyaes") and f.qualname.split(".")[-2] != "AES" and d < 8
    # ---- byte/str compatibility helpers are the identity on bytes
    for hname in ("_string_to_bytes",):
        fh = prog.func(AESQ + "." + hname)
        exh = Exec(prog, policy=lambda e, f, d: False)
        rh = exh.run(fh)
        rets = [e for e in rh.events if e.kind == "return" and e.stack == (fh.qualname,)]
        okh = any(unsnap(r.d["value"]).op == "param" and any(f[0] == "if" and f[2] and f[1].op == "isinst" for f in r.ctx) for r in rets)
        chk.require(okh, P("bytes-helper"), fh.qualname, "isinstance(text, bytes) -> return text", "%s:%d" % (fh.file, fh.lineno), "helper is the identity on bytes input", "%s is not the identity on bytes" % hname)
    fh = prog.func(AESQ + "._bytes_to_string")
    exh = Exec(prog, policy=lambda e, f, d: False)
    rh = exh.run(fh)
    bc = builtin_call(unsnap(rh.ret)) if rh.ret is not None else None
    chk.require(bool(bc) and bc[0] == "bytes" and len(bc[1]) == 1 and unsnap(bc[1][0]).op == "param", P("bytes-helper"), fh.qualname, "return bytes(binary)", "%s:%d" % (fh.file, fh.lineno), "helper converts the list of byte values to bytes unchanged", "_bytes_to_string is not bytes(binary)")

    cur = {}

    def strip(t):
        t = unsnap(t)
        while True:
            if t.op == "call" and isinstance(t.args[0], Term) and t.args[0].op == "func" and t.args[0].args[0].rsplit(".", 1)[-1] in ("_string_to_bytes", "_bytes_to_string") and len(t.args[1]) == 1:
                t = unsnap(t.args[1][0])
                continue
            if t.op == "ref" and cur.get("ex") is not None:
                # list(<generator / map>) that was not changed since: the items are those of the iterable
                heap = (cur["res"].state.heap if cur["res"].state is not None else None) or getattr(cur["ex"], "last_heap", {}) or {}
                o_ = heap.get(t.args[0])
                if o_ is not None and o_.kind == "list" and not o_.exact and isinstance(getattr(o_, "base", None), Term) and o_.items and o_.items[0][2] == "from" and all(i_[2] == "callee" for i_ in o_.items[1:]):
                    # (entries marked 'callee' only say that the list was later handed to a helper that is not interpreted in line: the byte helpers checked above)
                    t = unsnap(o_.base)
                    continue
            bc2 = builtin_call(t)
            if bc2 and bc2[0] == "bytes" and len(bc2[1]) == 1:
                t = unsnap(bc2[1][0])
                continue
            return t

    def is_last(t):
        t = unsnap(t)
        return t.op == "attr" and t.args[1] == "_last_cipherblock"

    def xor_zip(t, pred_a, pred_b):
        """t == [a ^ b for (a, b) in zip(A, B)] with pred_a(A), pred_b(B) (either order)"""
        t = strip(t)
        if t.op != "comp":
            return False
        elt, it = unsnap(t.args[1]), (unsnap(t.args[2]) if isinstance(t.args[2], Term) else None)
        if not (elt.op == "bin" and elt.args[0] == "BitXor"):
            return False
        ops = {unsnap(elt.args[1]).uid, unsnap(elt.args[2]).uid}
        if len(ops) != 2 or not all(unsnap(o).op == "elem" for o in (elt.args[1], elt.args[2])):
            return False
        if it is not None and it.op == "iterview" and it.args[0] == "zip":
            srcs = [strip(x) for x in it.args[1].args[0]]
        else:
            # list(map(xor, A, B)) / a comprehension over indexes: the two operands are items of A and of B taken in the same step
            e1, e2 = unsnap(elt.args[1]), unsnap(elt.args[2])
            if len(e1.args) < 2 or len(e2.args) < 2 or e1.args[1] != e2.args[1]:
                return False
            srcs = [strip(e1.args[0]), strip(e2.args[0])]
        if len(srcs) != 2:
            return False
        return (pred_a(srcs[0]) and pred_b(srcs[1])) or (pred_a(srcs[1]) and pred_b(srcs[0]))

    # ---- CBC
    pol_c = lambda e, f, d: False
    for meth in ("encrypt", "decrypt"):
        fi = prog.method(AESQ + ".AESModeOfOperationCBC", meth)
        where = "%s:%d" % (fi.file, fi.lineno)
        ex = Exec(prog, policy=pol_c)
        res = ex.run(fi)
        cur["ex"], cur["res"] = ex, res
        calls = [e for e in res.events if e.kind == "mcall" and e.d["name"] == meth and unsnap(e.d["recv"]).op == "attr" and unsnap(e.d["recv"]).args[1] == "_aes"]
        sets = [e for e in res.events if e.kind == "setattr" and e.d["name"] == "_last_cipherblock"]
        ok, why = len(calls) == 1 and len(sets) == 1 and not res.dead, "expected exactly one self._aes.%s call and one update of the chaining value" % meth
        is_blk = lambda t: unsnap(t).op == "param" and unsnap(t).args[0] == fi.params[1]
        if ok:
            arg = calls[0].d["args"][0]
            result = unsnap(calls[0].d["result"])
            retv = strip(res.ret)
            if meth == "encrypt":
                ok = xor_zip(arg, is_blk, is_last) and sets[0].uid > calls[0].uid
                why = "block cipher input is not plaintext XOR previous ciphertext block"
                if ok:
                    ok = strip(sets[0].d["value"]) is result and retv is result
                    why = "chaining value / returned block is not the cipher output"
            else:
                ok = is_blk(strip(arg))
                why = "block cipher input is not the ciphertext block"
                if ok:
                    ok = is_blk(strip(sets[0].d["value"]))
                    why = "chaining value is not set to the ciphertext block"
                if ok:
                    ok = xor_zip(res.ret, lambda t: unsnap(t) is result, is_last)
                    # the chaining value used must be the one from before the update
                    loads = [e for e in res.events if e.kind == "iter" or e.kind == "op"]
                    why = "returned plaintext is not D(ciphertext) XOR previous ciphertext block"
                    if ok:
                        # XOR computed before the chaining value is overwritten
                        xor_events = [e for e in res.events if e.kind == "op" and e.d["op"] == "BitXor"]
                        ok = bool(xor_events) and all(e.uid < sets[0].uid for e in xor_events)
                        why = "previous ciphertext block is overwritten before it is XORed into the plaintext"
        chk.require(ok, P("cbc-%s" % meth), fi.qualname, "c = E(p ^ last); last := c" if meth == "encrypt" else "p = D(c) ^ last; last := c", where, "CBC chaining equation holds for a symbolic block and chaining value", why)
    # ---- CBC init: iv None -> zeros, else the iv bytes
    fi = prog.method(AESQ + ".AESModeOfOperationCBC", "__init__")
    ex = Exec(prog, policy=lambda e, f, d: f.name in ("_string_to_bytes",))
    res = ex.run(fi)
    sets = [e for e in res.events if e.kind == "setattr" and e.d["name"] == "_last_cipherblock"]
    ok = len(sets) == 2
    why = "chaining value is not initialised on exactly two arms (iv None / iv given)"
    if ok:
        vals = {}
        for e in sets:
            conds = [(f[1], f[2]) for f in e.ctx if f[0] == "if"]
            none_arm = any(c.op == "cmp" and c.args[0] == "Is" and c.args[2] is NONE and pol for c, pol in conds)
            vals["none" if none_arm else "given"] = e
        ok = set(vals) == {"none", "given"}
        if ok:
            z = ex.iter_items(vals["none"].d["value"], res.state)
            ok = z is not None and len(z) == 16 and all(is_const(x) and cval(x) == 0 for x in z)
            g = unsnap(vals["given"].d["value"])
            ok = ok and (g.op == "param" and g.args[0] == "iv" or (g.op == "phi" and any(unsnap(x).op == "param" and unsnap(x).args[0] == "iv" for x in g.args[1:])))
        why = "chaining value is not 16 zero bytes for iv None / the iv bytes otherwise"
    chk.require(ok, P("cbc-init"), fi.qualname, "last = [0]*16 if iv is None else bytes(iv)", "%s:%d" % (fi.file, fi.lineno), "chaining starts from the IV, or from 16 zero bytes when no IV is given", why)
    # ---- ECB
    ecls = prog.cls(AESQ + ".AESModeOfOperationECB")
    for meth in ("encrypt", "decrypt"):
        fi = prog.method(AESQ + ".AESModeOfOperationECB", meth)
        ex = Exec(prog, policy=pol_m)
        res = ex.run(fi)
        calls = [e for e in res.events if e.kind in ("call", "mcall") and (e.d.get("name") == meth or (e.kind == "call" and e.d["callee"].name == meth))]
        retv = unsnap(res.ret) if res.ret is not None else None
        bc = builtin_call(retv) if retv is not None else None
        src = unsnap(bc[1][0]) if bc and bc[0] == "bytes" and len(bc[1]) == 1 else retv
        ok = len(calls) == 1 and src is unsnap(calls[0].d["result"])
        if ok:
            a = calls[0].d["args"][-1] if calls[0].d["args"] else None
            a = unsnap(a) if a is not None else None
            ok = a is not None and (a.op == "param" or (a.op == "phi" and any(unsnap(x).op == "param" for x in a.args[1:])) or (a.op == "call"))
        chk.require(ok, P("ecb-%s" % meth), fi.qualname, "%s(block) = AES.%s(block)" % (meth, meth), "%s:%d" % (fi.file, fi.lineno), "ECB applies the block function to the block unchanged", "ECB %s does not return AES.%s(block)" % (meth, meth))
    # ---- feeder finalisation used by the adapter (padding 'none')
    fq = "register_crypto_plugin.pyaes.blockfeeder"
    for fname, meth in (("_block_final_encrypt", "encrypt"), ("_block_final_decrypt", "decrypt")):
        fi = prog.func(fq + "." + fname)
        ex = Exec(prog, policy=lambda e, f, d: False)
        res = ex.run(fi, args={"padding": C("none")})
        rets = [e for e in res.events if e.kind == "return" and e.stack == (fi.qualname,)]
        ok = bool(rets)
        for r in rets:
            v = unsnap(r.d["value"])
            mc = meth_call(v)
            if mc and mc[1] == meth and len(mc[2]) == 1 and unsnap(mc[2][0]).op == "param" and unsnap(mc[2][0]).args[0] == "data":
                continue
            # len == 32 special arm: encrypt(data[:16]) + encrypt(data[16:]) -- dead for padding none (len == 16 enforced)
            if any(f[0] == "if" and f[2] and "32" in show(f[1], 3) for f in r.ctx):
                continue
            ok = False
        chk.require(ok, P("feeder-final-%s" % meth), fi.qualname, "padding 'none': return self.%s(data) for a 16-byte final block" % meth, "%s:%d" % (fi.file, fi.lineno), "with padding disabled the final block is passed to the mode unchanged", "final block handling with padding 'none' is not self.%s(data)" % meth)
    # injected methods are the ones analysed
    bcls = prog.cls(AESQ + ".AESBlockModeOfOperation")
    for nm, fn in (("_final_encrypt", "_block_final_encrypt"), ("_final_decrypt", "_block_final_decrypt"), ("_can_consume", "_block_can_consume")):
        inj = bcls.injected.get(nm)
        chk.require(getattr(inj, "name", None) == fn, P("feeder-binding"), bcls.qualname, "%s = %s" % (nm, fn), "", "block modes use the block finalisers", "AESBlockModeOfOperation.%s is bound to %s" % (nm, getattr(inj, "name", inj)))


def _xor_eq(a: Term, p: Term, l: Term) -> bool:
    a = unsnap(a)
    return a.op == "bin" and a.args[0] == "BitXor" and ((unsnap(a.args[1]) is p and unsnap(a.args[2]) is l) or (unsnap(a.args[1]) is l and unsnap(a.args[2]) is p))


def _xor_with_elem(a: Term, res: Term, i: int, l: Term) -> bool:
    a = unsnap(a)
    if not (a.op == "bin" and a.args[0] == "BitXor"):
        return False
    for x, y in ((unsnap(a.args[1]), unsnap(a.args[2])), (unsnap(a.args[2]), unsnap(a.args[1]))):
        if y is l and x.op == "sub" and unsnap(x.args[0]) is unsnap(res) and is_const(x.args[1]) and cval(x.args[1]) == i:
            return True
    return False


def _comp_xor_zip(rs: Term, res: Term, last: List[Term], ex, st) -> bool:
    """comp('list', (elem_a ^ elem_b), zip(D(c), last))"""
    if rs.op != "comp":
        return False
    elt, it = unsnap(rs.args[1]), unsnap(rs.args[2])
    if not (elt.op == "bin" and elt.args[0] == "BitXor" and it.op == "iterview" and it.args[0] == "zip"):
        return False
    srcs = [unsnap(x) for x in it.args[1].args[0]]
    if len(srcs) != 2:
        return False
    has_res = any(s is unsnap(res) for s in srcs)
    other = [s for s in srcs if s is not unsnap(res)]
    if not has_res or len(other) != 1:
        return False
    items = ex.iter_items(other[0], st)
    if items is None or len(items) != 16 or not all(unsnap(a) is b for a, b in zip(items, last)):
        # the list object of `last` may have been replaced; accept the original reference
        o = ex.obj(st, other[0])
        return False
    return True


def aes_index_safety(prog):
    """concrete-control interpretation of the AES block functions: every subscript is resolved concretely (no 'subscript'
    event with a symbolic or failing index is emitted inside AES.__init__ / encrypt / decrypt).  -> (safe, lookups)"""
    cls = prog.cls(AESQ + ".AES")
    lookups = 0
    safe = True
    for meth, keyattr in (("encrypt", "_Ke"), ("decrypt", "_Kd")):
        fi = prog.method(AESQ + ".AES", meth)
        for nr in (10, 12, 14):
            ex = Exec(prog, policy=pol)

            def setup(st, _nr=nr, _ex=ex, _keyattr=keyattr):
                selfo = _ex.new_obj(st, "obj", cls=cls, label="aes")
                ke, syms = _mk_words(_ex, st, _nr + 1, "k")
                _ex.obj(st, selfo).attrs[_keyattr] = ke
                return {fi.params[0]: selfo, fi.params[1]: _ex.new_list(st, [sym("p%d_" % i) for i in range(16)])}

            try:
                res = ex.run(fi, setup=setup)
            except Unsupported:
                return False, lookups
            for e in res.events:
                if e.kind == "subscript":
                    lookups += 1
                    b = unsnap(e.d["base"])
                    # table lookups with a symbolic byte index into a 256-entry table are in range by construction (& 0xFF)
                    if b.op == "static" and len(ex.statics.get(b.args[0], [])) == 256 and _masked_byte(unsnap(e.d["index"])):
                        continue
                    safe = False
    fi = prog.method(AESQ + ".AES", "__init__")
    for klen in (16, 24, 32):
        ex = Exec(prog, policy=pol)

        def setup2(st, _klen=klen, _ex=ex):
            selfo = _ex.new_obj(st, "obj", cls=cls, label="aes")
            return {fi.params[0]: selfo, fi.params[1]: _ex.new_list(st, [sym("key%d_" % i) for i in range(_klen)])}

        try:
            res = ex.run(fi, setup=setup2)
        except Unsupported:
            return False, lookups
        for e in res.events:
            if e.kind == "subscript":
                lookups += 1
                b = unsnap(e.d["base"])
                if b.op == "static" and len(ex.statics.get(b.args[0], [])) == 256 and _masked_byte(unsnap(e.d["index"])):
                    continue
                safe = False
    return safe, lookups


def _masked_byte(t: Term) -> bool:
    return t.op == "bin" and t.args[0] == "BitAnd" and any(is_const(x) and cval(x) == 0xFF for x in (t.args[1], t.args[2]))


def run(prog, chk, tier):
    from rules import state as _state

    _state.shared_state_rules(prog, chk, "C16", _state.PYAES_MODULES)
    chk.explanation = ("All 14 lookup tables and rcon are re-generated from the GF(2^8) definitions and compared entry by entry (3614 entries). AES.encrypt, AES.decrypt "
                       "and the key schedule are interpreted by the structural abstract interpreter with concrete control and symbolic bytes; the resulting terms are evaluated "
                       "in a byte-lane XOR-normal-form domain and must equal, byte for byte, FIPS-197 (cipher, equivalent inverse cipher, key expansion for 128/192/256-bit "
                       "keys) written in the same domain. CBC/ECB equations, feeder finalisation with padding disabled and the registered adapter (fresh mode object per call, "
                       "zero padding, MAC = last block, length-preserving decrypt, no state kept) are checked by data provenance. The five modes of operation and the padded "
                       "stream feeders are interpreted call by call on one abstract heap for enumerated lengths / splits with symbolic contents, the block function abstracted to "
                       "E_k / D_k; each output byte must be the SP 800-38A term for the concatenated input. Default arguments, class-level containers and global statements of the "
                       "plug-in are scanned for state shared between cipher objects.")
    table_rules(prog, chk, "C16")
    block_rules(prog, chk, "C16", tier)
    key_schedule_rules(prog, chk, "C16")
    mode_rules(prog, chk, "C16")
    adapter.adapter_rules(prog, chk, "C16")
    adapter.pad_rule(prog, chk, "C16")
    adapter.mac_definition_rules(prog, chk, "C16")
    stackrt.guarded(chk, "C16.modes-and-feeders", c16stream.run_all, prog, chk, "C16", tier)
    # the structural CBC rules recognise one spelling of the initialisation; the mode scenarios run CBC with an explicit IV and with iv=None against SP 800-38A
    chk.shape_fallback("cbc-init", ["mode-cbc-encrypt", "mode-cbc-decrypt"])
    chk.assume("table expansion in the lane domain is licensed by the table audit of the same run (single TABLE_SPEC)")
    chk.assume("mode / feeder scenarios treat the block function as an uninterpreted E_k / D_k; this is licensed by the block and key-schedule rules of the same run")
    chk.assume("input lengths and splits of the mode / feeder scenarios are enumerated (listed in the evidence); contents, keys and IVs are universally quantified")
