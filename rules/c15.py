"""C15 -- the authentication-block checksum is CRC-16/MCRF4XX for all inputs (full property, proof level).

Technique: abstract interpretation of crc8404B in the GF(2)-affine bit-vector domain.  The loop's
transfer function (cur_crc, byte) -> cur_crc' is extracted from the syntax tree as a 16x24 matrix and
compared with the matrix of the 8-fold bit-serial step (reflected polynomial 0x8408) that this module
builds from the definition.  Induction over the loop gives all strings x all 16-bit start values.
"""
from __future__ import annotations

import ast

from bfsa.domains.gf2 import GF2, WIDTH
from bfsa.heap import Unsupported
from bfsa.load import AnalysisError, NotConst
from bfsa.symexec import Exec
from bfsa.guard import unsnap
from bfsa.terms import C, Term, cval, is_const, mk, show

LEVEL = "proof"
FN = "bec2format.bec2file.crc8404B"
POLY = 0x8408


def reference_step(g: GF2):
    """bit-serial CRC step for one input byte, in the same domain: crc ^= c; 8x: crc = (crc>>1) ^ (lsb ? POLY : 0)"""
    crc = g.xor(g.var(0, 16), g.var(16, 8))
    for _ in range(8):
        lsb = crc[0]
        sh = g.shr(crc, 1)
        crc = [x ^ (lsb if (POLY >> i) & 1 else 0) for i, x in enumerate(sh)]
    return crc


def _is_data(it: Term, pname: str) -> bool:
    """the data parameter, or an order-preserving copy / view of it: bytes(p), bytearray(p), list(p), tuple(p), memoryview(p), iter(p)"""
    from bfsa.layout import builtin_call

    it = unsnap(it)
    if it.op == "param" and it.args[0] == pname:
        return True
    bc = builtin_call(it)
    if bc and bc[0] in ("bytes", "bytearray", "list", "tuple", "memoryview", "iter") and len(bc[1]) == 1 and not bc[2]:
        return _is_data(bc[1][0], pname)
    return False


def _split_register(prog, chk, fi, ex, ret: Term, exits, where):
    """The running value is carried through the loop in several variables s_1..s_k (its low byte and the rest, say) and put together by the returned
    expression R(s_1..s_k).  With A = R as a GF(2) map of the pieces:  (1) A(initial pieces) is the start value, (2) every piece keeps the width it has
    initially (for a 16-bit start value), (3) A(updated pieces) = bit-serial step(A(pieces), byte) as maps of (pieces, byte).  By induction the returned
    value is the CRC register, as in the one-variable case."""
    from bfsa.terms import subterms

    lid = exits[0].args[0]
    lr = ex.loops[lid]
    regs = sorted({x.args[1] for x in exits})
    params = fi.params
    it = lr.iter
    chk.require(lr.kind == "for" and it is not None and _is_data(it, params[0]),
                "C15.R3.iterates-data-in-order", FN, "for <byte> in %s" % (show(it, 4) if it is not None else "?"), where,
                "one step per element of the data parameter, in order", "loop does not iterate directly over the data parameter")
    a = fi.node.args
    try:
        dflt = prog.fold(fi.module, a.defaults[-1]) if a.defaults else None
    except NotConst:
        dflt = None
    chk.require(dflt == 0xFFFF and len(a.defaults) == 1, "C15.R3.default-start-0xFFFF", FN, "start_value default = %r" % (dflt,), where, "default start value is 0xFFFF")
    # (1) initial pieces as maps of the 16-bit start value
    g0 = GF2(16)

    def leaf0(t: Term):
        if t.op == "param" and t.args[0] == params[1]:
            return g0.var(0, 16)
        if t.op == "call" and show(t.args[0]) == "int" and len(t.args[1]) == 1 and unsnap(t.args[1][0]).op == "param" and unsnap(t.args[1][0]).args[0] == params[1]:
            return g0.var(0, 16)
        if t.op in ("loopvar", "elem", "param", "sym", "attr", "sub", "loopexit"):
            raise Unsupported("initial value %s is not a function of the start value" % show(t, 4))
        return None

    try:
        inits = {r: g0.eval(unsnap(lr.init[r]), leaf0) for r in regs}
        widths = {r: g0.width(inits[r]) for r in regs}
        start = g0.eval(ret, lambda t: inits[t.args[1]] if t.op == "loopexit" and t.args[0] == lid else leaf0(t))
    except (Unsupported, KeyError) as e:
        chk.fail("C15.R3.init-from-start-value", FN, "initial values of %s" % ", ".join(regs), where, "the pieces of the register are not initialised by GF(2)-affine functions of the start value: %s" % e)
        return
    chk.require(start == g0.var(0, 16), "C15.R3.init-from-start-value", FN, "%s = pieces of start_value" % ", ".join(regs), where,
                "put together as the return statement does, the initial pieces are the start-value parameter", "the initial pieces do not put together to the start value")
    # (2), (3) over the pieces and the byte
    offs, o = {}, 0
    for r in regs:
        offs[r] = o
        o += widths[r]
    g = GF2(o + 8)
    elem = lr.target

    def leaf(t: Term):
        if t.op == "loopvar" and t.args[0] == lid and t.args[1] in offs:
            return g.var(offs[t.args[1]], widths[t.args[1]])
        if elem is not None and t is elem:
            return g.var(o, 8)
        if t.op in ("loopvar", "elem", "param", "sym", "attr", "sub"):
            raise Unsupported("value %s is not a function of (register pieces, byte)" % show(t, 4))
        return None

    try:
        nxt = {r: g.eval(unsnap(lr.next[r]), leaf) for r in regs}
        alpha = g.eval(ret, lambda t: g.var(offs[t.args[1]], widths[t.args[1]]) if t.op == "loopexit" and t.args[0] == lid else leaf(t))
        alpha_next = g.eval(ret, lambda t: nxt[t.args[1]] if t.op == "loopexit" and t.args[0] == lid else leaf(t))
    except (Unsupported, KeyError) as e:
        raise AnalysisError("crc8404B: register carried in %d variables, update not interpretable in the GF(2) domain: %s" % (len(regs), e))
    chk.ok("C15.R3.return-is-final-register", FN, "return " + show(ret, 5), where, "returned term puts together the loop-carried pieces %s at loop exit" % ", ".join(regs))
    grow = [r for r in regs if g.width(nxt[r]) > widths[r]]
    crc = g.xor(alpha, g.var(o, 8))
    for _ in range(8):
        lsb = crc[0]
        sh = g.shr(crc, 1)
        crc = [x ^ (lsb if (POLY >> i) & 1 else 0) for i, x in enumerate(sh)]
    diff = [i for i in range(16) if alpha_next[i] != crc[i]]
    chk.require(not diff, "C15.R1.transfer-matrix", FN, "cur_crc' = f(cur_crc, byte)", where,
                "with the register R(%s) as the return statement builds it: R(updated pieces) equals the 8-fold bit-serial step of R(pieces) for polynomial 0x8408 (all 16 rows)" % ", ".join(regs),
                "rows %s of the put-together register differ from the bit-serial CRC-16/MCRF4XX step" % diff)
    high = [i for i in range(16, WIDTH) if alpha_next[i]]
    chk.require(not high and not grow and g.width(alpha) <= 16, "C15.R2.closure-16-bit", FN, "bits >= 16 of cur_crc'", where,
                "every piece keeps its initial width (%s) and the register they form has no bit >= 16 (inductive 16-bit bound)" % ", ".join("%s: %d" % (r, widths[r]) for r in regs),
                "a piece of the register can outgrow its width (%s) or the register does not fit in 16 bits" % (grow or high[:6]))
    chk.info["loop_body"] = "; ".join("%s' = %s" % (r, show(lr.next[r], 10)) for r in regs)
    chk.assume("data yields integers 0..255 (bytes / bytearray / iterable of byte values); start_value is a 16-bit integer")


def run(prog, chk, tier):
    fi = prog.func(FN)
    chk.checker_cmd = "./check C15"
    chk.trusted_base = ["bfsa.symexec (syntax-tree abstract interpreter)", "bfsa.domains.gf2 (affine forms over GF(2))", "reference_step in rules/c15.py (bit-serial definition, polynomial 0x8408)", "python ast"]
    chk.explanation = ("crc8404B's loop body is interpreted once over symbolic (cur_crc, byte) in the GF(2)-affine domain; "
                       "its 16x24 transfer matrix must equal the bit-serial CRC-16 step with reflected polynomial 0x8408; closure to 16 bits, "
                       "initialisation from start_value (default 0xFFFF), iteration over the data in order and absence of a final XOR are "
                       "checked on the loop record. By induction this is the whole property for every byte string and every 16-bit start value.")
    from rules import iteronce as _iteronce

    _iteronce.iterable_rules(prog, chk, "C15", ["bec2format.bec2file"], only=lambda mod, fn: "." not in fn)
    # module-level helpers the function calls (an extracted per-byte step, say) are interpreted as part of it
    ex = Exec(prog, policy=lambda e, f, d: f.module is fi.module and f.cls is None and f is not fi and d < 3)
    res = ex.run(fi)
    where = "%s:%d" % (fi.file, fi.lineno)
    rets = [e for e in res.events if e.kind == "return" and e.stack == (fi.qualname,)]
    if res.dead or not rets:
        raise AnalysisError("crc8404B: no return")
    # the result may depend on (data, start_value) only: no module-level state is read or written
    import ast as _ast

    helpers = {id(e.d["callee"]): e.d["callee"] for e in res.events if e.kind == "call" and e.d.get("callee") is not None and getattr(e.d["callee"], "module", None) is fi.module}
    # (`nonlocal x` in a function nested in crc8404B names a variable of the running call -- a fresh cell per invocation --, not state that outlives it;
    # `global`, and `nonlocal` anywhere else, is state)
    own_nested = {id(n) for d_ in _ast.walk(fi.node) if isinstance(d_, (_ast.FunctionDef, _ast.Lambda)) and d_ is not fi.node for n in _ast.walk(d_) if isinstance(n, _ast.Nonlocal)}
    escapes = any(isinstance(r_, _ast.Return) and r_.value is not None and any(isinstance(x_, (_ast.Lambda,)) or (isinstance(x_, _ast.Name) and x_.id in {d_.name for d_ in _ast.walk(fi.node) if isinstance(d_, _ast.FunctionDef) and d_ is not fi.node}) for x_ in _ast.walk(r_.value)) for r_ in _ast.walk(fi.node))
    globs = [n for f_ in [fi] + list(helpers.values()) for n in _ast.walk(f_.node) if isinstance(n, (_ast.Global, _ast.Nonlocal)) and not (isinstance(n, _ast.Nonlocal) and id(n) in own_nested and not escapes)]
    chk.require(not globs, "C15.R3.no-state-between-calls", FN, "no global / nonlocal statement", where, "the checksum is a function of its arguments only; nothing is remembered between calls",
                "the function keeps state between calls (%s): the result can depend on earlier calls" % ", ".join(_ast.unparse(g) for g in globs))
    if len(rets) != 1:
        # every return must be the loop register at loop exit; an early return of anything else is a different function
        extra = [r for r in rets if unsnap(r.d["value"]).op != "loopexit"]
        for r in extra[:3]:
            chk.fail("C15.R3.return-is-final-register", FN, "return " + show(r.d["value"], 5), r.where, "a return path does not return the CRC register computed from (start value, data): %s" % show(r.d["value"], 5)[:80])
        main = [r for r in rets if unsnap(r.d["value"]).op == "loopexit"]
        if len(main) != 1:
            return
        rets = main
    ret: Term = rets[0].d["value"]
    # R3a: returned value is the loop-carried register at loop exit, nothing applied afterwards
    post_identity = True
    if ret.op != "loopexit":
        # post-processing after the loop: admissible only if it is the identity on a 16-bit register (e.g. `& 0xFFFF`)
        from bfsa.terms import subterms

        exits = [x for x in subterms(ret) if x.op == "loopexit"]
        if len(exits) > 1 and len({x.args[0] for x in exits}) == 1:
            _split_register(prog, chk, fi, ex, ret, exits, where)
            return
        if len(exits) != 1:
            chk.fail("C15.R3.return-is-final-register", FN, show(ret, 6), where, "return value is not a function of the loop register alone")
            return
        g0 = GF2(16)
        try:
            m0 = g0.eval(ret, lambda t: g0.var(0, 16) if t is exits[0] else None)
        except Unsupported as e:
            chk.fail("C15.R3.return-is-final-register", FN, show(ret, 6), where, "post-processing of the register is not interpretable: %s" % e)
            return
        if m0 != g0.var(0, 16):
            chk.fail("C15.R3.return-is-final-register", FN, show(ret, 6), where, "return value is not the loop register (final XOR / post-processing changes the value)")
            return
        ret = exits[0]
    lid, reg = ret.args
    lr = ex.loops[lid]
    chk.ok("C15.R3.return-is-final-register", FN, "return " + reg, where, "returned term is the loop-carried register at exit, no operator applied after the loop")
    # R3b: iteration over the data parameter, in order
    params = fi.params
    it = lr.iter
    chk.require(lr.kind == "for" and it is not None and _is_data(it, params[0]),
                "C15.R3.iterates-data-in-order", FN, "for <byte> in %s" % (show(it, 4) if it is not None else "?"), where,
                "one step per element of the data parameter, in order", "loop does not iterate directly over the data parameter")
    # R3c: init = int(start_value) / start_value, default literal 0xFFFF
    init = lr.init.get(reg)
    ok_init = init is not None and ((init.op == "param" and init.args[0] == params[1]) or (init.op == "call" and show(init.args[0]) == "int" and init.args[1][0].op == "param" and init.args[1][0].args[0] == params[1]))
    chk.require(ok_init, "C15.R3.init-from-start-value", FN, "%s = %s" % (reg, show(init, 4) if init is not None else "?"), where, "register initialised from the start-value parameter")
    a = fi.node.args
    try:
        dflt = prog.fold(fi.module, a.defaults[-1]) if a.defaults else None
    except NotConst:
        dflt = None
    chk.require(dflt == 0xFFFF and len(a.defaults) == 1, "C15.R3.default-start-0xFFFF", FN, "start_value default = %r" % (dflt,), where, "default start value is 0xFFFF")
    # R1/R2: transfer function
    g = GF2(24)
    elem = lr.target
    regvar = None

    tables = {}

    def table_of(base: Term):
        """a module-level lookup table indexed by a byte: its 256 entries, obtained by interpreting the defining expression
        (a literal, or a call of a builder function) with the abstract interpreter on constants -- nothing is executed"""
        if base.uid in tables:
            return tables[base.uid]
        vals = None
        name = None
        if base.op == "static":
            v = ex.statics.get(base.args[0])
            if isinstance(v, (list, tuple)) and all(isinstance(x, int) for x in v):
                vals, name = list(v), str(base.args[0])
        elif base.op == "global":
            mod, name = base.args[0], base.args[1]
            from bfsa.heap import Unsupported as _U

            ex2 = Exec(prog, policy=lambda e, f, d: f.module.name == mod and d < 6)
            ex2.sym_bytes = True
            try:
                r2 = ex2.run_driver(prog.module(mod), "def drv():\n    return %s\n" % name)
                items = ex2.iter_items(r2.ret, r2.state) if (not r2.dead and r2.ret is not None) else None
                if items is None:
                    # the global is bound by an assignment the loader did not fold: interpret its right-hand side
                    import ast as _ast

                    for st_ in prog.module(mod).tree.body:
                        if isinstance(st_, (_ast.Assign, _ast.AnnAssign)) and any(isinstance(tg, _ast.Name) and tg.id == name for tg in (st_.targets if isinstance(st_, _ast.Assign) else [st_.target])):
                            r2 = ex2.run_driver(prog.module(mod), "def drv():\n    return %s\n" % _ast.unparse(st_.value))
                            items = ex2.iter_items(r2.ret, r2.state) if (not r2.dead and r2.ret is not None) else None
                if items is not None and all(is_const(x) and isinstance(cval(x), int) for x in items):
                    vals = [cval(x) for x in items]
            except _U:
                vals = None
        tables[base.uid] = (vals, name)
        return tables[base.uid]

    def leaf(t: Term):
        if t.op == "loopvar" and t.args[0] == lid and t.args[1] == reg:
            return g.var(0, 16)
        if elem is not None and t is elem:
            return g.var(16, 8)
        if t.op == "sub" and is_const(t.args[1]) and cval(t.args[1]) in (0, 1):
            # divmod(x, 2**k)[0] = x >> k, divmod(x, 2**k)[1] = x & (2**k - 1)   (floor semantics: true for every Python int)
            from bfsa.layout import builtin_call as _bc

            bc = _bc(unsnap(t.args[0]))
            if bc and bc[0] == "divmod" and len(bc[1]) == 2 and is_const(bc[1][1]) and isinstance(cval(bc[1][1]), int) and cval(bc[1][1]) > 0 and cval(bc[1][1]) & (cval(bc[1][1]) - 1) == 0:
                k = cval(bc[1][1]).bit_length() - 1
                eq = mk("bin", "RShift", bc[1][0], C(k)) if cval(t.args[1]) == 0 else mk("bin", "BitAnd", bc[1][0], C((1 << k) - 1))
                return g.eval(eq, leaf)
        if t.op == "sub" and unsnap(t.args[0]).op in ("static", "global"):
            vals, name = table_of(unsnap(t.args[0]))
            if vals is None:
                raise Unsupported("lookup table %s cannot be evaluated to constants" % show(t.args[0], 3))
            idx = g.eval(unsnap(t.args[1]), leaf)
            w = g.width(idx)
            if w > 8 or len(vals) != 256:
                raise Unsupported("table %s has %d entries, index is %d bits wide" % (name, len(vals), w))
            # a table T is usable in the affine domain iff T[x] = T[0] ^ XOR_i x_i * (T[1<<i] ^ T[0]); every entry is checked
            t0 = vals[0]
            basis = [vals[1 << i] ^ t0 for i in range(8)]
            badx = None
            for x in range(256):
                lin_ = t0
                for i in range(8):
                    if (x >> i) & 1:
                        lin_ ^= basis[i]
                if vals[x] != lin_:
                    badx = (x, vals[x], lin_)
                    break
            chk.require(badx is None, "C15.R1.step-table-affine", FN, "%s[0..255]" % name, where,
                        "all 256 entries of the lookup table are the GF(2)-affine extension of its entries 0, 1, 2, 4, ..., 128 (so the lookup is an affine map of the index bits, as every CRC step table is)",
                        "entry 0x%02X of the table is 0x%04X, the affine extension of the basis entries gives 0x%04X: the table is not a CRC step table" % (badx if badx else (0, 0, 0)))
            if badx is not None:
                raise Unsupported("lookup table %s is not affine over GF(2)" % name)
            out = g.const(t0)
            for i in range(8):
                if idx[i]:
                    col = [idx[i] if (basis[i] >> j) & 1 else 0 for j in range(len(out))]
                    out = g.xor(out, col)
            return out
        if t.op == "phi":
            # a value chosen by a range test on bit vectors of known width (`if 0 <= b <= 0xFF: fast path else: general path`):
            # the arm the test always selects for (16-bit register, 8-bit byte); when the test is not decided, both arms must be the same map
            verdict = range_test(t.args[0])
            if verdict is True:
                return g.eval(t.args[1], leaf)
            if verdict is False:
                return g.eval(t.args[2], leaf)
            a_, b_ = g.eval(t.args[1], leaf), g.eval(t.args[2], leaf)
            if a_ == b_:
                return a_
            raise Unsupported("the update is chosen by a test that (register, byte) widths do not decide: %s" % show(t.args[0], 4))
        if t.op in ("loopvar", "elem", "param", "sym", "attr", "sub"):
            raise Unsupported("value %s is not a function of (register, byte)" % show(t, 4))
        return None

    def range_test(c: Term):
        """True / False when the comparison(s) in c are decided by the bit widths of their operands (a vector of width w lies in 0 .. 2**w - 1), else None"""
        from bfsa.guard import rel as _rel

        def one(r):
            if r[0] == "and":
                vs = [one(x) for x in r[1]]
                return False if any(v is False for v in vs) else True if all(v is True for v in vs) else None
            if r[0] == "or":
                vs = [one(x) for x in r[1]]
                return True if any(v is True for v in vs) else False if all(v is False for v in vs) else None
            if r[0] != "rel" or r[3] is None or r[1] not in ("Lt", "LtE", "Gt", "GtE"):
                return None
            try:
                a_, b_ = g.eval(unsnap(r[2]), leaf), g.eval(unsnap(r[3]), leaf)
            except Unsupported:
                return None
            lo_a, hi_a = (g.as_const(a_),) * 2 if g.as_const(a_) is not None else (0, (1 << g.width(a_)) - 1)
            lo_b, hi_b = (g.as_const(b_),) * 2 if g.as_const(b_) is not None else (0, (1 << g.width(b_)) - 1)
            op = r[1]
            if op in ("Gt", "GtE"):
                lo_a, hi_a, lo_b, hi_b = lo_b, hi_b, lo_a, hi_a
                op = "Lt" if op == "Gt" else "LtE"
            if op == "Lt":
                return True if hi_a < lo_b else False if lo_a >= hi_b else None
            return True if hi_a <= lo_b else False if lo_a > hi_b else None

        return one(_rel(c, True))

    nxt = lr.next.get(reg)
    if nxt is None:
        chk.fail("C15.R1.transfer-matrix", FN, "no update of " + reg, where, "loop body does not update the register")
        return
    try:
        m = g.eval(nxt, leaf)
    except Unsupported as u_:
        if any(o.status == "violation" and o.rule == "C15.R1.step-table-affine" for o in chk.obls):
            return  # the table itself is wrong: reported above
        # the update uses an operation the affine domain cannot follow (`|` of overlapping fields, `+`, ...).  It may still be the right function; it may not.
        # The extracted term is evaluated with the checker's own arithmetic on a grid of (register, byte) values: one disagreement with the bit-serial
        # definition is a definite counterexample (reported), agreement on the grid decides nothing (the check stays undecided, exit 2).
        from bfsa.evalterm import NoEval, eval_term

        def ref_step(crc, c):
            crc ^= c
            for _ in range(8):
                crc = (crc >> 1) ^ (POLY if crc & 1 else 0)
            return crc

        regt = mk("loopvar", lid, reg)
        cex = None
        try:
            grid_regs = [0, 0xFFFF, 0x00FF, 0xFF00, 0x1234, 0x8408, 0x6F91, 0xA5A5] + [(r_ * 0x0101) & 0xFFFF for r_ in range(0, 256, 5)]
            # ... plus, for every byte, the registers whose correct successor is one of the values at which a non-affine operation (a modulus, a
            # comparison, a clamp) can change its behaviour: 0, 1, 0xFFFF, 0x8000 and the integer constants of the update (with their neighbours).  The step is
            # T(reg ^ byte) with T a bijection of the 16-bit registers, so the register with a given successor is T^-1(successor) ^ byte
            from bfsa.terms import subterms as _subterms

            t_of = [ref_step(r_, 0) for r_ in range(1 << 16)]
            t_inv = {v_: k_ for k_, v_ in enumerate(t_of)}
            targets = {0, 1, 0xFFFF, 0xFFFE, 0x8000, 0x7FFF}
            for x_ in _subterms(unsnap(nxt)):
                if is_const(x_) and isinstance(cval(x_), int) and not isinstance(cval(x_), bool) and 0 < cval(x_) <= (1 << 16) + 1:
                    targets |= {(cval(x_) + d_) & 0xFFFF for d_ in (-1, 0, 1)}
            special = [(t_inv[t_] ^ c_, c_) for t_ in sorted(targets) for c_ in range(256)]
            for r_, c_ in special:
                env = {regt.uid: r_}
                if elem is not None:
                    env[unsnap(elem).uid] = c_
                got = eval_term(nxt, env)
                if got != ref_step(r_, c_):
                    cex = (r_, c_, got, ref_step(r_, c_))
                    break
            for r_ in ([] if cex else grid_regs):
                for c_ in range(256):
                    env = {regt.uid: r_}
                    if elem is not None:
                        env[unsnap(elem).uid] = c_
                    got = eval_term(nxt, env)
                    if got != ref_step(r_, c_):
                        cex = (r_, c_, got, ref_step(r_, c_))
                        break
                if cex:
                    break
        except (NoEval, TypeError, ValueError, ZeroDivisionError):
            raise u_
        if cex is None:
            raise u_
        chk.fail("C15.R1.transfer-matrix", FN, "cur_crc' = f(cur_crc, byte)", where,
                 "for register 0x%04X and byte 0x%02X the loop body gives 0x%04X, the bit-serial CRC-16/MCRF4XX step gives 0x%04X (the update is not GF(2)-affine: %s)" % (cex + (u_,)))
        return
    ref = reference_step(g)
    diff = [i for i in range(16) if m[i] != ref[i]]
    chk.info["matrix_rows"] = ["%06x" % m[i] for i in range(16)]
    chk.info["reference_rows"] = ["%06x" % ref[i] for i in range(16)]
    chk.require(not diff, "C15.R1.transfer-matrix", FN, "cur_crc' = f(cur_crc, byte)", where,
                "16x24 GF(2) matrix of the loop body equals the 8-fold bit-serial step for polynomial 0x8408 (all 16 rows, affine part zero)",
                "rows %s differ from the bit-serial CRC-16/MCRF4XX step (got %s, want %s)" % (diff, ["%06x" % m[i] for i in diff][:4], ["%06x" % ref[i] for i in diff][:4]))
    high = [i for i in range(16, WIDTH) if m[i]]
    chk.require(not high, "C15.R2.closure-16-bit", FN, "bits >= 16 of cur_crc'", where,
                "for 16-bit cur_crc and 8-bit byte every bit >= 16 of the new register is identically 0 (inductive 16-bit bound)",
                "bits %s of the updated register can be set: result does not always fit in 16 bits" % high[:6])
    chk.info["loop_body"] = show(nxt, 12)
    chk.assume("data yields integers 0..255 (bytes / bytearray / iterable of byte values); start_value is a 16-bit integer")
