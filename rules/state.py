"""State that outlives a call.  The readers, writers and converters of bec2format are specified as functions of their arguments (and, for methods, of the object
they are called on): a second call in the same process must behave like the first.  Two structural necessary conditions, decided on the syntax tree of every
function of the library modules:

  no-state-between-calls   no function assigns a module global or mutates a module-level container (the plug-in registration functions register_* of
                           bec2format.crypto are the one documented exception: they exist to set the registered implementation), and no function mutates,
                           returns or stores a parameter whose default value is a mutable object created once at definition time (`def f(x, acc={})`)
"""
from __future__ import annotations

import ast

from bfsa.load import AnalysisError
from rules.c20 import MUTATING_CALLS, _STATE_SAMPLE, _module_state_writes

LIB_MODULES = ("bec2format.bf3file", "bec2format.bec2file", "bec2format.configid", "bec2format.bytes_reader", "bec2format.crypto", "bec2format.hwcids", "bec2format.error",
               "register_crypto_plugin")

_DEFAULT_SAMPLE = '''
def f(line, acc={}, seen=[], *, opts=dict()):
    acc[line] = 1
    seen.append(line)
    return opts
def g(a, b=(), c=None, d=[]):
    for x in d:
        pass
    return len(b)
'''


def _mutable_default_uses(tree: ast.Module):
    """(function, line, description) for every parameter with a mutable default value that the function mutates, returns, yields or stores"""
    out = []

    def funcs(node, prefix=""):
        for ch in ast.iter_child_nodes(node):
            if isinstance(ch, (ast.FunctionDef, ast.AsyncFunctionDef)):
                yield prefix + ch.name, ch
                yield from funcs(ch, prefix + ch.name + ".")
            elif isinstance(ch, ast.ClassDef):
                yield from funcs(ch, prefix + ch.name + ".")
            elif not isinstance(ch, ast.Lambda):
                yield from funcs(ch, prefix)

    def mutable(e):
        if isinstance(e, (ast.List, ast.Dict, ast.Set, ast.ListComp, ast.DictComp, ast.SetComp)):
            return True
        return isinstance(e, ast.Call) and isinstance(e.func, ast.Name) and e.func.id in ("list", "dict", "set", "bytearray", "defaultdict", "OrderedDict", "deque")

    for qn, fn in funcs(tree):
        a = fn.args
        pos = a.posonlyargs + a.args
        pairs = list(zip(pos[len(pos) - len(a.defaults):], a.defaults)) + [(k, d) for k, d in zip(a.kwonlyargs, a.kw_defaults) if d is not None]
        for p, d in pairs:
            if not mutable(d):
                continue
            nm = p.arg
            rebound = any(isinstance(n, ast.Name) and n.id == nm and isinstance(n.ctx, ast.Store) for n in ast.walk(fn))
            for n in ast.walk(fn):
                what = None
                if isinstance(n, ast.Call) and isinstance(n.func, ast.Attribute) and n.func.attr in MUTATING_CALLS and isinstance(n.func.value, ast.Name) and n.func.value.id == nm:
                    what = "%s.%s(...)" % (nm, n.func.attr)
                elif isinstance(n, (ast.Subscript, ast.Attribute)) and isinstance(n.ctx, (ast.Store, ast.Del)) and isinstance(n.value, ast.Name) and n.value.id == nm:
                    what = "store into %s" % nm
                elif isinstance(n, ast.AugAssign) and isinstance(n.target, ast.Name) and n.target.id == nm:
                    what = "%s updated in place" % nm
                elif isinstance(n, (ast.Return, ast.Yield)) and isinstance(n.value, ast.Name) and n.value.id == nm:
                    what = "%s handed out to the caller" % nm
                elif isinstance(n, ast.Assign) and isinstance(n.value, ast.Name) and n.value.id == nm and any(isinstance(t, (ast.Attribute, ast.Subscript)) for t in n.targets):
                    what = "%s stored in an object" % nm
                if what and not (rebound and what.endswith("caller")):
                    out.append((qn, n.lineno, "parameter %s has a mutable default (%s) and is used as state: %s" % (nm, ast.unparse(d), what)))
                    break
    return out


_ALIAS_SAMPLE = '''
TABLE = {1: {}, 2: {}}
def fill(d, k):
    d[k] = 1
def f(k):
    entry = TABLE[k]
    fill(entry, k)
    return dict(entry)
def g(k):
    e = TABLE.get(k)
    e.update(a=1)
def h(k):
    e = dict(TABLE[k])
    e[k] = 1
    return e
'''


def _aliased_table_mutations(tree: ast.Module):
    """(function, line, description): a local name bound to an ENTRY of a module-level container (x = TABLE[k] / TABLE.get(k)) is mutated, directly or by a function
    of the module that mutates the parameter it is passed as -- the entry is shared by every later call"""
    top = set()
    for st in tree.body:
        if isinstance(st, (ast.Assign, ast.AnnAssign)) and isinstance(getattr(st, "value", None), (ast.Dict, ast.List, ast.DictComp, ast.ListComp, ast.Call)):
            for t in (st.targets if isinstance(st, ast.Assign) else [st.target]):
                if isinstance(t, ast.Name):
                    top.add(t.id)
    fdefs = {}

    def funcs(node, prefix=""):
        for ch in ast.iter_child_nodes(node):
            if isinstance(ch, (ast.FunctionDef, ast.AsyncFunctionDef)):
                yield prefix + ch.name, ch
                yield from funcs(ch, prefix + ch.name + ".")
            elif isinstance(ch, ast.ClassDef):
                yield from funcs(ch, prefix + ch.name + ".")
            elif not isinstance(ch, ast.Lambda):
                yield from funcs(ch, prefix)

    allf = list(funcs(tree))
    for qn, fn in allf:
        fdefs.setdefault(fn.name, []).append(fn)

    def mutates_param(fn, idx_or_name):
        ps = [a.arg for a in fn.args.posonlyargs + fn.args.args]
        if ps and ps[0] in ("self", "cls") and not any(isinstance(d, ast.Name) and d.id == "staticmethod" for d in fn.decorator_list):
            ps = ps[1:]
        nm = idx_or_name if isinstance(idx_or_name, str) else (ps[idx_or_name] if idx_or_name < len(ps) else None)
        if nm is None or nm not in ps + [a.arg for a in fn.args.kwonlyargs]:
            return False
        for n in ast.walk(fn):
            if isinstance(n, ast.Call) and isinstance(n.func, ast.Attribute) and n.func.attr in MUTATING_CALLS and isinstance(n.func.value, ast.Name) and n.func.value.id == nm:
                return True
            if isinstance(n, (ast.Subscript,)) and isinstance(n.ctx, (ast.Store, ast.Del)) and isinstance(n.value, ast.Name) and n.value.id == nm:
                return True
        return False

    out = []
    for qn, fn in allf:
        aliases = {}
        for n in ast.walk(fn):
            if isinstance(n, ast.Assign) and len(n.targets) == 1 and isinstance(n.targets[0], ast.Name):
                v = n.value
                src = None
                if isinstance(v, ast.Subscript) and isinstance(v.value, ast.Name) and v.value.id in top and not isinstance(v.slice, ast.Slice):
                    src = v.value.id
                elif isinstance(v, ast.Call) and isinstance(v.func, ast.Attribute) and v.func.attr in ("get", "setdefault") and isinstance(v.func.value, ast.Name) and v.func.value.id in top:
                    src = v.func.value.id
                if src is not None:
                    aliases[n.targets[0].id] = src
        if not aliases:
            continue
        # a name that is also bound to something else in the function is not tracked
        for nm in list(aliases):
            stores = [x for x in ast.walk(fn) if isinstance(x, ast.Name) and x.id == nm and isinstance(x.ctx, ast.Store)]
            if len(stores) != 1:
                del aliases[nm]
        nested = [x for x in ast.walk(fn) if isinstance(x, (ast.FunctionDef, ast.AsyncFunctionDef)) and x is not fn]
        for n in ast.walk(fn):
            hit = None
            if isinstance(n, ast.Call) and isinstance(n.func, ast.Attribute) and n.func.attr in MUTATING_CALLS and isinstance(n.func.value, ast.Name) and n.func.value.id in aliases:
                hit = (n.func.value.id, "%s.%s(...)" % (n.func.value.id, n.func.attr))
            elif isinstance(n, ast.Subscript) and isinstance(n.ctx, (ast.Store, ast.Del)) and isinstance(n.value, ast.Name) and n.value.id in aliases:
                hit = (n.value.id, "store into %s" % n.value.id)
            elif isinstance(n, ast.Call):
                cname = n.func.attr if isinstance(n.func, ast.Attribute) else getattr(n.func, "id", None)
                for i, a_ in enumerate(n.args):
                    if isinstance(a_, ast.Name) and a_.id in aliases and any(mutates_param(f_, i) for f_ in fdefs.get(cname, [])):
                        hit = (a_.id, "%s(...) mutates the argument %s" % (cname, a_.id))
                for k_ in n.keywords:
                    if k_.arg and isinstance(k_.value, ast.Name) and k_.value.id in aliases and any(mutates_param(f_, k_.arg) for f_ in fdefs.get(cname, [])):
                        hit = (k_.value.id, "%s(...) mutates the argument %s" % (cname, k_.value.id))
            if hit:
                out.append((qn, n.lineno, "%s is an entry of the module-level table %s and is changed in place: %s" % (hit[0], aliases[hit[0]], hit[1])))
    seen, uniq = set(), []
    for r in out:
        if (r[0], r[2]) not in seen:
            seen.add((r[0], r[2]))
            uniq.append(r)
    return uniq


_CLASS_SAMPLE = '''
class K:
    _memo = {}
    LIMIT = 3
    def __init__(self, a):
        self.a = a
        self._buf = bytearray(4)
    def get(self, k):
        if k in K._memo:
            return K._memo[k]
        v = K._memo[k] = k + self.a
        return v
    def hit(self, k):
        self._last = k
        self._buf[0] = k
        return self.a
    def cls_m(self, k):
        type(self)._memo.clear()
'''


def _self_state_writes(tree: ast.Module):
    """(class, method, attribute, line, kind) for every write a method other than the constructor makes to state of its object or of its class: an attribute
    assigned / deleted, a container held in an attribute stored into or changed by a mutating method, through self, cls, type(self) or the class name"""
    out = []
    for c in ast.walk(tree):
        if not isinstance(c, ast.ClassDef):
            continue
        class_level = {t.id for st in c.body if isinstance(st, (ast.Assign, ast.AnnAssign)) for t in (st.targets if isinstance(st, ast.Assign) else [st.target]) if isinstance(t, ast.Name)}

        def owner(x):
            """'self' / 'class' when x names the object or its class"""
            if isinstance(x, ast.Name) and x.id == "self":
                return "self"
            if isinstance(x, ast.Name) and x.id in ("cls", c.name):
                return "class"
            if isinstance(x, ast.Call) and isinstance(x.func, ast.Name) and x.func.id == "type" and len(x.args) == 1 and isinstance(x.args[0], ast.Name) and x.args[0].id == "self":
                return "class"
            if isinstance(x, ast.Attribute) and x.attr == "__class__" and isinstance(x.value, ast.Name) and x.value.id == "self":
                return "class"
            return None

        def rooted(x):
            """(owner, attribute) when x is <owner>.attr or something reached from it by further attributes / subscripts"""
            while isinstance(x, (ast.Attribute, ast.Subscript)):
                if isinstance(x, ast.Attribute) and owner(x.value):
                    return owner(x.value), x.attr
                x = x.value
            return None

        for m in c.body:
            if not isinstance(m, (ast.FunctionDef, ast.AsyncFunctionDef)):
                continue
            ctor = m.name in ("__init__", "__new__", "__setstate__", "__post_init__")  # constructors may write their object, not their class
            # local names that stand for (a view of) something held by the object: x = self.a / self.a[i] / memoryview(self.a)[:n]
            views = {}
            for n in ast.walk(m):
                if isinstance(n, ast.Assign) and len(n.targets) == 1 and isinstance(n.targets[0], ast.Name):
                    v = n.value
                    while True:
                        if isinstance(v, ast.Subscript):
                            v = v.value
                        elif isinstance(v, ast.Call) and isinstance(v.func, ast.Name) and v.func.id == "memoryview" and len(v.args) == 1:
                            v = v.args[0]
                        else:
                            break
                    if isinstance(v, ast.Attribute) and owner(v.value):
                        stores = [x for x in ast.walk(m) if isinstance(x, ast.Name) and x.id == n.targets[0].id and isinstance(x.ctx, ast.Store)]
                        if len(stores) == 1:
                            views[n.targets[0].id] = (owner(v.value), v.attr)
            for n in ast.walk(m):
                r, kind = None, None
                if isinstance(n, ast.Subscript) and isinstance(n.ctx, (ast.Store, ast.Del)) and isinstance(n.value, ast.Name) and n.value.id in views:
                    r, kind = views[n.value.id], "store through the local %s" % n.value.id
                elif isinstance(n, ast.Call) and isinstance(n.func, ast.Attribute) and n.func.attr in MUTATING_CALLS and isinstance(n.func.value, ast.Name) and n.func.value.id in views:
                    r, kind = views[n.func.value.id], "%s() through the local %s" % (n.func.attr, n.func.value.id)
                elif isinstance(n, (ast.Attribute, ast.Subscript)) and isinstance(n.ctx, (ast.Store, ast.Del)):
                    r, kind = rooted(n), "store"
                elif isinstance(n, ast.Call) and isinstance(n.func, ast.Attribute) and n.func.attr in MUTATING_CALLS:
                    r, kind = rooted(n.func.value), n.func.attr + "()"
                if r:
                    who, attr = r
                    direct = isinstance(n, ast.Attribute) and owner(n.value) is not None  # self.attr = value: binds an attribute of the object itself
                    if who == "self" and attr in class_level and not direct and not any(isinstance(x, ast.Attribute) and isinstance(x.ctx, ast.Store) and x.attr == attr and owner(x.value) == "self" for f_ in c.body if isinstance(f_, ast.FunctionDef) and f_.name == "__init__" for x in ast.walk(f_)):
                        who = "class"  # self.TABLE[k] = v / self.TABLE.append(...) with TABLE defined in the class body (and not rebound per object) changes the class's object
                    if ctor and who == "self":
                        continue
                    out.append((c.name, m.name, attr, n.lineno, kind, who))
    return out


# methods of the library that change their object, and what they change: the explicit mutators of the API, and the authentication-block framing
# that resets the IV of its own cipher before every operation.  Confirmed by reading; everything else is read-only on self.
INSTANCE_MUTATORS = {
    ("AesEncryptorMixin", "encrypt", "cipher"): "sets the cipher's IV to zero before wrapping (no value survives: the same assignment precedes every use)",
    ("AesEncryptorMixin", "decrypt", "cipher"): "sets the cipher's IV to zero before unwrapping",
    ("Bec2File", "add_auth_block", "auth_blocks"): "documented mutator: registers a block under its tag",
    ("Bf3File", "set_config", "components"): "documented mutator: replaces the configuration component",
    ("Bf3File", "derive_comments_from_config", "comments"): "documented mutator: derives the naming comments",
}


def _only_called_by_mutators(tree: ast.Module, cname: str, meth: str, attr: str, depth: int = 0) -> bool:
    """every call self.<meth>(...) / cls.<meth>(...) in the class sits in a documented mutator of the same attribute (or in a helper for which the same holds),
    and there is at least one such call"""
    if depth > 3:
        return False
    for c in ast.walk(tree):
        if isinstance(c, ast.ClassDef) and c.name == cname:
            callers = set()
            for m in c.body:
                if isinstance(m, (ast.FunctionDef, ast.AsyncFunctionDef)) and m.name != meth:
                    for n in ast.walk(m):
                        if isinstance(n, ast.Call) and isinstance(n.func, ast.Attribute) and n.func.attr == meth and isinstance(n.func.value, ast.Name) and n.func.value.id in ("self", "cls"):
                            callers.add(m.name)
            # used as a value (a callback handed elsewhere): not tracked
            for m in c.body:
                for n in ast.walk(m):
                    if isinstance(n, ast.Attribute) and n.attr == meth and isinstance(n.ctx, ast.Load) and isinstance(n.value, ast.Name) and n.value.id in ("self", "cls"):
                        parent_is_call = any(isinstance(k, ast.Call) and k.func is n for k in ast.walk(m))
                        if not parent_is_call:
                            return False
            if not callers:
                return False
            return all((cname, k, attr) in INSTANCE_MUTATORS or _only_called_by_mutators(tree, cname, k, attr, depth + 1) for k in callers)
    return False


def _pinned_class(prog, modq: str, cname: str) -> bool:
    """the class has at least one method that existed on the pinned tree"""
    from bfsa.symexec import _is_new_function

    ci = prog.classes.get("%s.%s" % (modq, cname))
    if ci is None:
        return False
    return any(hasattr(f, "qualname") and not _is_new_function(f) for f in ci.methods.values())


def library_state_rules(prog, chk, pid):
    P = lambda s: "%s.%s" % (pid, s)
    s1 = _module_state_writes(ast.parse(_STATE_SAMPLE))
    s2 = _mutable_default_uses(ast.parse(_DEFAULT_SAMPLE))
    s3 = _aliased_table_mutations(ast.parse(_ALIAS_SAMPLE))
    if len(s1) != 2 or len(s2) != 3 or len(s3) != 2:
        raise AnalysisError("the state detectors do not recognise their own positive examples (%s / %s / %s)" % (s1, s2, s3))
    n_mod = n_fn = 0
    for q in LIB_MODULES:
        if q not in prog.modules:
            continue
        m = prog.modules[q]
        n_mod += 1
        n_fn += sum(1 for n in ast.walk(m.tree) if isinstance(n, (ast.FunctionDef, ast.AsyncFunctionDef)))
        for fn, line, what in _module_state_writes(m.tree):
            if q == "bec2format.crypto" and fn.split(".")[-1].startswith("register_"):
                continue  # the registration API: setting the registered implementation is its purpose
            chk.fail(P("no-state-between-calls"), "%s.%s" % (q, fn), what, "%s:%d" % (m.relpath, line),
                     "%s %s: what one call leaves there is seen by the next call in the same process (another file, another object), so the result is no longer a function of the arguments" % (fn, what))
        for fn, line, what in _aliased_table_mutations(m.tree):
            chk.fail(P("no-state-between-calls"), "%s.%s" % (q, fn), what.split(":")[0], "%s:%d" % (m.relpath, line),
                     "%s: the table entry keeps the change, so a later call that looks up the same entry starts from what this call left there" % what)
        for fn, line, what in _mutable_default_uses(m.tree):
            chk.fail(P("no-state-between-calls"), "%s.%s" % (q, fn), what.split(":")[0], "%s:%d" % (m.relpath, line),
                     "%s: the default object is created once, so every call that relies on the default shares it with all earlier calls" % what)
    # ---- state kept on objects and classes
    s4 = _self_state_writes(ast.parse(_CLASS_SAMPLE))
    if sorted((x[1], x[2], x[5]) for x in s4) != [("cls_m", "_memo", "class"), ("get", "_memo", "class"), ("hit", "_buf", "self"), ("hit", "_last", "self")]:
        raise AnalysisError("the object-state detector does not recognise its own positive example (%s)" % (s4,))
    seen_allowed = set()
    reported = set()
    for q in LIB_MODULES:
        if q not in prog.modules:
            continue
        m = prog.modules[q]
        for cname, meth, attr, line, kind, who in _self_state_writes(m.tree):
            key = (cname, meth, attr)
            if who == "self" and key in INSTANCE_MUTATORS:
                seen_allowed.add(key)
                continue
            if who == "self" and not _pinned_class(prog, q, cname):
                continue  # a helper class that did not exist on the pinned tree may keep working state of its own objects (not of its class)
            if who == "self" and _only_called_by_mutators(m.tree, cname, meth, attr):
                seen_allowed.add((cname, "via:" + meth, attr))
                continue  # a helper carved out of a documented mutator: it changes what its only callers are documented to change
            if (cname, meth, attr, who) in reported:
                continue
            reported.add((cname, meth, attr, who))
            what = "%s.%s %s %s.%s (%s)" % (cname, meth, "changes" if kind != "store" else "assigns", "its object's" if who == "self" else "the class's", attr, kind)
            chk.fail(P("no-hidden-object-state"), "%s.%s.%s" % (q, cname, meth), "%s state: %s" % ("object" if who == "self" else "class", attr), "%s:%d" % (m.relpath, line),
                     "%s: outside the constructors and the documented mutators (%s) no method of the library writes to its object or its class, so a second call -- or another object -- "
                     "sees exactly what the first call saw; a value remembered here (a cache, a reused buffer, a memo) is a hidden input of every later call" % (what, ", ".join(sorted({"%s.%s" % (k[0], k[1]) for k in INSTANCE_MUTATORS}))))
    chk.require(len(seen_allowed) >= 4, P("no-hidden-object-state"), "bec2format", "%d documented mutation sites recognised" % len(seen_allowed), "",
                "the documented mutators are where the table says (the rule is looking at the code it was written for)", "only %d of the %d documented mutation sites were found" % (len(seen_allowed), len(INSTANCE_MUTATORS)))
    if n_mod < 6:
        raise AnalysisError("expected the library modules, found %d" % n_mod)
    chk.ok(P("no-state-between-calls"), "bec2format", "%d modules, %d functions scanned for module-level state and shared default objects" % (n_mod, n_fn), "",
           "no function of the library writes module-level state (registration functions excepted) or uses a mutable default object as state: a call cannot influence a later one except through the objects it is given")


PYAES_MODULES = ("register_crypto_plugin.pyaes.aes", "register_crypto_plugin.pyaes.blockfeeder", "register_crypto_plugin.pyaes.util")
ECDSA_MODULES = tuple("register_crypto_plugin.ecdsa." + m for m in ("ellipticcurve", "numbertheory", "ecdsa", "keys", "curves", "util", "der", "_compat", "rfc6979", "ecdh", "errors"))


def shared_state_rules(prog, chk, pid, modules):
    """the vendored packages: results must not depend on earlier calls on ANOTHER object -- no function writes module-level state, state of a class (a table or memo
    defined in a class body, reached through cls, the class name, type(self) or self), an entry of a module-level table through an alias, or a mutable default object"""
    P = lambda s: "%s.%s" % (pid, s)
    if len(_self_state_writes(ast.parse(_CLASS_SAMPLE))) != 4 or len(_module_state_writes(ast.parse(_STATE_SAMPLE))) != 2:
        raise AnalysisError("the state detectors do not recognise their own positive examples")
    n_mod = n_fn = 0
    reported = set()
    for q in modules:
        if q not in prog.modules:
            continue
        m = prog.modules[q]
        n_mod += 1
        n_fn += sum(1 for n in ast.walk(m.tree) if isinstance(n, (ast.FunctionDef, ast.AsyncFunctionDef)))
        found = [(fn, line, what) for fn, line, what in _module_state_writes(m.tree)]
        found += [(fn, line, what) for fn, line, what in _aliased_table_mutations(m.tree)]
        found += [(fn, line, what) for fn, line, what in _mutable_default_uses(m.tree)]
        found += [("%s.%s" % (c, meth), line, "%s.%s changes the class's %s (%s)" % (c, meth, attr, kind)) for c, meth, attr, line, kind, who in _self_state_writes(m.tree) if who == "class"]
        for fn, line, what in found:
            if (q, fn, what.split("(")[0]) in reported:
                continue
            reported.add((q, fn, what.split("(")[0]))
            chk.fail(P("no-shared-state"), "%s.%s" % (q, fn), what.split(":")[0][:120], "%s:%d" % (m.relpath, line),
                     "%s: the value is shared by every object and every later call in the process, so a result can depend on what was computed before for other data" % what)
    if n_mod < len(modules) - 1:
        raise AnalysisError("expected %d modules, found %d" % (len(modules), n_mod))
    chk.ok(P("no-shared-state"), modules[0].rsplit(".", 1)[0], "%d modules, %d functions scanned for module-level, class-level and default-argument state" % (n_mod, n_fn), "",
           "no function keeps state outside the objects it is given: no module global is written, no class-level container is changed, no mutable default is used as state")
