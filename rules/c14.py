"""C14 -- parsers fail only with format errors and always terminate.

R1 EXC+FACTS  interprocedural exception-escape sets of the five parser entry points must be within {FormatError family,
              ValueError family, OSError for path I/O}; every other escaping class is reported with its raising construct.
R2 TYPE       the BF2 line parser yields a tagged union whose free-text tags can take any value: consumers that require one
              payload type are reported (TypeError / AttributeError sources the generic catalogue does not contain).
R3 termination every while-loop reachable from an entry point makes progress on a finite input or raises at its end.
R4 EFFECT     no reachable function writes registry globals / module-level containers.
"""
from __future__ import annotations

import ast
import re as _re
import json
import os
from typing import Dict, List, Set

from bfsa.exc import Escape, ExcAnalysis, exc_in_family
from bfsa.guard import rel, unsnap
from bfsa.layout import meth_call
from bfsa.load import AnalysisError, NotConst
from bfsa.symexec import Exec
from bfsa.terms import C, NONE, Term, cval, is_const, mk, show, subterms

LEVEL = "other"
VERIF = os.path.dirname(os.path.dirname(os.path.abspath(__file__)))
E = "register_crypto_plugin.ecdsa."
ALLOWED = ["bec2format.error.FormatError", "ValueError", "OSError"]
ENTRY = [
    "bec2format.bf3file.Bf3File.read_file",
    "bec2format.bec2file.Bec2File.read_file",
    "bec2format.bf3file.Bf3File.bf2_import",
    "bec2format.configid.ConfigId.create_from_str",
    "bec2format.bf3file.pfid2_filter_to_str",
]
AES_SUMMARY = {
    "register_crypto_plugin.pyaes.aes.AES.__init__": {"ValueError"},
    "register_crypto_plugin.pyaes.aes.AES.encrypt": {"ValueError"},
    "register_crypto_plugin.pyaes.aes.AES.decrypt": {"ValueError"},
}
# boundary to the vendored ECC library: escapes of the decoders are what C19's analysis of ecdsa establishes; key
# agreement on validated keys of the same curve is assumed total (recorded as an assumption)
ECC_SUMMARY = {
    E + "keys.VerifyingKey.from_der": {E + "der.UnexpectedDER", E + "errors.MalformedPointError", E + "curves.UnknownCurveError"},
    E + "keys.SigningKey.from_der": {E + "der.UnexpectedDER", E + "errors.MalformedPointError", E + "curves.UnknownCurveError"},
    E + "keys.VerifyingKey.to_der": set(), E + "keys.SigningKey.to_der": set(), E + "keys.SigningKey.generate": set(),
    E + "ecdh.ECDH.__init__": set(), E + "ecdh.ECDH.load_private_key_der": set(), E + "ecdh.ECDH.load_received_public_key_der": set(),
    E + "ecdh.ECDH.generate_sharedsecret_bytes": set(),
    # the bodies of the two *_der loaders written out: from_der(<own encoding>) (see reencode_total) + load_* of keys that are P-256 by construction
    E + "ecdh.ECDH.load_private_key": set(), E + "ecdh.ECDH.load_received_public_key": set(),
}


def make_analysis(prog) -> ExcAnalysis:
    summ = dict(AES_SUMMARY)
    summ.update(ECC_SUMMARY)

    def inline(ex, fi, depth):
        if fi.qualname in summ:
            return False
        if fi.parent is not None or fi.name == "<lambda>":
            return True
        m = fi.module.name
        if (m == "register_crypto_plugin" or m.startswith("register_crypto_plugin.pyaes")) and depth < 14:
            return True
        if m.startswith("bec2format") and depth < 14:
            return True
        return False

    scope = lambda c: c.module.name.startswith("bec2format") or c.module.name == "register_crypto_plugin"
    an = ExcAnalysis(prog, dispatch_scope=scope, inline=inline, summaries=summ)
    an.reencode_total = {E + "keys.VerifyingKey.from_der", E + "keys.SigningKey.from_der"}
    return an


# ------------------------------------------------------------------------------------------------ table-backed discharges
def table_discharges(prog, chk, pid) -> Dict[str, str]:
    """facts about constant tables that make an escape impossible; each is checked here, then used to discharge by
    (exception, function, construct-substring)"""
    out = {}
    m = prog.module("bec2format.bf3file")
    tm = prog.fold_name(m, "BF2_TAGTYPE_MAP")
    T = {k: prog.fold_class_attr(prog.cls("bec2format.bf3file.BF3TYPE"), k) for k in ("LOADER", "PERIPHERAL", "MAIN", "CONFIGURATION")}
    F = {k: prog.fold_class_attr(prog.cls("bec2format.bf3file.BF3FMT"), k) for k in ("BLOB", "MEMORYIMAGE", "BF2COMPATIBLE", "TLVCFG")}
    per_ok = all(v[1] is not None for v in tm.values() if v[0] == T["PERIPHERAL"])
    chk.require(per_ok, "%s.table:peripheral-has-hwcid" % pid, "bec2format.bf3file.BF2_TAGTYPE_MAP", "every PERIPHERAL entry carries a hardware id", "", "so description[HWCID] exists for every imported peripheral component", "a PERIPHERAL tag type without hardware id: annotations() would raise KeyError")
    if per_ok:
        out["KeyError|bec2format.bf3file.Bf3File.annotations|[BF3TAG.HWCID]"] = "peripheral components always carry HWCID (table audit)"
    fmt_ok = all(v[2] in (F["BLOB"], F["MEMORYIMAGE"], F["BF2COMPATIBLE"]) for v in tm.values() if v[2] is not None)
    chk.require(fmt_ok, "%s.table:formats-handled" % pid, "bec2format.bf3file.BF2_TAGTYPE_MAP", "every mapped payload format has a conversion arm", "", "so the NotImplementedError arm of bf2_convert_payload is unreachable from the importer", "a mapped format has no conversion arm: bf2_import would raise NotImplementedError")
    if fmt_ok:
        out["NotImplementedError|bec2format.bf3file.Bf3File.bf2_convert_payload|raise NotImplementedError"] = "format values come from BF2_TAGTYPE_MAP only (table audit)"
    return out


PINNED_FUNCTIONS = set(json.load(open(os.path.join(VERIF, "spec", "pinned_functions.json")))["functions"])
STATIC_DISCHARGE = json.load(open(os.path.join(VERIF, "spec", "discharge.json")))


def discharged(esc: Escape, table: Dict[str, str], home: str = None) -> str:
    from bfsa.report import norm_construct

    cons = norm_construct(esc.construct)
    home = home or esc.fn
    for k, why in table.items():
        parts = k.split("|")
        frag = parts[-1]
        fn = parts[-2]
        exc = "|".join(parts[:-2])
        lookup = ("KeyError", "IndexError", "IndexError|KeyError")
        if (exc == esc.exc or (exc in lookup and esc.exc in lookup)) and fn in (esc.fn, home) and frag in cons:
            return why
    for d in STATIC_DISCHARGE.get("C14", []):
        if d["exception"] == esc.exc and d["function"] in (esc.fn, home) and d["construct"] in cons:
            return d["reason"]
    # crc8404B(<one argument>).to_bytes(n >= 2, ...): with the default start value the checksum is a 16-bit number (C15, whole-function proof)
    import re as _re

    m_ = _re.fullmatch(r"crc8404B\(([^,()]|\([^()]*\))*\)\.to_bytes\((\d+), .*\)", cons)
    if esc.exc == "OverflowError" and m_ and int(m_.group(2)) >= 2:
        return "crc8404B with its default start value returns a 16-bit value (C15), which fits %s bytes" % m_.group(2)
    return ""


# ------------------------------------------------------------------------------------------------ R2 typed union
def typed_union_rule(prog, chk, pid):
    P = lambda s: "%s.%s" % (pid, s)
    fi = prog.method("bec2format.bf3file.Bf3File", "parse_bf2_file")
    ex = Exec(prog, policy=lambda e, f, d: False)
    res = ex.run(fi)
    ys = [e for e in res.events if e.kind == "yield"]
    kinds = {}
    free_tags = []
    for y in ys:
        v = unsnap(y.d["value"])
        if v.op != "tuple" or len(v.args[0]) != 2:
            raise AnalysisError("parse_bf2_file yields something other than (tag, payload) pairs")
        tag, pay = unsnap(v.args[0][0]), unsnap(v.args[0][1])
        o = ex.obj(res.state, pay)
        pk = o.kind if o is not None else ("str" if (meth_call(pay) and meth_call(pay)[1] in ("strip",)) else "?")
        tk = cval(tag) if is_const(tag) else "<text>"
        kinds.setdefault(tk, set()).add(pk)
        if tk == "<text>":
            free_tags.append((y, pk))
    union = set()
    for k, v in kinds.items():
        if k == "<text>":
            union |= v
    chk.info["bf2_yield_kinds"] = {str(k): sorted(v) for k, v in kinds.items()}
    if not free_tags:
        chk.ok(P("typed-union"), fi.qualname, "no free-text tags", "%s:%d" % (fi.file, fi.lineno), "tags are a closed set")
        return
    # consumers in exec_bf2instrs: value of an instruction is used with a type requirement
    fi2 = prog.method("bec2format.bf3file.Bf3File", "exec_bf2instrs")
    ex2 = Exec(prog, policy=lambda e, f, d: False)
    r2 = ex2.run(fi2)

    def instr_value(t: Term):
        t = unsnap(t)
        if t.op == "sub" and unsnap(t.args[0]).op == "param" and unsnap(t.args[0]).args[0] == "bf2_instrs" and is_const(t.args[1]):
            return cval(t.args[1])
        mc = meth_call(t)
        if mc and mc[1] == "pop" and unsnap(mc[0]).op == "param" and unsnap(mc[0]).args[0] == "bf2_instrs" and mc[2] and is_const(mc[2][0]):
            return cval(mc[2][0])
        return None

    seen = set()
    for e in r2.events:
        need = None
        key = None
        if e.kind == "subscript":
            key = instr_value(e.d["base"])
            idx = unsnap(e.d["index"])
            if key is not None and is_const(idx) and isinstance(cval(idx), str):
                need = "dict"
        elif e.kind == "slice":
            # slicing a dict: slices are hashable in the analysed interpreter (CPython >= 3.12), so this is a KeyError,
            # which the importer's handler converts; not a TypeError source
            continue
        elif e.kind == "op" and e.d["op"] == "Add":
            a, b = e.d["args"]
            for x, y in ((a, b), (b, a)):
                k = instr_value(x)
                if k is not None and is_const(unsnap(y)) and isinstance(cval(unsnap(y)), str):
                    key, need = k, "str"
        if need is None or key is None:
            continue
        wrong = union - {need}
        site = (key, need)
        if site in seen:
            continue
        seen.add(site)
        if wrong:
            chk.fail(P("typed-union"), fi2.qualname, "bf2_instrs[%r] used as %s" % (key, need), e.where,
                     "a BF2 instruction value is a dict for '#>NAME k=v' lines and a str for '##NAME: text' lines, and NAME is free text: this use requires a %s, so e.g. %s raises TypeError (not caught by the importer's (ValueError, IndexError, KeyError, OverflowError) handler)"
                     % (need, ("'##%s: foo'" % key) if need == "dict" else ("'#>%s a=b'" % key)))
        else:
            chk.ok(P("typed-union"), fi2.qualname, "bf2_instrs[%r] used as %s" % (key, need), e.where, "payload type is unique")
    # the internal 'load' marker can be produced by free text as well
    fi3 = prog.method("bec2format.bf3file.Bf3File", "bf2_import")
    ex3 = Exec(prog, policy=lambda e, f, d: False)
    r3 = ex3.run(fi3)
    narrowed = [e for e in r3.events if e.kind in ("branch", "guard") and "'load'" in show(e.d["cond"], 4)]
    if "load" in kinds and narrowed:
        chk.fail(P("typed-union"), fi3.qualname, "instr == 'load' -> params[0].fwtagtype", narrowed[0].where,
                 "the internal marker 'load' (payload: non-empty list of data lines) collides with free-text tags: '##load: x' gives a str payload (AttributeError / IndexError for '##load:'), '#>load a=b' a dict (KeyError(0))")


# ------------------------------------------------------------------------------------------------ R3 termination
def termination_rule(prog, chk, pid, an: ExcAnalysis):
    P = lambda s: "%s.%s" % (pid, s)
    seen = set()
    for (fi, ex, res, ev) in an.while_loops:
        lid = ev.d["loop"]
        lr = ex.loops[lid]
        node = lr.node
        key = (lr.fn.qualname, node.lineno)
        if key in seen:
            continue
        seen.add(key)
        body = [e for e in res.events if any(f[0] == "loop" and f[1] == lid for f in e.ctx)]
        where = "%s:%d" % (lr.fn.file, node.lineno)
        # progress sources inside the iteration
        # (the length-checked read: BytesReader.read, wherever in BytesReader's class hierarchy it is defined -- a mixin the class was split into counts)
        br_ = prog.classes.get("bec2format.bytes_reader.BytesReader")
        br_read = br_.lookup("read")[1] if br_ is not None and br_.lookup("read") is not None else None
        rd_exact = [e for e in body if e.kind == "call" and (e.d["callee"].qualname.endswith("BytesReader.read") or (br_read is not None and e.d["callee"] is br_read))]
        rd_raw = [e for e in body if e.kind == "mcall" and e.d["name"] in ("read", "readline")]
        cond = lr.cond
        ok, why = False, ""
        if lr.fn.module.name.startswith("register_crypto_plugin.pyaes"):
            # feeder loop: consumes can_consume > 0 bytes of a finite buffer per iteration or breaks
            brk = [e for e in body if e.kind == "guard" and e.d.get("term") in ("break", "return")]  # leaving the loop or the function when nothing can be consumed
            shrink = any(nm == "self._buffer" for nm in lr.next)
            if not shrink:
                # the buffer may be walked through a local (view) that is re-bound to its own tail: x = x[k:]
                for nm, nx in lr.next.items():
                    nx_ = unsnap(nx)
                    if nx_.op == "slice" and unsnap(nx_.args[0]).op == "loopvar" and unsnap(nx_.args[0]).args[1] == nm and nx_.args[2] is NONE and nx_.args[3] is NONE:
                        shrink = True
            ok = bool(brk) and shrink
            why = "buffer loop does not shrink its buffer or break when nothing can be consumed"
        elif rd_exact or any(e.kind == "mcall" and e.d["name"] == "read" and e.d.get("ext_base") for e in body):
            # every iteration performs a length-checked read of >= 1 byte from a finite reader (raises at its end),
            # or the condition is the reader's own eof test
            sizes = []
            for e in rd_exact:
                a = [x for x in e.d["args"] if unsnap(x).op not in ("ref",)]
                if a:
                    sizes.append(unsnap(a[0]))
            pos = [s for s in sizes if is_const(s) and isinstance(cval(s), int) and cval(s) >= 1]
            ok = bool(pos)
            why = "no iteration-unconditional read of at least one byte"
            if ok:
                # the positive read must not be skippable: its frames below the loop are only the loop condition
                good = False
                for e in rd_exact:
                    a = [x for x in e.d["args"] if unsnap(x).op not in ("ref",)]
                    if a and is_const(unsnap(a[0])) and isinstance(cval(unsnap(a[0])), int) and cval(unsnap(a[0])) >= 1:
                        fs = list(e.ctx)
                        i = max(k for k, f in enumerate(fs) if f[0] == "loop" and f[1] == lid)
                        extra = [f for f in fs[i + 1:] if f[0] in ("if", "loop", "try", "except") and not (f[0] == "if" and cond is not None and f[1] is cond)]
                        if not extra:
                            good = True
                ok = good
                why = "the read that guarantees progress can be skipped inside the iteration"
        elif rd_raw:
            # text loop: `line = f.readline()` each iteration; at end of file readline() returns '' which must exit or raise
            okr = False
            for nm, nxt in lr.next.items():
                mc = meth_call(unsnap(nxt))
                if mc and mc[1] == "readline" and cond is not None and any(x.op == "loopvar" and x.args[1] == nm for x in subterms(cond)):
                    # EOF: the loop variable becomes ''; the body must raise on '' (tuple-unpack of ''.split(':', 1))
                    unp = [e for e in body if e.kind == "unpack" and e.d["n"] == 2]
                    for u in unp:
                        v = unsnap(u.d["value"])
                        m2 = meth_call(v)
                        if m2 and m2[1] == "split" and unsnap(m2[0]).op == "loopvar" and unsnap(m2[0]).args[1] == nm and len(m2[2]) == 2 and is_const(m2[2][0]) and cval(m2[2][0]) != "":
                            # ... and that statement must not be skippable for the empty string: no branch between the loop head and it
                            fs = list(u.ctx)
                            i = max(k for k, f in enumerate(fs) if f[0] == "loop" and f[1] == lid)
                            extra = [f for f in fs[i + 1:] if f[0] in ("if", "loop") and not (f[0] == "if" and cond is not None and f[1] is cond)]
                            if not extra:
                                okr = True
            if not okr and cond is not None:
                # `while (line := f.readline()) != SEP:` -- the line is read in the loop head; at end of input it is '' and the body must raise on it
                heads = [e for e in rd_raw if e.d["name"] == "readline" and e.ctx and e.ctx[-1][0] == "loop" and e.ctx[-1][1] == lid
                         and any(x is unsnap(e.d["result"]) for x in subterms(cond))]
                for h in heads:
                    line = unsnap(h.d["result"])
                    for u in [e for e in body if e.kind == "unpack" and e.d["n"] == 2]:
                        m2 = meth_call(unsnap(u.d["value"]))
                        if m2 and m2[1] == "split" and unsnap(m2[0]) is line and len(m2[2]) == 2 and is_const(m2[2][0]) and cval(m2[2][0]) != "":
                            fs = list(u.ctx)
                            i = max(k for k, f in enumerate(fs) if f[0] == "loop" and f[1] == lid)
                            extra = [f for f in fs[i + 1:] if f[0] in ("if", "loop") and not (f[0] == "if" and f[1] is cond)]
                            if not extra:
                                okr = True
            ok = okr
            why = "at end of input readline() returns '' forever: neither the condition nor the body stops the loop"
        else:
            ok = False
            why = "no input is consumed in the loop"
        chk.require(ok, P("loop-terminates"), lr.fn.qualname, "while %s" % (ast.unparse(node.test)[:60]), where,
                    "every iteration consumes input from a finite source (length-checked read of >= 1 byte, readline with an end-of-input raise, shrinking buffer) so the loop ends or raises", why)


def _reads_before(stmts, idx, rdr_name, fold, rep=lambda n: n):
    """bytes certainly consumed from reader `rdr_name` by the straight-line statements stmts[:idx] after its creation (reads in branches / loops are not counted)"""
    total = 0
    for st in stmts[:idx]:
        tops = []
        if isinstance(st, (ast.Assign, ast.Expr, ast.AnnAssign, ast.AugAssign, ast.Return)) and getattr(st, "value", None) is not None:
            tops = [st.value]
        elif isinstance(st, ast.If):
            tops = [st.test]
        for top in tops:
            for c in ast.walk(top):
                if (isinstance(c, ast.Call) and isinstance(c.func, ast.Attribute) and c.func.attr in ("read", "read_int") and isinstance(c.func.value, ast.Name) and rep(c.func.value.id) == rep(rdr_name)
                        and len(c.args) == 1):
                    try:
                        k = fold(c.args[0])
                    except NotConst:
                        continue
                    if isinstance(k, int) and k > 0:
                        total += k
    return total


def _pinned_home(prog, lib, fi) -> str:
    """the function a site is reported under: a function that did not exist on the pinned tree (an extracted helper, a nested function) is attributed to the
    pinned function it was carved out of -- its enclosing function, or its only caller -- so that a finding keeps its identity when code is moved into a helper"""
    from bfsa.symexec import _is_new_function

    seen = set()
    while fi is not None and fi.qualname not in seen:
        seen.add(fi.qualname)
        if fi.parent is not None:
            fi = fi.parent
            continue
        if not _is_new_function(fi):
            return fi.qualname
        def users_of(name):
            out = []
            for q, f in lib.items():
                if f is fi or f.parent is not None:
                    continue
                if any((isinstance(c, ast.Attribute) and c.attr == name) or (isinstance(c, ast.Name) and c.id == name) for c in ast.walk(f.node)):
                    out.append(f)
            return out

        callers = users_of(fi.name)
        if not callers:
            # handed on through a dispatch table at module or class level: the users of the table
            holders = [fi.module.tree.body] + [c.body for c in ast.walk(fi.module.tree) if isinstance(c, ast.ClassDef)]
            for body in holders:
                for st_ in body:
                    if isinstance(st_, (ast.Assign, ast.AnnAssign)) and getattr(st_, "value", None) is not None and any((isinstance(c, ast.Attribute) and c.attr == fi.name) or (isinstance(c, ast.Name) and c.id == fi.name) for c in ast.walk(st_.value)):
                        for t_ in (st_.targets if isinstance(st_, ast.Assign) else [st_.target]):
                            if isinstance(t_, ast.Name):
                                callers += users_of(t_.id)
        callers = [f for i_, f in enumerate(callers) if f not in callers[:i_]]
        if len(callers) != 1:
            return fi.qualname
        fi = callers[0]
    return fi.qualname if fi is not None else "?"


def _mac_input_trace_proof(prog, lib, fi, call_node) -> bool:
    from bfsa.guard import dominates
    from bfsa.layout import RField, extract_readers

    home_q = _pinned_home(prog, lib, fi)
    home = lib.get(home_q)
    if home is None:
        return False
    try:
        ex = Exec(prog, policy=lambda e, f, d: f.cls is not None and f.cls.name == "BytesReader" and d < 6)
        res = ex.run(home)
    except Exception:
        return False
    calls = [e for e in res.events if e.kind == "call" and e.d["callee"].name == "cmac" and getattr(e.node, "lineno", None) == call_node.lineno and e.fn is not None and e.fn.file == fi.file]
    if not calls:
        return False
    rds = extract_readers(ex, res.events)
    for ce in calls:
        a = [x for x in ce.d["args"]]
        if not a:
            return False
        d = unsnap(a[0])
        if not (d.op == "slice" and d.args[1] is NONE and d.args[3] is NONE):
            return False
        src = unsnap(d.args[0])
        stop = unsnap(d.args[2])
        if is_const(stop) and isinstance(cval(stop), int) and not isinstance(cval(stop), bool) and cval(stop) < 0:
            k = -cval(stop)
        elif stop.op == "bin" and stop.args[0] == "Sub" and is_const(unsnap(stop.args[2])) and isinstance(cval(unsnap(stop.args[2])), int) and cval(unsnap(stop.args[2])) > 0:
            # X[:n - K] where n is the length of X: the size X was read with (an exact read) or len(X)
            n_ = unsnap(stop.args[1])
            mcs = meth_call(src)
            if not ((n_.op == "len" and unsnap(n_.args[0]) is src) or (mcs and mcs[1] == "read" and len(mcs[2]) == 1 and unsnap(mcs[2][0]) is n_)):
                return False
            k = cval(unsnap(stop.args[2]))
        else:
            return False
        good = False
        for r in rds.values():
            if r.raw is None or unsnap(r.raw) is not src:
                continue
            total = 0
            for f in r.flat:
                if isinstance(f, RField) and is_const(f.size) and isinstance(cval(f.size), int) and cval(f.size) > 0 and f.ev.uid < ce.uid and dominates(f.ev, ce):
                    total += cval(f.size)
            if total > k:
                good = True
        if not good:
            return False
    return True


def mac_input_rule(prog, chk, pid, an: ExcAnalysis):
    """the registered cipher's mac() cannot take an empty input (the plug-in's feeder raises a bare Exception): every cmac() call a parser reaches must be handed data that is provably
    non-empty.  Accepted proof: the data is X[:-K] and the call is preceded, in the same straight-line block, by exact reads of more than K bytes from BytesReader(X)."""
    P = lambda s: "%s.%s" % (pid, s)
    n_sites = 0
    # functions of the library reachable from the parser entry points (calls resolved by simple name: an over-approximation)
    lib = {q: f for q, f in prog.funcs.items() if q.startswith("bec2format.")}
    by_name: Dict[str, List[str]] = {}
    for q, f in lib.items():
        by_name.setdefault(f.name, []).append(q)
    reach, todo = set(), [q for q in ENTRY if q in lib]
    while todo:
        q = todo.pop()
        if q in reach:
            continue
        reach.add(q)
        for c in ast.walk(lib[q].node):
            if isinstance(c, ast.Call):
                nm = c.func.attr if isinstance(c.func, ast.Attribute) else getattr(c.func, "id", None)
                todo.extend(by_name.get(nm, []))
                if nm and nm[:1].isupper():
                    todo.extend(x for x in by_name.get("__init__", []) if x.endswith("." + nm + ".__init__"))
    from bfsa.fuse import fuse_function
    from bfsa.symexec import _is_new_function as _new_fn

    # helpers that did not exist on the pinned tree and hand one of their parameters straight to cmac(): their call sites are the MAC sites
    # (name -> index of the data argument at a call site, `self` not counted)
    wrappers: Dict[str, int] = {}
    for q_, f_ in lib.items():
        if not _new_fn(f_) or not isinstance(f_.node, (ast.FunctionDef, ast.AsyncFunctionDef)):
            continue
        ps = [a_.arg for a_ in f_.node.args.posonlyargs + f_.node.args.args]
        for c_ in ast.walk(f_.node):
            if isinstance(c_, ast.Call) and isinstance(c_.func, ast.Name) and c_.func.id == "cmac" and c_.args and isinstance(c_.args[0], ast.Name) and c_.args[0].id in ps:
                stores = [n_ for n_ in ast.walk(f_.node) if isinstance(n_, ast.Name) and n_.id == c_.args[0].id and isinstance(n_.ctx, ast.Store)]
                if not stores:
                    idx_ = ps.index(c_.args[0].id) - (1 if f_.cls is not None and f_.kind in ("function", "classmethod") else 0)
                    if idx_ >= 0:
                        wrappers[f_.name] = idx_

    def gen_of(func_expr, _lib=lib):
        nm_ = func_expr.id if isinstance(func_expr, ast.Name) else None
        for q_ in by_name.get(nm_, []) if nm_ else []:
            f_ = _lib[q_]
            if f_.is_generator and f_.cls is None and f_.parent is None and _new_fn(f_):
                return f_.node
        return None

    for q in sorted(reach):
        fi = lib[q]
        if fi.name in wrappers and _new_fn(fi):
            continue  # its data comes from its callers: decided there
        fold = lambda e, _fi=fi: prog.fold(_fi.module, e, _fi.cls)
        # a generator that did not exist on the pinned tree is read together with the loop that consumes it
        fnode = fuse_function(fi.node, gen_of) if isinstance(fi.node, (ast.FunctionDef, ast.AsyncFunctionDef)) else fi.node
        # (the one-trip loop the fusion wraps the consumer's body in only serves `continue`: for "what was certainly read before this call" its body is straight-line code)
        def splice_once(stmts_):
            i_ = 0
            while i_ < len(stmts_):
                st_ = stmts_[i_]
                if isinstance(st_, ast.For) and isinstance(st_.target, ast.Name) and _re.fullmatch(r"__g\d*_once\d*", st_.target.id):
                    stmts_[i_:i_ + 1] = st_.body
                    continue
                for fld_ in ("body", "orelse", "finalbody"):
                    b_ = getattr(st_, fld_, None)
                    if isinstance(b_, list) and b_ and isinstance(b_[0], ast.stmt) and not isinstance(st_, (ast.FunctionDef, ast.AsyncFunctionDef, ast.ClassDef)):
                        splice_once(b_)
                for h_ in getattr(st_, "handlers", []) or []:
                    splice_once(h_.body)
                i_ += 1

        if fnode is not fi.node:
            splice_once(fnode.body)
        # names that are plain copies of one another (`a = b`, `a, b = x, y`): one object under several names
        alias: Dict[str, str] = {}

        def rep(nm_):
            while alias.get(nm_, nm_) != nm_:
                nm_ = alias[nm_]
            return nm_

        for a_ in ast.walk(fnode):
            if isinstance(a_, ast.Assign) and len(a_.targets) == 1:
                t_, v_ = a_.targets[0], a_.value
                pairs_ = []
                if isinstance(t_, ast.Name) and isinstance(v_, ast.Name):
                    pairs_ = [(t_.id, v_.id)]
                elif isinstance(t_, (ast.Tuple, ast.List)) and isinstance(v_, (ast.Tuple, ast.List)) and len(t_.elts) == len(v_.elts):
                    pairs_ = [(x_.id, y_.id) for x_, y_ in zip(t_.elts, v_.elts) if isinstance(x_, ast.Name) and isinstance(y_, ast.Name)]
                for x_, y_ in pairs_:
                    if rep(x_) != rep(y_):
                        alias[rep(x_)] = rep(y_)

        def blocks(node):
            for fld in ("body", "orelse", "finalbody"):
                b = getattr(node, fld, None)
                if isinstance(b, list) and b and isinstance(b[0], ast.stmt):
                    yield b
                    for st in b:
                        if not isinstance(st, (ast.FunctionDef, ast.ClassDef, ast.AsyncFunctionDef)):
                            yield from blocks(st)
            for h in getattr(node, "handlers", []) or []:
                yield from blocks(h)

        # local names that stand for cmac: `m = cmac` or `m = partial(cmac, key=...)` (no positional argument bound, so the data is still the first argument)
        mac_names = {"cmac"}
        for a in ast.walk(fnode):
            if isinstance(a, ast.Assign) and len(a.targets) == 1 and isinstance(a.targets[0], ast.Name):
                v = a.value
                if isinstance(v, ast.Name) and v.id == "cmac":
                    mac_names.add(a.targets[0].id)
                elif (isinstance(v, ast.Call) and (getattr(v.func, "id", None) == "partial" or getattr(v.func, "attr", None) == "partial") and len(v.args) == 1
                      and isinstance(v.args[0], ast.Name) and v.args[0].id == "cmac"):
                    mac_names.add(a.targets[0].id)
        for blk in blocks(fnode):
            for i, st in enumerate(blk):
                own = [st.test] if isinstance(st, (ast.If, ast.While)) else [st.iter] if isinstance(st, ast.For) else [st] if not hasattr(st, "body") else []
                for top in own:
                    for c in ast.walk(top):
                        is_mac = isinstance(c, ast.Call) and isinstance(c.func, ast.Name) and c.func.id in mac_names and c.args
                        wname = (c.func.attr if isinstance(c.func, ast.Attribute) else getattr(c.func, "id", None)) if isinstance(c, ast.Call) else None
                        is_wrapped = (not is_mac) and wname in wrappers and len(c.args) > wrappers[wname]
                        if not (is_mac or is_wrapped):
                            continue
                        n_sites += 1
                        data = c.args[0] if is_mac else c.args[wrappers[wname]]
                        shown = ast.unparse(data)
                        if isinstance(data, ast.Name):
                            # a local bound exactly once in this function stands for its defining expression
                            defs = [a for a in ast.walk(fnode) if isinstance(a, ast.Assign) and any(isinstance(t, ast.Name) and t.id == data.id for t in a.targets)]
                            others = [a for a in ast.walk(fnode) if isinstance(a, (ast.AugAssign, ast.AnnAssign, ast.For, ast.NamedExpr, ast.withitem)) and any(isinstance(x, ast.Name) and x.id == data.id and isinstance(x.ctx, ast.Store) for x in ast.walk(a.target if hasattr(a, "target") else a))]
                            if len(defs) == 1 and not others and len(defs[0].targets) == 1 and data.id not in fi.params:
                                data = defs[0].value
                                shown = "%s = %s" % (shown, ast.unparse(data))
                        ok, why = False, "the data argument %s may be empty" % shown
                        if isinstance(data, ast.Subscript) and isinstance(data.value, ast.Name) and isinstance(data.slice, ast.Slice) and data.slice.lower is None and data.slice.upper is not None:
                            try:
                                k = fold(data.slice.upper)
                            except NotConst:
                                k = None
                            if isinstance(k, int) and k < 0:
                                # the enclosing statement lists, innermost first: look for `R = BytesReader(X, ...)` followed by reads of more than K bytes, all before the call
                                got = 0
                                for blk2 in blocks(fnode):
                                    idx2 = next((j for j, s2 in enumerate(blk2) if any(x is c for x in ast.walk(s2))), None)
                                    if idx2 is None:
                                        continue
                                    for j in range(idx2):
                                        s2 = blk2[j]
                                        if (isinstance(s2, ast.Assign) and len(s2.targets) == 1 and isinstance(s2.targets[0], ast.Name) and isinstance(s2.value, ast.Call)
                                                and getattr(s2.value.func, "id", None) == "BytesReader" and s2.value.args and isinstance(s2.value.args[0], ast.Name) and rep(s2.value.args[0].id) == rep(data.value.id)):
                                            got = max(got, _reads_before(blk2[j + 1:idx2], idx2 - j - 1, s2.targets[0].id, fold, rep))
                                ok = got > -k
                                why = "only %d byte(s) are certainly read from %s before its MAC is computed over %s: for shorter input the MAC input is empty and the cipher raises a bare Exception" % (got, data.value.id, ast.unparse(data))
                        if not ok:
                            # the same argument on the interpreted trace of the pinned home function (helpers and helper classes that did not exist on the pinned tree
                            # are interpreted as part of it): the data is X[:-K], X is what a reader object R was built over, and exact reads of more than K bytes
                            # from R come before the call on every path to it
                            proof = _mac_input_trace_proof(prog, lib, fi, c)
                            if proof:
                                ok, why = True, ""
                        (chk.ok if ok else chk.fail)(P("mac-input-nonempty"), _pinned_home(prog, lib, fi), "cmac(%s, ...)" % ast.unparse(c.args[0] if is_mac else c.args[wrappers[wname]]), "%s:%d" % (fi.file, c.lineno),
                                                     "the MAC input is X[:-K] after more than K bytes of X were read: it cannot be empty" if ok else why)
    if n_sites < 2:
        raise AnalysisError("expected at least the two cmac() call sites of the BF3 reader, found %d" % n_sites)


def _reachable_lib(prog):
    lib = {q: f for q, f in prog.funcs.items() if q.startswith("bec2format.")}
    by_name: Dict[str, List[str]] = {}
    for q, f in lib.items():
        by_name.setdefault(f.name, []).append(q)
    reach, todo = set(), [q for q in ENTRY if q in lib]
    while todo:
        q = todo.pop()
        if q in reach:
            continue
        reach.add(q)
        for c in ast.walk(lib[q].node):
            if isinstance(c, ast.Call):
                nm = c.func.attr if isinstance(c.func, ast.Attribute) else getattr(c.func, "id", None)
                todo.extend(by_name.get(nm, []))
                if nm and nm[:1].isupper():
                    todo.extend(x for x in by_name.get("__init__", []) if x.endswith("." + nm + ".__init__"))
    return lib, reach


NONE_TOLERANT_CALLS = {"str", "repr", "print", "bool", "isinstance", "type", "id", "format", "hash", "list.append"}


def optional_use_rule(prog, chk, pid):
    """d.get(k) / d.pop(k, None) give None for a missing key.  In the parsers the keys come from the input text, so such a value must not reach an operation
    that needs a real value (subscript, method call, iteration, arithmetic, an argument of a function whose parameter is not optional) unless a test on it
    comes first: otherwise a missing parameter surfaces as TypeError / AttributeError instead of the format error the KeyError of d[k] is converted to."""
    P = lambda s: "%s.%s" % (pid, s)
    lib, reach = _reachable_lib(prog)
    n_src = 0
    for q in sorted(reach):
        fi = lib[q]
        if fi.parent is not None:
            continue
        try:
            ex = Exec(prog, policy=lambda e, f, d: f.parent is not None or f.name == "<lambda>")
            res = ex.run(fi)
        except Exception:
            continue
        srcs = {}
        for e in res.events:
            if e.kind == "mcall" and e.d.get("result") is not None and ((e.d["name"] == "get" and len(e.d["args"]) == 1) or (e.d["name"] in ("get", "pop") and len(e.d["args"]) == 2 and is_const(e.d["args"][1]) and cval(e.d["args"][1]) is None)):
                if e.d.get("ext_base") is None:
                    srcs[unsnap(e.d["result"]).uid] = e
            if e.kind == "mutate" and e.d.get("how") == "dictpop" and e.d.get("has_default"):
                pass
        if not srcs:
            continue
        n_src += len(srcs)

        def tested(use_ev, r_uid):
            known = [(f[1], bool(f[2])) for f in use_ev.ctx if f[0] == "if"] + [(c, bool(p_)) for c, p_ in (getattr(use_ev, "facts", ()) or ())]
            for c, p_ in known:
                r_ = rel(c, p_)
                for a in ([r_] if r_[0] == "rel" else r_[1] if r_[0] in ("and",) else []):
                    if a[0] != "rel":
                        continue
                    if a[1] == "Truthy" and unsnap(a[2]).uid == r_uid:
                        return True
                    if a[1] in ("IsNot", "NotEq") and a[3] is not None:
                        for x, y in ((a[2], a[3]), (a[3], a[2])):
                            if unsnap(x).uid == r_uid and (y is NONE or (is_const(unsnap(y)) and cval(unsnap(y)) is None)):
                                return True
            return False

        for e in res.events:
            uses = []  # (source uid, what)
            if e.kind in ("call", "extcall", "dyncall"):
                name = e.d["callee"].name if e.kind == "call" else e.d.get("name", "") if e.kind == "extcall" else "?"
                for k, a in enumerate(e.d.get("args", ())):
                    u = unsnap(a).uid
                    if u in srcs:
                        if e.kind == "extcall" and name in NONE_TOLERANT_CALLS:
                            continue
                        if e.kind == "call":
                            cal = e.d["callee"]
                            params = [p_ for p_ in cal.params if not (cal.cls is not None and p_ in ("self", "cls"))]
                            an_ = cal.node.args
                            allp = an_.posonlyargs + an_.args
                            off = len(allp) - len(an_.defaults)
                            pname = params[k] if k < len(params) else None
                            pnode = next((x for x in allp if x.arg == pname), None)
                            optional = False
                            if pnode is not None:
                                i_ = allp.index(pnode)
                                dflt = an_.defaults[i_ - off] if i_ >= off else None
                                optional = (isinstance(dflt, ast.Constant) and dflt.value is None) or (pnode.annotation is not None and "Optional" in ast.unparse(pnode.annotation))
                            if optional:
                                continue
                        uses.append((u, "argument %d of %s(...)" % (k + 1, name)))
            elif e.kind == "mcall":
                u = unsnap(e.d["recv"]).uid
                if u in srcs:
                    uses.append((u, "receiver of .%s()" % e.d["name"]))
                for a in e.d.get("args", ()):
                    pass
            elif e.kind in ("subscript", "slice"):
                u = unsnap(e.d["base"]).uid
                if u in srcs:
                    uses.append((u, "subscripted"))
            elif e.kind == "iter":
                u = unsnap(e.d["iterable"]).uid
                if u in srcs:
                    uses.append((u, "iterated"))
            elif e.kind == "unpack":
                u = unsnap(e.d["value"]).uid
                if u in srcs:
                    uses.append((u, "unpacked"))
            elif e.kind == "op" and e.d["op"] not in ("Eq", "NotEq", "Is", "IsNot", "In", "NotIn", "And", "Or", "Not"):
                for a in e.d["args"]:
                    u = unsnap(a).uid
                    if u in srcs and not (e.d["op"] in ("In", "NotIn")):
                        uses.append((u, "operand of %s" % e.d["op"]))
            for u, what in uses:
                src = srcs[u]
                cons = "%s.%s(%s) used as %s" % (show(src.d["recv"], 2), src.d["name"], ", ".join(show(a, 2) for a in src.d["args"]), what)
                if tested(e, u):
                    chk.ok(P("optional-value-used"), fi.qualname, cons, e.where, "a test on the looked-up value comes first")
                else:
                    chk.fail(P("optional-value-used"), fi.qualname, cons, e.where,
                             "the value is None when the key is missing (a parameter left out of the input text) and is used without a test: TypeError / AttributeError instead of a format error")
    chk.info["optional_lookups_examined"] = n_src


def regex_backtracking_rule(prog, chk, pid):
    """termination also covers the pattern matcher: Python's backtracking matcher takes time exponential in the input for a pattern in which an unbounded repetition
    contains another unbounded repetition (star height 2: `(\\S+ *)+`) and the match fails.  Every constant pattern handed to the `re` module by the library is parsed
    with the checker's own use of the standard pattern parser; an unbounded repeat nested in an unbounded repeat is reported.  (Star height <= 1 is a sufficient, not a
    necessary condition for polynomial matching; the library's own patterns all have it.)"""
    import re._parser as _rp  # the pattern parser only: nothing of the repository is executed

    P = "%s.regex-no-nested-unbounded-repeat" % pid
    n = 0
    REFN = {"compile", "match", "fullmatch", "search", "sub", "subn", "split", "findall", "finditer"}

    def nested(items, inside):
        for op, av in items:
            name = str(op)
            if name in ("MAX_REPEAT", "MIN_REPEAT", "POSSESSIVE_REPEAT"):
                lo, hi, sub = av
                unbounded = hi == _rp.MAXREPEAT or (isinstance(hi, int) and hi > 64)
                if unbounded and inside:
                    return True
                if nested(sub, inside or unbounded):
                    return True
            elif name == "SUBPATTERN":
                if nested(av[3], inside):
                    return True
            elif name == "BRANCH":
                if any(nested(alt, inside) for alt in av[1]):
                    return True
            elif name in ("ASSERT", "ASSERT_NOT"):
                if nested(av[1], inside):
                    return True
            elif name == "ATOMIC_GROUP":
                if nested(av, inside):
                    return True
        return False

    for q, m in sorted(prog.modules.items()):
        if not (q.startswith("bec2format.") or q == "register_crypto_plugin"):
            continue
        for c in ast.walk(m.tree):
            if not (isinstance(c, ast.Call) and c.args):
                continue
            fn = c.func
            nm = fn.attr if isinstance(fn, ast.Attribute) else getattr(fn, "id", None)
            if nm not in REFN:
                continue
            head = fn.value.id if isinstance(fn, ast.Attribute) and isinstance(fn.value, ast.Name) else nm if isinstance(fn, ast.Name) else None
            if head is None:
                continue
            r_ = prog.resolve_symbol(m, head)
            if not (isinstance(r_, tuple) and r_[0] == "external" and str(r_[1]).split(".")[0] == "re"):
                continue
            try:
                pat = prog.fold(m, c.args[0])
            except NotConst:
                chk.fail(P, q, ast.unparse(c)[:80], "%s:%d" % (m.relpath, c.lineno), "pattern is not a constant: its matching time cannot be bounded from the source")
                n += 1
                continue
            if not isinstance(pat, (str, bytes)):
                continue
            n += 1
            try:
                tree = _rp.parse(pat)
                bad = nested(list(tree), False)
            except Exception as e_:  # an invalid pattern raises re.error at run time: not a format error either
                chk.fail(P, q, repr(pat)[:80], "%s:%d" % (m.relpath, c.lineno), "pattern does not parse: %s" % e_)
                continue
            chk.require(not bad, P, q, repr(pat)[:90], "%s:%d" % (m.relpath, c.lineno), "no unbounded repetition inside an unbounded repetition: a failing match cannot take exponential time",
                        "an unbounded repetition contains another unbounded repetition: on text that does not match, the backtracking matcher tries exponentially many ways to split it (the parser hangs on a long word)")
    if n == 0:
        raise AnalysisError("no pattern of the re module found in the library (the parser of configuration identifiers uses two)")



def run(prog, chk, tier):
    chk.explanation = ("Each parser entry point is interpreted with bec2format, the plug-in adapter and pyaes inlined (AES block functions summarised; the vendored ECC "
                       "decoders enter through the summary that C19 establishes). Every explicit raise and every implicit raiser of a fixed catalogue (subscripts typed by "
                       "shape inference, unpacking, int(), unhexlify, to_bytes, decode, pop, division) is collected with its enclosing handlers; implicit raisers are discharged "
                       "by path facts (length guards, truthiness, membership, successful earlier lookups, certainly-present dictionary keys) or by audited table invariants. "
                       "What escapes must be a FormatError, a ValueError or (path I/O) an OSError. A typed sub-rule covers the BF2 tagged union; while-loops must make progress; "
                       "no reachable code writes library globals.")
    from rules import state as _state

    _state.library_state_rules(prog, chk, "C14")
    an = make_analysis(prog)
    table = table_discharges(prog, chk, "C14")
    # the AES summary is licensed by the concrete-control interpretation of C16 (no failing or symbolic index)
    from rules import c16

    safe, n_sub = c16.aes_index_safety(prog)
    chk.require(safe, "C14.aes-summary-licensed", "register_crypto_plugin.pyaes.aes.AES", "AES.__init__/encrypt/decrypt raise only ValueError", "", "for key sizes 16/24/32 and 16-byte blocks every table/list index in the block functions is concrete and in range (%d lookups interpreted)" % n_sub, "an AES block function performs a lookup that is not statically in range")
    total_allowed = 0
    lib_ = {q_: f_ for q_, f_ in prog.funcs.items() if q_.startswith("bec2format.")}
    for q in ENTRY:
        fi = prog.func(q)
        escs = an.escapes(fi)
        seen_keys = set()
        for s in escs:
            if exc_in_family(an.h, s.exc, ALLOWED):
                total_allowed += 1
                continue
            # a site in a function that did not exist on the pinned tree (an extracted helper) is reported under the pinned function it was carved out of
            home = s.fn
            if s.fn in lib_ and s.fn not in PINNED_FUNCTIONS:
                home = _pinned_home(prog, lib_, lib_[s.fn])
            why = discharged(s, table, home)
            rule = "C14.escape:%s" % s.exc.replace(E, "ecdsa.").split(".")[-1] if "|" not in s.exc else "C14.escape:%s" % s.exc
            if why:
                chk.ok(rule, home, s.construct, s.where, "discharged: " + why)
                continue
            chain = " => ".join(x.split(" -> ")[-1].split(".")[-1] for x in s.chain[-4:])
            chk.fail(rule, home, s.construct, s.where, "%s can escape %s%s" % (s.exc, q.split(".")[-2] + "." + q.split(".")[-1], (" via " + chain) if chain else ""))
        chk.ok("C14.entry-analysed", q, "%d escaping (class, construct) pairs" % len(escs), "%s:%d" % (fi.file, fi.lineno), "entry point interpreted; allowed escapes: FormatError / ValueError / OSError families")
    # user-supplied decryptor lists may mix encryptor kinds: the selector filter must not see foreign kinds (AttributeError)
    from rules import bec2

    bec2.selector_rules(prog, chk, "C14")
    chk.info["implicit_raiser_sites_examined"] = an.sites_examined
    chk.info["implicit_raiser_sites_discharged_by_facts"] = an.sites_discharged
    chk.info["functions_analysed"] = len(an.functions_analysed)
    chk.info["allowed_escapes"] = total_allowed
    chk.info["unresolved_calls"] = an.unresolved[:20]
    typed_union_rule(prog, chk, "C14")
    mac_input_rule(prog, chk, "C14", an)
    regex_backtracking_rule(prog, chk, "C14")
    optional_use_rule(prog, chk, "C14")
    termination_rule(prog, chk, "C14", an)
    chk.require(not an.global_writes, "C14.no-global-writes", "reachable from the parser entry points", "stores to module globals / registry / module-level containers", an.global_writes[0][0] if an.global_writes else "",
                "no function reachable from a parser writes library-global state (the register_* functions are the only writers and are unreachable)", "global state is written by %s" % (an.global_writes[:3],))
    chk.assume("ECDH key agreement (ECDH.load_*_der / generate_sharedsecret_bytes) on validated same-curve keys does not raise")
    chk.assume("escapes of VerifyingKey.from_der / SigningKey.from_der are those established by the C19 analysis")
    chk.assume("TypeError / AttributeError from dynamic typing outside the BF2 tagged union, MemoryError and RecursionError are not modelled")
