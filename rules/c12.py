"""C12 -- configuration identifiers match the config and their text form round-trips.

Decided statically: format-string <-> regex correspondence for both text forms (widths, separators, group -> keyword);
every field the constructor may set to None is guarded or mapped back before a numeric format spec; both patterns match
the whole text; lookups of naming values are converted to the documented errors; ordered alternatives of the parser are
checked for overlap on the printers' output languages (known ambiguity).  Not decided: exhaustive numeric ranges."""
from __future__ import annotations

import re

from bfsa import regexfmt
from bfsa.guard import dominates, raise_rel, rel, show_rel, unsnap
from bfsa.layout import is_call_named, meth_call, builtin_call
from bfsa.load import AnalysisError, NotConst
from bfsa.symexec import Exec
from bfsa.terms import C, NONE, Term, cval, is_const, mk, show, subterms
from bfsa.types import type_of

from rules.bf3 import _self_attr
from rules import stackrt

LEVEL = "other"
CID = "bec2format.configid"


def pol(ex, fi, depth):
    return fi.module.name == CID and depth < 6


def _alts(t: Term):
    t = unsnap(t)
    if t.op == "phi":
        return _alts(t.args[1]) + _alts(t.args[2])
    return [t]


def printers(prog):
    """[(format string, kwargs terms, suffix term|None, frames)] for the two arms of __str__"""
    fi = prog.method(CID + ".ConfigId", "__str__")
    ex = Exec(prog, policy=pol)
    res = ex.run(fi)
    fmts = [e for e in res.events if e.kind == "mcall" and e.d["name"] == "format"]
    # an f-string is the same thing as TEMPLATE.format(**values): rewrite it into that form so that the rules see one kind of printer
    seen = set()
    for e in res.events:
        if e.kind != "return":
            continue
        for t in subterms(e.d["value"]):
            if t.op == "fstr" and t.uid not in seen:
                seen.add(t.uid)
                tmpl, kw = "", {}
                for part in t.args[0]:
                    if is_const(part):
                        tmpl += str(cval(part)).replace("{", "{{").replace("}", "}}")
                    else:
                        k = "v%d" % len(kw)
                        kw[k] = part.args[0]
                        spec = cval(part.args[1]) if is_const(part.args[1]) else "?"
                        tmpl += "{%s%s}" % (k, (":" + spec) if spec else "")
                fmts.append(_FStr(C(tmpl), kw, e.where))
            elif t.op == "join" and t.uid not in seen and is_const(t.args[0]) and isinstance(cval(t.args[0]), str) and unsnap(t.args[1]).op == "tuple":
                # SEP.join((format(v0, SPEC0), format(v1, SPEC1), ...)) with constant specs is "{v0:SPEC0}SEP{v1:SPEC1}...".format(...) as well
                seen.add(t.uid)
                parts, kw = [], {}
                for it in unsnap(t.args[1]).args[0]:
                    it = unsnap(it)
                    if is_const(it) and isinstance(cval(it), str):
                        parts.append(cval(it).replace("{", "{{").replace("}", "}}"))
                    elif (builtin_call(it) or ("",))[0] == "format" and len(it.args[1]) == 2 and not it.args[2] and is_const(it.args[1][1]) and isinstance(cval(it.args[1][1]), str):
                        v_ = it.args[1][0]
                        k = _attr_name(v_) if _attr_name(v_) and _attr_name(v_) not in kw else "v%d" % len(kw)
                        kw[k] = v_
                        parts.append("{%s%s}" % (k, (":" + cval(it.args[1][1])) if cval(it.args[1][1]) else ""))
                    else:
                        parts = None
                        break
                if parts:
                    fs_ = _FStr(C(cval(t.args[0]).replace("{", "{{").replace("}", "}}").join(parts)), kw, e.where)
                    fs_.d["result"] = t
                    fs_.ctx, fs_.facts, fs_.uid = e.ctx, e.facts, e.uid
                    fmts.append(fs_)
    return fi, ex, res, fmts


class _FStr:
    """an f-string presented as the event of an equivalent TEMPLATE.format(**kwargs) call"""

    kind = "mcall"

    def __init__(self, template: Term, kwargs, where):
        self.d = {"name": "format", "recv": template, "args": (), "kwargs": kwargs, "result": None}
        self.where = where
        self.ctx = ()
        self.facts = ()
        self.uid = -1


def parser(prog):
    fi = prog.method(CID + ".ConfigId", "create_from_str")
    ex = Exec(prog, policy=pol)
    res = ex.run(fi)
    return fi, ex, res


def _group_of(t: Term):
    """(match term, group index, wrapper) for int(m.group(i)) / str(m.group(i)) / m.group(i)"""
    t = unsnap(t)
    wrap = None
    bc = builtin_call(t)
    if bc and bc[0] in ("int", "str") and len(bc[1]) == 1:
        wrap = bc[0]
        t = unsnap(bc[1][0])
    mc = meth_call(t)
    if mc and mc[1] == "group" and len(mc[2]) == 1 and is_const(mc[2][0]):
        return unsnap(mc[0]), cval(mc[2][0]), wrap
    return None


class _Match:
    """one application of a regular expression to the text: re.fullmatch(pattern, text) or COMPILED.fullmatch(text) with COMPILED = re.compile(pattern) at module level"""

    def __init__(self, name, pattern: Term, result: Term, where):
        self.d = {"name": name, "args": (pattern,), "result": result}
        self.where = where


def _compiled_pattern(prog, modname: str, name: str):
    """the constant pattern of a module-level `name = re.compile(<constant>)` (no flags, bound once, never written by a function)"""
    import ast as _ast

    m = prog.module(modname)
    defs = [n for n in m.tree.body if isinstance(n, (_ast.Assign, _ast.AnnAssign)) and any(isinstance(t, _ast.Name) and t.id == name for t in (n.targets if isinstance(n, _ast.Assign) else [n.target]))]
    if len(defs) != 1 or m.global_writers.get(name):
        return None
    v = defs[0].value
    if not (isinstance(v, _ast.Call) and isinstance(v.func, _ast.Attribute) and v.func.attr == "compile" and isinstance(v.func.value, _ast.Name) and v.func.value.id == "re" and len(v.args) == 1 and not v.keywords):
        return None
    try:
        pat = prog.fold(m, v.args[0])
    except Exception:
        return None
    return pat if isinstance(pat, str) else None


def _match_events(prog, res):
    out = []
    for e in res.events:
        if e.kind == "extcall" and e.d["name"] in ("re.match", "re.fullmatch", "re.search"):
            out.append(_Match(e.d["name"], e.d["args"][0], e.d["result"], e.where))
        elif e.kind == "mcall" and e.d["name"] in ("match", "fullmatch", "search") and unsnap(e.d["recv"]).op == "global":
            pat = _compiled_pattern(prog, *unsnap(e.d["recv"]).args[:2])
            if pat is not None:
                out.append(_Match("re." + e.d["name"], C(pat), e.d["result"], e.where))
    return out


def correspondence_rules(prog, chk, pid):
    P = lambda s: "%s.%s" % (pid, s)
    fi_s, exs, ress, fmts = printers(prog)
    fi_p, exp, resp = parser(prog)
    where_s = "%s:%d" % (fi_s.file, fi_s.lineno)
    where_p = "%s:%d" % (fi_p.file, fi_p.lineno)
    matches = _match_events(prog, resp)
    news = [e for e in resp.events if e.kind == "new" and e.d["cls"].name == "ConfigId"]
    if len(news) == 1:
        # one construction whose arguments are conditional values under one condition: the two constructions it stands for
        from rules.bf3 import split_conditional_news

        news = split_conditional_news(news)
    if len(matches) != 2 or len(news) != 2 or len(fmts) != 2:
        chk.fail(P("two-text-forms"), fi_p.qualname, "two patterns / two printers", where_p, "expected two regular expressions, two constructions and two format calls (found %d/%d/%d)" % (len(matches), len(news), len(fmts)))
        return None
    chk.ok(P("two-text-forms"), fi_p.qualname, "two patterns, tried in order; two printer arms", where_p, "parser and printer each have the numeric-scheme form and the name-only form")
    params = prog.method(CID + ".ConfigId", "__init__").params[1:]
    result = {}
    for k, (m, nw) in enumerate(zip(matches, news)):
        pat = cval(m.d["args"][0]) if is_const(m.d["args"][0]) else None
        if pat is None:
            raise AnalysisError("pattern %d is not a constant" % k)
        try:
            ritems = regexfmt.regex_items(pat)
        except regexfmt.NotSupported as e:
            raise AnalysisError("pattern %r not analysable: %s" % (pat, e))
        kw = dict(zip(params, nw.d["args"]))
        kw.update(nw.d["kwargs"])
        groups = {}
        for name, t in kw.items():
            g = _group_of(t)
            if g is not None and g[0] is unsnap(m.d["result"]):
                groups[name] = (g[1], g[2])
            elif unsnap(t) is NONE or (is_const(t) and cval(t) is None):
                groups[name] = (None, None)
            else:
                groups[name] = ("?", show(t, 3))
        result[k] = (pat, ritems, groups, m, nw)
    # ---- printer 1 (numeric scheme)
    f1 = [e for e in fmts if len(_alts(e.d["recv"])) == 2 or "customer" in show(e.d["recv"], 3)]
    f2 = [e for e in fmts if e not in f1]
    if len(f1) != 1 or len(f2) != 1:
        raise AnalysisError("cannot tell the two printer arms apart")
    f1, f2 = f1[0], f2[0]
    pat1, r1, g1, m1, n1 = result[0]
    pat2, r2, g2, m2, n2 = result[1]
    attr_of_kw = {}
    for kwname, t in f1.d["kwargs"].items():
        attr_of_kw[kwname] = _attr_name(t)
    ok, why = True, ""
    for fmt_t in _alts(f1.d["recv"]):
        if not is_const(fmt_t):
            ok, why = False, "format template is not a constant"
            break
        try:
            fitems = regexfmt.format_items(cval(fmt_t))
        except regexfmt.NotSupported as e:
            ok, why = False, "format template %r not analysable: %s" % (cval(fmt_t), e)
            break
        mand = [x for x in r1 if x[0] not in ("opt", "at")]
        # align: a printed literal may span several parsed items (e.g. "-0000-" over '-', \d{4}, '-')
        fq = list(fitems)
        for ri in mand:
            if not fq:
                ok, why = False, "template %r ends before pattern item %s" % (cval(fmt_t), ri[:3])
                break
            fi_ = fq[0]
            if ri[0] == "lit":
                if fi_[0] == "lit" and fi_[1].startswith(ri[1]):
                    rest = fi_[1][len(ri[1]):]
                    fq[0:1] = [("lit", rest)] if rest else []
                else:
                    ok, why = False, "separator %r is parsed where %s is printed" % (ri[1], fi_[:3])
            elif ri[0] == "num":
                if fi_[0] == "num":
                    if fi_[1] != ri[1] or not fi_[3]:
                        ok, why = False, "field {%s} is printed with %d%s digits, parsed with exactly %d" % (fi_[2], fi_[1], " zero-padded" if fi_[3] else " (not zero-padded)", ri[1])
                    else:
                        attr = attr_of_kw.get(fi_[2])
                        back = [a for a, (gi, w) in g1.items() if gi == ri[2]]
                        if attr is None or back != [attr] or g1[attr][1] != "int":
                            ok, why = False, "group %s is stored into %s, but that position prints attribute %s" % (ri[2], back, attr)
                    fq.pop(0)
                elif fi_[0] == "lit" and len(fi_[1]) >= ri[1] and fi_[1][:ri[1]].isdigit():
                    digits = fi_[1][:ri[1]]
                    rest = fi_[1][ri[1]:]
                    fq[0:1] = [("lit", rest)] if rest else []
                    back = [a for a, (gi, w) in g1.items() if gi == ri[2]]
                    recv = unsnap(f1.d["recv"])
                    good = False
                    if recv.op == "phi":
                        r = rel(recv.args[0], True)
                        if r[0] == "rel" and r[1] == "Eq":
                            for x, y in ((r[2], r[3]), (r[3], r[2])):
                                if is_const(y) and cval(y) == int(digits) and back and _attr_name(x) == back[0] and unsnap(recv.args[1]) is fmt_t:
                                    good = True
                    if not good:
                        ok, why = False, "literal %r is not printed exactly when attribute %s == %d" % (digits, back, int(digits))
                else:
                    ok, why = False, "%d digits are parsed where %s is printed" % (ri[1], fi_[:3])
            else:
                ok, why = False, "pattern item %s has no printed counterpart" % (ri[:3],)
            if not ok:
                break
        if ok and fq:
            ok, why = False, "template %r prints %s after the last parsed item" % (cval(fmt_t), fq[0][:3])
        if not ok:
            break
    # optional name suffix: " " + name  <->  ( (.*))?
    if ok:
        opt = [x for x in r1 if x[0] == "opt"]
        rets = [e for e in ress.events if e.kind == "return" and e.stack == (fi_s.qualname,)]
        suffix_ok = False

        def concat_alts(t):
            """[(conditions, parts)]: the ways the string `t` is put together (conditional values expanded, '+' flattened, '' dropped)"""
            t = unsnap(t)
            if t.op == "phi":
                c, x, y = t.args
                return [(cs + [(c, True)], ps) for cs, ps in concat_alts(x)] + [(cs + [(c, False)], ps) for cs, ps in concat_alts(y)]
            if t.op == "bin" and t.args[0] == "Add":
                return [(c1 + c2, p1 + p2) for c1, p1 in concat_alts(t.args[1]) for c2, p2 in concat_alts(t.args[2])]
            if is_const(t) and cval(t) == "":
                return [([], [])]
            return [([], [t])]

        fres = unsnap(f1.d["result"])
        for r in rets:
            alts = [(cs, ps) for cs, ps in concat_alts(r.d["value"]) if ps and ps[0] is fres]
            with_name = [(cs, ps) for cs, ps in alts if len(ps) == 3 and is_const(ps[1]) and _self_attr(ps[2], "name")]
            bare = [(cs, ps) for cs, ps in alts if len(ps) == 1]
            if len(alts) == 2 and len(with_name) == 1 and len(bare) == 1:
                # the name is appended exactly when it is truthy
                def name_truth(cs):
                    vals = set()
                    for c, pol in cs:
                        r_ = rel(c, pol)
                        if r_[0] == "rel" and r_[1] in ("Truthy", "Falsy") and _self_attr(r_[2], "name"):
                            vals.add(r_[1])
                    return vals
                if name_truth(with_name[0][0]) == {"Truthy"} and name_truth(bare[0][0]) == {"Falsy"}:
                    lead = cval(with_name[0][1][1])
                    if len(opt) == 1 and len(opt[0][1]) == 2 and opt[0][1][0] == ("lit", lead) and opt[0][1][1][0] == "any":
                        name_group = opt[0][1][1][1]
                        suffix_ok = g1.get("name") == (name_group, None)
        ok, why = suffix_ok, "optional name suffix ' ' + name does not correspond to the pattern's optional group / name keyword"
    chk.require(ok, P("numeric-form-roundtrip"), fi_s.qualname + " <-> " + fi_p.qualname, "%s <-> %s" % ("{customer:05}-{projectId:04}-{device:04}-{version:02}[ name]", pat1), where_s,
                "the numeric-scheme text form is printed and parsed with the same field widths, separators and field order; every group feeds the attribute printed at its position", why)
    # ---- printer 2 (name only)
    ok, why = is_const(f2.d["recv"]), "template not constant"
    if ok:
        fitems = regexfmt.format_items(cval(f2.d["recv"]))
        mand = [x for x in r2 if x[0] != "at"]
        ok = len(fitems) == len(mand)
        why = "template %r vs pattern %r differ in structure" % (cval(f2.d["recv"]), pat2)
        if ok:
            akw = {k: _attr_name(t) for k, t in f2.d["kwargs"].items()}
            for fi_, ri in zip(fitems, mand):
                if fi_[0] == "lit" and ri[0] == "lit" and fi_[1] == ri[1]:
                    continue
                if fi_[0] == "num" and ri[0] == "num" and fi_[1] == ri[1] and fi_[3] and g2.get(akw.get(fi_[2])) == (ri[2], "int"):
                    continue
                if fi_[0] == "any" and ri[0] == "any" and g2.get(akw.get(fi_[1]), (None,))[0] == ri[1]:
                    continue
                ok, why = False, "printed item %s does not correspond to parsed item %s" % (fi_[:3], ri[:3])
                break
        if ok:
            ok = all(g2.get(a) == (None, None) for a in ("customer", "project", "device"))
            why = "name-only form does not leave customer/project/device unset"
    chk.require(ok, P("name-form-roundtrip"), fi_s.qualname + " <-> " + fi_p.qualname, "{name} (version {version:02}) <-> %s" % pat2, where_s, "the name-only text form is printed and parsed with the same structure", why)
    # ---- whole-string matching
    for k in (0, 1):
        pat, items, groups, m, nw = result[k]
        anchored = m.d["name"] == "re.fullmatch" or regexfmt.is_end_anchored(pat)
        chk.require(anchored, P("whole-text-matched"), fi_p.qualname, "%s(%r, text)" % (m.d["name"], pat), m.where, "the pattern must match the whole text (fullmatch / end anchor): text with trailing garbage raises the format error", "pattern is applied with %s and no end anchor: trailing text after a valid identifier is silently dropped" % m.d["name"])
    # ---- final else raises the documented error
    from bfsa.symexec import _is_new_function as _newf

    # (raised by the parser itself or by a helper carved out of it: frames below the parser belong to functions that did not exist on the pinned tree)
    raises = [e for e in resp.events if e.kind == "raise" and (len(e.stack) == 1 or all(q in prog.funcs and _newf(prog.funcs[q]) for q in e.stack[1:]))]
    chk.require(len(raises) == 1 and str(raises[0].d["exc"]).endswith("ConfigIdFormatError") and all(f[2] is False for f in raises[0].ctx if f[0] == "if") and not any(f[0] in ("loop", "try", "except", "tryelse") for f in raises[0].ctx), P("unparsable-raises-format-error"), fi_p.qualname, "else: raise ConfigIdFormatError", raises[0].where if raises else where_p, "text matching neither form raises ConfigIdFormatError", "text matching neither form does not raise ConfigIdFormatError")
    return result, f1, f2


def _attr_name(t: Term):
    """attribute of self a printed value derives from (through `UNKNOWN if x is None else x`)"""
    t = unsnap(t)
    for x in _alts(t):
        x = unsnap(x)
        if x.op == "attr" and unsnap(x.args[0]).op in ("param", "ref") or (x.op == "attr"):
            return x.args[1]
    return None


def nullable_rules(prog, chk, pid):
    """every attribute the constructor may set to None must not reach a numeric format spec as None"""
    P = lambda s: "%s.%s" % (pid, s)
    fi_i = prog.method(CID + ".ConfigId", "__init__")
    exi = Exec(prog, policy=pol)
    ri = exi.run(fi_i)
    nullable = set()
    for e in ri.events:
        if e.kind == "setattr":
            if any(unsnap(x) is NONE for x in _alts(e.d["value"])):
                nullable.add(e.d["name"])
    unknown = prog.fold_name(prog.module(CID), "UNKNOWN")
    chk.require(unknown == 9999 and nullable == {"customer", "project", "device"}, P("unknown-code"), fi_i.qualname, "UNKNOWN == 9999 maps to None for customer, project, device", "%s:%d" % (fi_i.file, fi_i.lineno), "the 'unknown' code and the attributes it applies to", "UNKNOWN=%r nullable=%s" % (unknown, sorted(nullable)))
    fi_s, exs, ress, fmts = printers(prog)
    for f in fmts:
        for fmt_t in _alts(f.d["recv"]):
            if not is_const(fmt_t):
                continue
            for it in regexfmt.format_items(cval(fmt_t)):
                if it[0] != "num":
                    continue
                v = unsnap(f.d["kwargs"].get(it[2], NONE))
                for alt in _alts(v):
                    alt = unsnap(alt)
                    if alt.op == "attr" and alt.args[1] in nullable:
                        # is `alt is not None` known on this path?  (phi arms carry their own condition)
                        protected = _not_none_known(f, v, alt)
                        chk.require(protected, P("nullable-before-numeric-format"), fi_s.qualname.replace("__str__", "cfgid_str"), "{%s:%s} <- self.%s" % (it[2], "0%d" % it[1], alt.args[1]), f.where,
                                    "attribute %s (None when unknown) is guarded or mapped back to the code before being formatted as a number" % alt.args[1],
                                    "self.%s may be None here (e.g. ConfigId(12345, 1, 9999, 1, None)): formatting None with a numeric spec raises TypeError" % alt.args[1])


def _not_none_known(fmt_event, value: Term, attr: Term) -> bool:
    # (a) a path fact `attr is not None`
    for (f, pol_) in fmt_event.facts:
        r = rel(f, pol_)
        if r[0] == "rel" and r[1] == "IsNot" and ((unsnap(r[2]) is attr and r[3] is NONE) or (unsnap(r[3]) is attr and r[2] is NONE)):
            return True
        if r[0] == "rel" and r[1] == "Eq" and any(unsnap(x) is attr for x in (r[2], r[3])) and any(is_const(x) and isinstance(cval(x), int) for x in (r[2], r[3])):
            return True
    # (b) the value is `X if attr is None else attr`
    def mapped(v) -> bool:
        v = unsnap(v)
        if v.op != "phi":
            return v is not attr
        r = rel(v.args[0], True)
        if r[0] == "rel" and r[1] in ("Is", "IsNot") and ((unsnap(r[2]) is attr and r[3] is NONE) or (unsnap(r[3]) is attr and r[2] is NONE)):
            none_arm, other = (v.args[1], v.args[2]) if r[1] == "Is" else (v.args[2], v.args[1])
            return (unsnap(other) is attr or mapped(other)) and not any(unsnap(x) is attr for x in _alts(none_arm))
        # a selection on something else: each arm on its own
        return mapped(v.args[1]) and mapped(v.args[2])

    v = unsnap(value)
    if v.op == "phi":
        return mapped(v)
    return False


def naming_lookup_rules(prog, chk, pid):
    """create_from_prj_settings / create_from_dev_settings: missing naming values -> documented errors"""
    P = lambda s: "%s.%s" % (pid, s)
    for name, err, ver_key, name_key in (("create_from_prj_settings", "MissingProjectSettingsNameError", (0x620, 0x07), (0x620, 0x06)), ("create_from_dev_settings", "MissingDeviceSettingsNameError", (0x620, 0x04), (0x620, 0x03))):
        fi = prog.method(CID + ".ConfigId", name)
        # module-level / private helpers of configid (an extracted "read one numeric value" step, say) are interpreted as part of the constructor
        ex = Exec(prog, policy=lambda e, f, d: f.module.name == CID and (f.cls is None or f.name.startswith("_")) and not f.name.startswith("__") and d < 3)
        res = ex.run(fi)
        where = "%s:%d" % (fi.file, fi.lineno)
        subs = [e for e in res.events if e.kind == "subscript" and unsnap(e.d["base"]).op == "param"]
        bad = []
        for s in subs:
            tr = [f for f in s.ctx if f[0] == "try" and any("KeyError" in h for h in f[2])]
            guarded = any(f[0] == "if" and f[2] and rel(f[1], True)[1] == "In" for f in s.ctx)
            if not tr and not guarded:
                bad.append(s)
        # handlers for KeyError either raise the documented error or fall back to the name-only form
        hends = [e for e in res.events if e.kind == "handler_end" and "KeyError" in e.d["classes"]]
        raises = [e for e in res.events if e.kind == "raise" and any(f[0] == "except" for f in e.ctx)]
        ok = not bad and len(hends) == 2 and all(str(r.d["exc"]).endswith(err) for r in raises) and len(raises) == 2
        chk.require(ok, P("naming-lookups"), fi.qualname, "config[...] lookups under try/except KeyError -> %s" % err, where, "a missing version raises the documented error; a missing customer/project falls back to the name-only form and requires a name", "a naming value is looked up outside the KeyError conversion, or the handler raises another error")
        # version comes from the documented key
        news = [e for e in res.events if e.kind == "new"]
        rets = [e for e in res.events if e.kind == "return" and e.stack == (fi.qualname,)]
        keys = sorted({cval(unsnap(s.d["index"])) for s in subs if is_const(unsnap(s.d["index"]))} | {tuple(cval(x) for x in unsnap(s.d["index"]).args[0]) for s in subs if unsnap(s.d["index"]).op == "tuple" and all(is_const(x) for x in unsnap(s.d["index"]).args[0])})
        chk.require(ver_key in keys and name_key in keys and (0x620, 0x01) in keys, P("naming-keys"), fi.qualname, "version %s, name %s, customer (0x620, 0x01)" % (ver_key, name_key), where, "identifier fields are taken from the documented 0x0620 naming values", "naming keys used are %s" % (keys,))


def ambiguity_rule(prog, chk, pid, result):
    """ordered alternatives must be disjoint on what the printers emit; the name-only printer can emit text that the
    numeric pattern (tried first) accepts -> such an identifier does not round-trip (inherent to the text format)"""
    (pat1, r1, g1, m1, n1), (pat2, r2, g2, m2, n2) = result[0], result[1]
    mand = [x for x in r1 if x[0] not in ("opt", "at")]
    head = regexfmt.sample(mand)
    name = head + " x"
    printed = "%s (version %02d)" % (name, 1)
    first = re.fullmatch(pat1, printed) if m1.d["name"] == "re.fullmatch" else re.match(pat1, printed)
    if first is not None:
        chk.fail("%s.alternatives-disjoint" % pid, "bec2format.configid.ConfigId.create_from_str", "name-only text %r is accepted by the numeric pattern tried first" % printed, m1.where,
                 "a name-only identifier whose name looks like a numeric identifier (name %r) prints as %r and parses back as a numeric-scheme identifier: print/parse round trip fails; the two text forms overlap" % (name, printed))
    else:
        chk.ok("%s.alternatives-disjoint" % pid, "bec2format.configid.ConfigId.create_from_str", "printer-2 language vs pattern 1", m1.where, "no overlap witness")


def eq_rule(prog, chk, pid):
    fi = prog.method(CID + ".ConfigId", "__eq__")
    ex = Exec(prog, policy=lambda e, f, d: False)
    res = ex.run(fi)
    s = " ".join(show(e.d["value"], 8) for e in res.events if e.kind == "return")
    ok = all(("self.%s == other.%s" % (a, a)) in s or ("other.%s == self.%s" % (a, a)) in s for a in ("customer", "project", "device", "version", "name"))
    chk.require(ok, "%s.equality-all-fields" % pid, fi.qualname, "customer, project, device, version, name all compared", "%s:%d" % (fi.file, fi.lineno), "two identifiers are equal exactly when all five fields are equal", "equality ignores a field")


def naming_scenarios(prog, chk, pid, tier):
    """create_from_prj_settings / create_from_dev_settings on EVERY subset of the 0x0620 naming values: which keys are present and
    how wide each value is are enumerated, the numeric values are symbolic byte strings; interpreted in concrete-control mode.
    The result must be, as terms: each numeric field = big-endian integer of exactly its own naming value, mapped to None when it
    equals the 'unknown' code 9999; device 0 when absent; the name-only form / the documented error as the property states."""
    import itertools

    from bfsa.exprs import sbytes
    from rules import stackrt as R

    P = lambda s: "%s.%s" % (pid, s)
    stk = R.Stack(prog)
    CID = "bec2format.configid"
    unknown = prog.fold(prog.module(CID), prog.module(CID).symbols["UNKNOWN"]) if False else 9999
    kinds = {
        "prj": ("create_from_prj_settings", {"customer": 0x01, "project": 0x05, "device": 0x02, "name": 0x06, "version": 0x07}, "MissingProjectSettingsNameError"),
        "dev": ("create_from_dev_settings", {"customer": 0x01, "device": 0x02, "name": 0x03, "version": 0x04}, "MissingDeviceSettingsNameError"),
    }
    widths = {"customer": (2, 4), "project": (2, 1), "device": (2,), "version": (1, 2)}

    def num(bs):
        return mk("call", mk("builtin", "int.from_bytes"), (sbytes(bs), C("big")), (), 0)

    def field_ok(got, bs):
        """got == int(bs), or the same with the unknown code mapped to None"""
        got = unsnap(got)
        x = num(bs)
        if got is x:
            return True
        if got.op == "phi" and unsnap(got.args[1]) is x and unsnap(got.args[2]) is NONE:
            c = unsnap(got.args[0])
            return c.op == "cmp" and c.args[0] == "NotEq" and {unsnap(c.args[1]).uid, unsnap(c.args[2]).uid} == {x.uid, C(unknown).uid}
        return False

    for kind, (meth, keys, err) in kinds.items():
        fi = prog.method(CID + ".ConfigId", meth)
        bad = None
        n = 0
        fields = list(keys)
        for r in range(len(fields) + 1):
            for subset in itertools.combinations(fields, r):
                wsets = [widths[f] if (tier == "thorough" or f == "customer") else widths[f][:1] for f in subset if f != "name"]
                for wcombo in itertools.product(*wsets):
                    n += 1
                    wmap = dict(zip([f for f in subset if f != "name"], wcombo))
                    vals = {f: R.syms(f[:2], w) for f, w in wmap.items()}
                    args = {f[:2]: sbytes(v) for f, v in vals.items()}
                    items = ", ".join("(0x620, 0x%02x): %s" % (keys[f], "b'Testname'" if f == "name" else f[:2]) for f in subset)
                    src = "def drv(%s):\n    c = ConfigId.%s({%s})\n    return (c.customer, c.project, c.device, c.version, c.name)\n" % (", ".join(sorted(args)), meth, items)
                    ex, res = stk.run(CID, src, args)
                    has = lambda f: f in subset
                    if not has("version"):
                        want = "raise"
                    else:
                        complete = has("customer") and (kind == "dev" or has("project"))
                        want = "numeric" if complete else ("name-only" if has("name") else "raise")
                    why = None
                    if want == "raise":
                        exc = str(ex._dead[1]).rsplit(".", 1)[-1] if (res.dead and ex._dead) else None
                        if exc != err:
                            why = "expected %s, got %s" % (err, exc if res.dead else "a value")
                    elif res.dead or res.ret is None or unsnap(res.ret).op != "tuple":
                        why = "raises %s" % (ex._dead[1] if ex._dead else "?")
                    else:
                        cu, pr, de, ve, na = unsnap(res.ret).args[0]
                        okn = (is_const(na) and cval(na) == "Testname") if has("name") else unsnap(na) is NONE
                        okv = unsnap(ve) is num(vals["version"])
                        if want == "numeric":
                            okc = field_ok(cu, vals["customer"])
                            okp = field_ok(pr, vals["project"]) if kind == "prj" else (is_const(pr) and cval(pr) == 0)
                            okd = field_ok(de, vals["device"]) if has("device") else (is_const(de) and cval(de) == 0)
                        else:
                            okc, okp, okd = (unsnap(cu) is NONE, unsnap(pr) is NONE, unsnap(de) is NONE)
                        if not (okn and okv and okc and okp and okd):
                            why = "%s form expected; fields (customer, project, device, version, name) correct: %s; got %s" % (want, (okc, okp, okd, okv, okn), [show(x, 4)[:50] for x in (cu, pr, de, ve, na)])
                    if why and bad is None:
                        bad = (sorted(subset), why)
        chk.require(bad is None, P("naming-subsets"), fi.qualname, "%d configurations: every subset of {%s}, several byte widths, symbolic values" % (n, ", ".join(fields)), "%s:%d" % (fi.file, fi.lineno),
                    "for every subset of naming values the identifier denotes exactly the given values (each field the integer of its own naming value, 9999 mapped to None, device 0 when absent), falls back to the name-only form when customer%s is missing, and raises %s when the version or a required name is missing" % ("/project" if kind == "prj" else "", err),
                    "naming values %s: %s" % bad if bad else "")


def run(prog, chk, tier):
    chk.explanation = ("The printers' str.format templates and the parser's regular expressions are parsed (string.Formatter / re's own parser) into item sequences and compared "
                       "item by item: widths, zero padding, separators, and -- through the constructor keywords -- which group feeds which printed attribute; the optional "
                       "name suffix corresponds to the optional group; both patterns must match the whole text; attributes the constructor may set to None (unknown code 9999) "
                       "must be guarded or mapped back before a numeric format spec; naming-value lookups are converted to the documented errors; the overlap of the two text "
                       "forms is checked with a witness built from the pattern itself. Numeric ranges are not enumerated.")
    r = correspondence_rules(prog, chk, "C12")
    nullable_rules(prog, chk, "C12")
    naming_lookup_rules(prog, chk, "C12")
    stackrt.guarded(chk, "C12.naming-scenarios", naming_scenarios, prog, chk, "C12", tier)
    eq_rule(prog, chk, "C12")
    if r is not None:
        ambiguity_rule(prog, chk, "C12", r[0])
    chk.assume("names are single-line text without leading/trailing restrictions beyond the property's quantifier")
