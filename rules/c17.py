"""C17 -- elliptic-curve arithmetic, ECDH and public-point validation.

Decided statically:
 R1 GUARD   public-point validation guards (reused from C09), ECDH guards (keys present, curves equal, result not infinity,
            curve mismatch on load), sqrt failure converted in the compressed decoder.
 R3 SIBLING the four addition variants each test for the doubling case before the generic formula; the dispatcher covers
            both infinity operands and the Z-shape cases; results with Y3 = 0 or Z3 = 0 are mapped to INFINITY.
 R4 CONST   for the 17 short-Weierstrass curves the literals satisfy (checker's own arithmetic): p prime, n prime, G on the
            curve, n*G = infinity, cofactor consistent with Hasse's bound.
 R6 CANON   interval analysis in units of p: every zero / equality test that decides a field-element condition in the Jacobian
            formulas is applied to a value whose range lies strictly inside (-p, p); formula outputs are reduced.
 R5 POLY    the six formula functions equal the chord/tangent formulas as polynomial identities.
Not decided: agreement with OpenSSL, enumeration of small groups, ECDH value equality."""
from __future__ import annotations

import ast
from fractions import Fraction
from typing import Dict, Optional, Tuple

from bfsa import constaudit as ca
from bfsa.guard import atoms, disjuncts, dominates, raise_rel, rel, show_rel, unsnap
from bfsa.layout import builtin_call, is_call_named, meth_call
from bfsa.load import AnalysisError, NotConst
from bfsa.heap import Unsupported
from bfsa.symexec import Exec
from bfsa.terms import C, NONE, Term, cval, is_const, mk, show, subterms

from rules import c09

LEVEL = "other"
E = "register_crypto_plugin.ecdsa."
PJ = E + "ellipticcurve.PointJacobi"
FORMULAS = ["_double_with_z_1", "_double", "_add_with_z_1", "_add_with_z_eq", "_add_with_z2_1", "_add_with_z_ne"]


# ------------------------------------------------------------------------------------------------ R4 curve constants
def curve_literals(prog):
    """sequential constant folding of ecdsa.py's module body: curve name -> (p, a, b, h, Gx, Gy, n)"""
    m = prog.module(E + "ecdsa")
    env: Dict[str, object] = {}
    curves = {}
    gens = {}
    for st in prog.live_body(m, m.tree.body):
        if not isinstance(st, ast.Assign) or len(st.targets) != 1 or not isinstance(st.targets[0], ast.Name):
            continue
        name = st.targets[0].id
        v = st.value
        if isinstance(v, ast.Call) and isinstance(v.func, ast.Attribute) and v.func.attr == "CurveFp":
            try:
                args = [prog.fold(m, a, env=env) for a in v.args]
            except NotConst:
                raise AnalysisError("curve parameters of %s are not constant" % name)
            curves[name] = args
            env[name] = ("curve", name)
        elif isinstance(v, ast.Call) and isinstance(v.func, ast.Attribute) and v.func.attr == "PointJacobi":
            cname = v.args[0].id if isinstance(v.args[0], ast.Name) else None
            try:
                args = [prog.fold(m, a, env=env) for a in v.args[1:]]
            except NotConst:
                raise AnalysisError("generator parameters of %s are not constant" % name)
            gens[name] = (cname, args, {k.arg: prog.try_fold(m, k.value, env=env) for k in v.keywords})
        else:
            try:
                env[name] = prog.fold(m, v, env=env)
            except NotConst:
                pass
    out = {}
    for gname, (cname, gargs, kw) in gens.items():
        if cname in curves and cname.startswith("curve_") and not cname.startswith("curve_ed"):
            cp = curves[cname]
            if len(cp) < 3 or len(gargs) < 4:
                continue
            out[cname[len("curve_"):]] = dict(p=cp[0], a=cp[1], b=cp[2], h=(cp[3] if len(cp) > 3 else None), Gx=gargs[0], Gy=gargs[1], z=gargs[2], n=gargs[3], generator=kw.get("generator"))
    return out


def const_rules(prog, chk, pid, tier):
    P = lambda s: "%s.%s" % (pid, s)
    cs = curve_literals(prog)
    chk.require(len(cs) == 17, P("curve-count"), E + "ecdsa", "%d short-Weierstrass curves with generator" % len(cs), "", "all 17 shipped short-Weierstrass curves were found", "expected 17 curves, found %d: %s" % (len(cs), sorted(cs)))
    for name, c in sorted(cs.items()):
        p, a, b, n, h = c["p"], c["a"], c["b"], c["n"], c["h"]
        why = ""
        ok = True
        if not ca.is_probable_prime(p):
            ok, why = False, "field size p is not prime"
        elif not ca.is_probable_prime(n):
            ok, why = False, "group order n is not prime"
        elif c["z"] != 1 or not ca.on_curve(p, a % p, b % p, c["Gx"], c["Gy"]):
            ok, why = False, "generator is not a point of y^2 = x^3 + a*x + b (mod p)"
        elif (4 * pow(a, 3, p) + 27 * pow(b, 2, p)) % p == 0:
            ok, why = False, "curve is singular"
        elif ca.ec_mul(p, a % p, n, (c["Gx"], c["Gy"])) is not None:
            ok, why = False, "n * G is not the point at infinity"
        else:
            hh = h if h else 1
            # Hasse: |p + 1 - h*n| <= 2*sqrt(p)
            t = p + 1 - hh * n
            if t * t > 4 * p:
                ok, why = False, "cofactor %s is inconsistent with Hasse's bound" % hh
        chk.require(ok, P("curve-constants"), E + "ecdsa.curve_" + name, "p, a, b, G, n, h of %s" % name, "", "p and n prime, non-singular, G on the curve, n*G = infinity, cofactor consistent (checker's own arithmetic on the literals)", why)
    two_torsion_rules(prog, chk, pid, cs)


def two_torsion_rules(prog, chk, pid, cs=None):
    """the library encodes the point at infinity as Y = 0 (every public operation maps Y3 = 0 to INFINITY, every operand with Y = 0 is taken for it): that is only
    sound when the curve has no affine point with y = 0, i.e. x^3 + a*x + b has no root mod p, i.e. the group has no element of order 2"""
    P = lambda s: "%s.%s" % (pid, s)
    cs = cs if cs is not None else curve_literals(prog)
    for name, c in sorted(cs.items()):
        p, a, b, h = c["p"], c["a"], c["b"], c["h"]
        if not ca.is_probable_prime(p):
            continue
        root = _cubic_has_root(p, a % p, b % p)
        chk.require(not root, P("y0-encodes-infinity"), E + "ecdsa.curve_" + name, "x^3 + a*x + b has no root mod p (%s)" % name, "",
                    "no point of the curve has y = 0, so treating Y = 0 as the point at infinity conflates nothing (gcd(x^p - x, x^3 + a*x + b) = 1, checker's own arithmetic)",
                    "the curve has a point (x0, 0) of order 2 (cofactor %s): the library takes it for the point at infinity -- T == INFINITY holds, Q + T returns Q, n*(Q + T) counts as infinity so "
                    "Q + T passes public-key validation and verifies about half of Q's signatures" % (h,))


def _cubic_has_root(p: int, a: int, b: int) -> bool:
    """does x^3 + a*x + b have a root in F_p?  gcd(x^p - x, f) has positive degree iff it does (checker's own polynomial arithmetic)"""
    f = [b % p, a % p, 0]  # x^3 = -(f0 + f1 x + f2 x^2)

    def mul(u, v):
        r = [0] * (len(u) + len(v) - 1)
        for i, x in enumerate(u):
            if x:
                for j, y in enumerate(v):
                    r[i + j] = (r[i + j] + x * y) % p
        while len(r) > 3:
            k = r.pop()
            d = len(r) - 3
            for i in range(3):
                r[d + i] = (r[d + i] - k * f[i]) % p
        return r

    res, base, e = [1], [0, 1], p
    while e:
        if e & 1:
            res = mul(res, base)
        base = mul(base, base)
        e >>= 1
    g = res + [0] * (3 - len(res))
    g[1] = (g[1] - 1) % p

    def trim(w):
        while w and w[-1] == 0:
            w = w[:-1]
        return w

    u, v = [b % p, a % p, 0, 1], trim(g)
    while v:
        while u and len(u) >= len(v):
            k = u[-1] * pow(v[-1], -1, p) % p
            d = len(u) - len(v)
            u = trim([(x - k * (v[i - d] if 0 <= i - d < len(v) else 0)) % p for i, x in enumerate(u)])
        u, v = v, u
    return len(u) > 1


# ------------------------------------------------------------------------------------------------ R6 canonicity (+ R3 sibling)
TOP = (None, None)
CANON = (Fraction(0), Fraction(1), "ro")  # [0, 1)


class Iv:
    """interval in units of p: lo < / <= v < / <= hi ; None = unbounded"""

    def __init__(self, lo, hi, lo_open=False, hi_open=True):
        self.lo, self.hi, self.lo_open, self.hi_open = lo, hi, lo_open, hi_open

    @staticmethod
    def top():
        return Iv(None, None)

    def is_top(self):
        return self.lo is None or self.hi is None

    def inside_open_unit(self) -> bool:
        """subset of (-1, 1)"""
        if self.is_top():
            return False
        lo_ok = self.lo > -1 or (self.lo == -1 and self.lo_open)
        hi_ok = self.hi < 1 or (self.hi == 1 and self.hi_open)
        return lo_ok and hi_ok

    def canonical(self) -> bool:
        """subset of [0, 1)"""
        if self.is_top():
            return False
        return (self.lo > 0 or (self.lo == 0)) and (self.hi < 1 or (self.hi == 1 and self.hi_open))

    def __repr__(self):
        if self.is_top():
            return "unbounded"
        return "%s%s, %s%s" % ("(" if self.lo_open else "[", self.lo, self.hi, ")" if self.hi_open else "]")


def iv_add(a: Iv, b: Iv) -> Iv:
    if a.is_top() or b.is_top():
        return Iv.top()
    return Iv(a.lo + b.lo, a.hi + b.hi, a.lo_open or b.lo_open, a.hi_open or b.hi_open)


def iv_neg(a: Iv) -> Iv:
    if a.is_top():
        return a
    return Iv(-a.hi, -a.lo, a.hi_open, a.lo_open)


def iv_scale(a: Iv, k: int) -> Iv:
    if a.is_top():
        return a
    if k == 0:
        return Iv(Fraction(0), Fraction(0), False, False)
    if k > 0:
        return Iv(a.lo * k, a.hi * k, a.lo_open, a.hi_open)
    return iv_neg(iv_scale(a, -k))


class Canon:
    def __init__(self, ex, param_iv: Dict[str, Iv], pname: str):
        self.ex = ex
        self.param_iv = param_iv
        self.pname = pname
        self.memo: Dict[int, Iv] = {}

    def iv(self, t: Term) -> Iv:
        t = unsnap(t)
        r = self.memo.get(t.uid)
        if r is None:
            r = self._iv(t)
            self.memo[t.uid] = r
        return r

    def _is_p(self, t: Term) -> bool:
        t = unsnap(t)
        if t.op == "param" and t.args[0] == self.pname:
            return True
        mc = meth_call(t)
        return bool(mc) and mc[1] == "p"

    def _iv(self, t: Term) -> Iv:
        if is_const(t):
            v = cval(t)
            if isinstance(v, int) and not isinstance(v, bool):
                # small literals are far inside (-p, p) for every shipped p (>= 2^112)
                if v == 0:
                    return Iv(Fraction(0), Fraction(0), False, False)
                eps = Fraction(abs(v), 2 ** 100)
                return Iv(Fraction(v, 2 ** 100) if v > 0 else -eps, eps if v > 0 else Fraction(v, 2 ** 100), False, False) if False else Iv(min(Fraction(0), Fraction(v, 2 ** 100)), max(Fraction(0), Fraction(v, 2 ** 100)), False, False)
            return Iv.top()
        if t.op == "param":
            return self.param_iv.get(t.args[0], Iv.top())
        if t.op == "bin":
            op, a, b = t.args
            if op == "Mod" and self._is_p(b):
                return Iv(Fraction(0), Fraction(1), False, True)
            if op == "Add":
                return iv_add(self.iv(a), self.iv(b))
            if op == "Sub":
                return iv_add(self.iv(a), iv_neg(self.iv(b)))
            if op == "Mult":
                for x, y in ((a, b), (b, a)):
                    x = unsnap(x)
                    if is_const(x) and isinstance(cval(x), int):
                        return iv_scale(self.iv(y), cval(x))
                return Iv.top()
            return Iv.top()
        if t.op == "un" and t.args[0] == "USub":
            return iv_neg(self.iv(t.args[1]))
        if t.op == "phi":
            a, b = self.iv(t.args[1]), self.iv(t.args[2])
            if a.is_top() or b.is_top():
                return Iv.top()
            lo = min(a.lo, b.lo)
            hi = max(a.hi, b.hi)
            return Iv(lo, hi, (a.lo_open if a.lo == lo else True) and (b.lo_open if b.lo == lo else True), (a.hi_open if a.hi == hi else True) and (b.hi_open if b.hi == hi else True))
        mc = meth_call(t)
        if mc and mc[1] == "a":
            return Iv(Fraction(-1), Fraction(1), True, True)  # curve parameter a: canonical or a small negative literal (-3)
        return Iv.top()


COORD_IV = {"X": Iv(Fraction(0), Fraction(1), False, True), "Y": Iv(Fraction(-1), Fraction(1), True, True), "Z": Iv(Fraction(0), Fraction(1), False, True)}


def _param_ivs(fi):
    out = {}
    for nm in fi.params[1:]:
        if nm and nm[0] in COORD_IV and nm[1:].isdigit():
            out[nm] = COORD_IV[nm[0]]
        elif nm == "a":
            out[nm] = Iv(Fraction(-1), Fraction(1), True, True)
    return out


def canon_rules(prog, chk, pid):
    P = lambda s: "%s.%s" % (pid, s)
    cls = prog.cls(PJ)
    n_tests = 0
    for fname in FORMULAS + ["_add"]:
        fi = cls.methods.get(fname)
        if fi is None:
            raise AnalysisError("PointJacobi.%s missing" % fname)
        ex = Exec(prog, policy=lambda e, f, d: False)
        res = ex.run(fi)
        pname = "p" if "p" in fi.params else None
        cn = Canon(ex, _param_ivs(fi), pname)
        # zero tests
        for e in res.events:
            if e.kind not in ("branch", "guard", "guard2"):
                continue
            r = rel(e.d["cond"], True)
            ats = r[1] if r[0] in ("and", "or") else [r]
            for a in ats:
                if a[0] != "rel":
                    continue
                if a[1] in ("Truthy", "Falsy"):
                    n_tests += 1
                    iv = cn.iv(a[2])
                    try:
                        src = ast.unparse(e.node.test) if hasattr(e.node, "test") else show(a[2], 4)
                    except Exception:
                        src = show(a[2], 4)
                    chk.require(iv.inside_open_unit(), P("zero-test-canonical"), fi.qualname, "zero test on %s in `if %s`" % (show(a[2], 3), src[:50]), e.where,
                                "the tested value lies in %s * p: it is 0 exactly when it is congruent to 0 modulo p" % iv,
                                "the tested value ranges over %s * p, so it can be a non-zero multiple of p: equal points in different integer representations (negated Y, unreduced sums) are not recognised as equal and the generic formula returns infinity" % iv)
                elif a[1] in ("Eq", "NotEq") and a[3] is not None:
                    n_tests += 1
                    vs_zero = any(is_const(unsnap(x)) and cval(unsnap(x)) == 0 for x in (a[2], a[3]))
                    for x in (a[2], a[3]):
                        if is_const(unsnap(x)):
                            continue
                        iv = cn.iv(x)
                        if vs_zero:
                            # `x == 0` is the zero test spelled out: exact for values in (-p, p)
                            chk.require(iv.inside_open_unit(), P("zero-test-canonical"), fi.qualname, "zero test on %s" % show(x, 3), e.where, "the tested value lies in %s * p: it is 0 exactly when it is congruent to 0 modulo p" % iv,
                                        "the tested value ranges over %s * p, so it can be a non-zero multiple of p" % iv)
                            continue
                        chk.require(iv.canonical(), P("equality-test-canonical"), fi.qualname, "comparison of %s" % show(x, 3), e.where, "compared value is canonical ([0, p))", "compared value ranges over %s * p: integer equality does not decide congruence" % iv)
        # outputs reduced
        if fname in FORMULAS:
            rets = [e for e in res.events if e.kind == "return" and e.stack == (fi.qualname,)]
            for r_ in rets:
                v = unsnap(r_.d["value"])
                comps = list(v.args[0]) if v.op == "tuple" else ([C(x) for x in cval(v)] if is_const(v) and isinstance(cval(v), tuple) else None)
                if comps is None:
                    # result of another formula function (doubling case)
                    okc = v.op == "call" or meth_call(v) is not None
                    chk.require(okc, P("outputs-reduced"), fi.qualname, "return %s" % show(v, 3), r_.where, "delegates to another formula function", "formula returns something other than a coordinate triple")
                    continue
                for i, cpt in enumerate(comps):
                    iv = cn.iv(cpt)
                    chk.require(iv.canonical(), P("outputs-reduced"), fi.qualname, "%s3 = %s" % ("XYZ"[i] if i < 3 else "?", show(cpt, 3)), r_.where, "returned coordinate is reduced modulo p (or a literal 0/1)", "returned coordinate ranges over %s * p (not reduced): later zero / equality tests on it are unsound" % iv)
    chk.info["canonicity_tests_examined"] = n_tests
    # negation is only ever applied to Y components
    bad = []
    for m in cls.methods.values():
        for n in ast.walk(m.node):
            if isinstance(n, ast.UnaryOp) and isinstance(n.op, ast.USub) and isinstance(n.operand, ast.Name) and n.operand.id[:1] in ("X", "Z", "x", "z") and n.operand.id not in ("x1_dummy",):
                bad.append("%s:%d -%s" % (m.file, n.lineno, n.operand.id))
    chk.require(not bad, P("only-Y-negated"), PJ, "unary minus applied to Y coordinates only", bad[0] if bad else "", "X and Z values handed to the formulas are canonical; only Y may be stored / passed negated (range (-p, p))", "a negated X or Z is passed around: %s" % bad[:3])


class _CoordCanon(Canon):
    """the stored coordinate triple of a PointJacobi: X, Z in [0, p), Y in (-p, p) (negation leaves Y unreduced); anything else is unbounded"""

    def _iv(self, t: Term) -> Iv:
        if t.op == "sub" and is_const(t.args[1]) and cval(t.args[1]) in (0, 1, 2):
            b = unsnap(t.args[0])
            if b.op == "attr" and str(b.args[1]).endswith("__coords"):
                return COORD_IV["XYZ"[cval(t.args[1])]]
        return Canon._iv(self, t)


def point_equality_rule(prog, chk, pid):
    """PointJacobi.__eq__ decides equality of group elements, whatever integers represent them: every comparison it makes must decide congruence modulo p for
    coordinates in their stored ranges -- a residue compared with 0, or two values whose difference stays inside (-p, p).  Comparing two Y coordinates as plain
    integers does not: -P keeps Y unreduced, so (X, -Y, Z) and (X, p - Y, Z) are the same point with different integers."""
    P = lambda s: "%s.%s" % (pid, s)
    fi = prog.cls(PJ).methods.get("__eq__")
    if fi is None:
        raise AnalysisError("PointJacobi.__eq__ missing")
    ex = Exec(prog, policy=lambda e, f, d: False)
    res = ex.run(fi)
    cn = _CoordCanon(ex, {}, None)
    where = "%s:%d" % (fi.file, fi.lineno)
    cmps = {}
    for e in res.events:
        terms = []
        if e.kind in ("branch", "guard", "guard2"):
            terms.append(e.d["cond"])
        if e.kind == "return" and e.stack == (fi.qualname,):
            terms.append(e.d["value"])
        for t0 in terms:
            for t in subterms(unsnap(t0)):
                if t.op == "cmp" and t.args[0] in ("Eq", "NotEq"):
                    cmps[t.uid] = (t, e)
    n = 0
    for t, e in cmps.values():
        a, b = unsnap(t.args[1]), unsnap(t.args[2])
        # only arithmetic on coordinates is of interest (curve objects, INFINITY, classes are compared by their own __eq__)
        def coordy(x):
            return any(y.op == "attr" and str(y.args[1]).endswith("__coords") for y in subterms(x)) or any((meth_call(y) or (None, None))[1] in ("x", "y") for y in subterms(x) if y.op == "call")
        if not (coordy(a) or coordy(b)):
            continue
        n += 1
        if is_const(a) or is_const(b):
            x = b if is_const(a) else a
            c0 = cval(a) if is_const(a) else cval(b)
            iv = cn.iv(x)
            ok = c0 == 0 and iv.inside_open_unit()
            why = "the value compared with %r ranges over %s * p" % (c0, iv)
        else:
            iv = iv_add(cn.iv(a), iv_neg(cn.iv(b)))
            ok = iv.inside_open_unit()
            why = "the difference of the two compared values ranges over %s * p: the same point in two integer representations (Y and Y - p after a negation) compares unequal" % iv
        chk.require(ok, P("point-equality-mod-p"), fi.qualname, "%s %s %s" % (show(a, 3), "==" if t.args[0] == "Eq" else "!=", show(b, 3)), e.where,
                    "the comparison decides congruence modulo p for every stored representation of the coordinates", why)
    if n < 2:
        raise AnalysisError("PointJacobi.__eq__: expected at least the two coordinate comparisons, found %d" % n)


def sibling_rules(prog, chk, pid):
    P = lambda s: "%s.%s" % (pid, s)
    cls = prog.cls(PJ)
    for fname in ("_add_with_z_1", "_add_with_z_eq", "_add_with_z2_1", "_add_with_z_ne"):
        fi = cls.methods[fname]
        ex = Exec(prog, policy=lambda e, f, d: False)
        res = ex.run(fi)
        gs = [g for g in res.events if g.kind == "guard" and g.d.get("term") == "return"]
        ok = False
        for g in gs:
            r = raise_rel(g)
            if r[0] == "and" and len(r[1]) == 2 and all(a[0] == "rel" and a[1] == "Falsy" for a in r[1]):
                arm = g.d.get("arm")
                rv = [x for x in res.events if arm and arm[0] <= x.uid < arm[1] and x.kind == "return"]
                if rv:
                    v = unsnap(rv[0].d["value"])
                    callee = v.args[0].args[0] if v.op == "call" and isinstance(v.args[0], Term) and v.args[0].op == "func" else ""
                    if callee.endswith("_double") or callee.endswith("_double_with_z_1"):
                        # the generic formula (tuple return) comes after the test
                        gen = [x for x in res.events if x.kind == "return" and x.uid > g.uid and unsnap(x.d["value"]).op == "tuple"]
                        ok = bool(gen)
        chk.require(ok, P("doubling-case"), fi.qualname, "if not H and not r: return double(...)", "%s:%d" % (fi.file, fi.lineno), "equal operands are sent to the doubling formula before the generic addition formula (which is undefined for them)", "the variant does not divert equal operands to doubling")
    # dispatcher
    fi = cls.methods["_add"]
    ex = Exec(prog, policy=lambda e, f, d: False)
    res = ex.run(fi)
    rets = [e for e in res.events if e.kind == "return" and e.stack == (fi.qualname,)]
    targets = []
    for r_ in rets:
        v = unsnap(r_.d["value"])
        if v.op == "call" and isinstance(v.args[0], Term) and v.args[0].op in ("func",):
            targets.append(v.args[0].args[0].split(".")[-1])
        elif v.op == "tuple":
            targets.append("operand:" + "".join(show(x, 2)[:1] + show(x, 2)[-1:] for x in v.args[0]))
    want = {"_add_with_z_1", "_add_with_z_eq", "_add_with_z2_1", "_add_with_z_ne", "operand:X2Y2Z2", "operand:X1Y1Z1"}
    chk.require(want <= set(targets) and targets.count("_add_with_z2_1") == 2, P("add-dispatch"), fi.qualname, "infinity operands, Z1==Z2==1, Z1==Z2, Z1==1, Z2==1, general", "%s:%d" % (fi.file, fi.lineno), "the dispatcher returns the other operand when one is infinity and selects a variant for every Z shape", "dispatch targets are %s" % targets)
    # the two operand shortcuts: operand i is skipped exactly when Yi == 0 or Zi == 0.  Both spellings of infinity occur: (0, 0, 1) from the doubling shortcut and
    # (X, Y != 0, 0) from the addition formulas for P + (-P) (Z3 carries the factor H = 0); runs of additions without doubling (_mul_precompute) feed either into _add.
    def truth(r, env):
        if r[0] == "const":
            return r[1]
        if r[0] in ("and", "or"):
            vs = [truth(x, env) for x in r[1]]
            return all(vs) if r[0] == "and" else any(vs)
        if r[0] == "rel":
            op, a, b = r[1], r[2], r[3]
            nm = a.args[0] if a.op == "param" else None
            if op in ("Truthy", "Falsy") and nm in env:
                return env[nm] if op == "Truthy" else not env[nm]
            if op in ("Eq", "NotEq") and b is not None:
                for x, y in ((a, b), (b, a)):
                    if x.op == "param" and x.args[0] in env and is_const(y) and cval(y) == 0:
                        return (not env[x.args[0]]) if op == "Eq" else env[x.args[0]]
        raise AnalysisError("infinity shortcut of _add tests something other than the truth of its Y / Z operands: %r" % (r,))
    for i, other in ((1, "operand:X2Y2Z2"), (2, "operand:X1Y1Z1")):
        ok, why = False, "no shortcut returns the other operand"
        for g in [g for g in res.events if g.kind == "guard" and g.d.get("term") == "return"]:
            arm = g.d.get("arm")
            rv = [x for x in res.events if arm and arm[0] <= x.uid < arm[1] and x.kind == "return"]
            if not rv or unsnap(rv[0].d["value"]).op != "tuple" or "operand:" + "".join(show(x, 2)[:1] + show(x, 2)[-1:] for x in unsnap(rv[0].d["value"]).args[0]) != other:
                continue
            r = raise_rel(g)
            names = {a[2].args[0] for a in atoms(r) if a[2].op == "param"} | {a[3].args[0] for a in atoms(r) if a[3] is not None and a[3].op == "param"}
            if names - {"Y%d" % i, "Z%d" % i}:
                ok, why = False, "the shortcut for operand %d tests %s" % (i, sorted(names))
                break
            table = {(y, z): truth(r, {"Y%d" % i: y, "Z%d" % i: z}) for y in (True, False) for z in (True, False)}
            ok = all(table[(y, z)] == (not y or not z) for (y, z) in table)
            missing = [("Y%d %s 0, Z%d %s 0" % (i, "!=" if y else "==", i, "!=" if z else "==")) for (y, z) in table if table[(y, z)] != (not y or not z)]
            why = "operand %d is treated wrongly for %s: both encodings of infinity, (0, 0, 1) and (X, Y, 0), reach the dispatcher, and an ordinary point must not be skipped" % (i, "; ".join(missing))
            break
        chk.require(ok, P("add-infinity-operand-%d" % i), fi.qualname, "if not Y%d or not Z%d: return the other operand" % (i, i), "%s:%d" % (fi.file, fi.lineno),
                    "operand %d is recognised as infinity exactly when Y%d = 0 or Z%d = 0" % (i, i, i), why)
    # infinity mapping in the public operations
    # private helpers of the class that are not themselves units of the analysis (an extracted epilogue, say) are interpreted as part of their caller
    UNITS = set(FORMULAS) | {"_add", "_double", "_naf", "_mul_precompute", "_maybe_precompute", "double", "to_affine", "from_affine", "x", "y", "curve", "order", "__neg__", "__eq__", "__mul__", "__add__", "mul_add"}
    inline_helpers = lambda e, f, d: f.cls is cls and f.name not in UNITS and d < 3
    for mname in ("double", "__add__", "__mul__", "_mul_precompute", "mul_add"):
        fi = cls.methods[mname]
        ex = Exec(prog, policy=inline_helpers)
        res = ex.run(fi)
        gs = [g for g in res.events if g.kind == "guard" and g.d.get("term") == "return"]
        news = [x for x in res.events if x.kind == "new" and x.d["cls"].name == "PointJacobi"]
        ok = bool(news)
        for nw in news:
            # every point object that is built must be preceded, on all paths, by `Y or Z is zero -> return INFINITY` on ITS OWN Y and Z arguments
            a = list(nw.d["args"]) + [None] * 4
            kw = nw.d.get("kwargs", {})
            yz = [unsnap(kw.get("y", a[2])) if kw.get("y", a[2]) is not None else None, unsnap(kw.get("z", a[3])) if kw.get("z", a[3]) is not None else None]
            good = False
            for g in gs:
                r = raise_rel(g)
                if not (r[0] == "or" and len(r[1]) == 2 and all(x[0] == "rel" and x[1] == "Falsy" for x in r[1])):
                    continue
                tested = [unsnap(x[2]) for x in r[1]]
                if not (yz[0] is not None and yz[1] is not None and {id(t) for t in tested} == {id(yz[0]), id(yz[1])}):
                    continue
                arm = g.d.get("arm")
                rv = [x for x in res.events if arm and arm[0] <= x.uid < arm[1] and x.kind == "return"]
                if rv and "INFINITY" in show(rv[0].d["value"], 3) and dominates(g, nw):
                    good = True
            ok = ok and good
        chk.require(ok, P("infinity-mapping"), fi.qualname, "if not Y3 or not Z3: return INFINITY", "%s:%d" % (fi.file, fi.lineno), "a result with Y3 = 0 or Z3 = 0 (the library's encoding of infinity) is returned as INFINITY before a point object is built", "results with Y3 = 0 or Z3 = 0 are not mapped to INFINITY")


def _raises_unless_all_equal(g) -> bool:
    """the guard's raising condition, read as a predicate of the (three) curve objects it compares, is true exactly when they are not all equal: evaluated
    for every assignment of two distinct identities to the compared terms (a chained `a != b != c` only says that neighbours differ: it lets a = c != b... and
    a != b = c through)"""
    from itertools import product

    from bfsa.evalterm import NoEval, eval_term

    cond, pol = g.d["cond"], bool(g.d["pol"])
    leaves = []
    for t in subterms(unsnap(cond)):
        if t.op == "attr" and t.args[1] == "curve" and all(t is not x for x in leaves):
            leaves.append(t)
    if not (2 <= len(leaves) <= 4):
        return False
    try:
        for vals in product((1, 2), repeat=len(leaves)):
            env = {t.uid: v for t, v in zip(leaves, vals)}
            raised = bool(eval_term(cond, env)) == pol
            if raised != (len(set(vals)) > 1):
                return False
    except (NoEval, TypeError):
        return False
    return True


def ecdh_rules(prog, chk, pid):
    P = lambda s: "%s.%s" % (pid, s)
    fi = prog.method(E + "ecdh.ECDH", "_get_shared_secret")
    ex = Exec(prog, policy=lambda e, f, d: False)
    res = ex.run(fi)
    where = "%s:%d" % (fi.file, fi.lineno)
    rets = [e for e in res.events if e.kind == "return" and e.stack == (fi.qualname,)]
    gs = [g for g in res.events if g.kind == "guard" and g.d.get("term") == "raise" and all(dominates(g, r) for r in rets)]
    kinds = set()
    for g in gs:
        exc = str(g.d.get("exc"))
        txt = show_rel(raise_rel(g), 5)
        if exc.endswith("NoKeyError") and "private_key" in txt:
            kinds.add("private")
        if exc.endswith("NoKeyError") and "public_key" in txt and "private_key" not in txt:
            kinds.add("public")
        if exc.endswith("InvalidCurveError") and txt.count("curve") >= 3 and _raises_unless_all_equal(g):
            kinds.add("curves")
        if exc.endswith("InvalidSharedSecretError") and "INFINITY" in txt:
            kinds.add("infinity")
    chk.require(kinds == {"private", "public", "curves", "infinity"}, P("ecdh-guards"), fi.qualname, "both keys present, three curves equal, result != INFINITY", where, "key agreement refuses missing keys, keys on different curves and an infinite result", "guards present: %s" % sorted(kinds))
    mul = [e for e in res.events if e.kind == "op" and e.d["op"] == "Mult"]
    okm = any("pubkey.point" in show(e.d["args"][0], 4) and "secret_multiplier" in show(e.d["args"][1], 4) for e in mul)
    chk.require(okm, P("ecdh-guards"), fi.qualname, "result = remote.pubkey.point * private.privkey.secret_multiplier", where, "the shared point is the peer's public point times the own secret scalar", "shared point is not peer point * own secret")
    for mname in ("load_private_key", "load_received_public_key"):
        fi = prog.method(E + "ecdh.ECDH", mname)
        ex = Exec(prog, policy=lambda e, f, d: False)
        res = ex.run(fi)
        gs = [g for g in res.events if g.kind == "guard" and g.d.get("term") == "raise" and str(g.d.get("exc")).endswith("InvalidCurveError")]
        sets = [e for e in res.events if e.kind == "setattr" and e.d["name"] in ("private_key", "public_key")]
        ok = bool(gs) and bool(sets) and all(dominates(gs[0], s) for s in sets) and raise_rel(gs[0])[1] == "NotEq"
        chk.require(ok, P("ecdh-curve-mismatch"), fi.qualname, "self.curve != key.curve -> raise InvalidCurveError, before the key is stored", "%s:%d" % (fi.file, fi.lineno), "a key on another curve is refused before it is stored", "a key on another curve can be loaded")
    # compressed decoder converts sqrt failure
    fi = prog.method(E + "ellipticcurve.AbstractPoint", "_from_compressed")
    ex = Exec(prog, policy=lambda e, f, d: False)
    res = ex.run(fi)
    sq = [e for e in res.events if e.kind == "call" and e.d["callee"].name == "square_root_mod_prime"]
    ok = len(sq) == 1 and any(f[0] == "try" and any(c.endswith("numbertheory.Error") for h in f[2] for c in h) for f in sq[0].ctx)
    conv = [e for e in res.events if e.kind == "raise" and str(e.d["exc"]).endswith("MalformedPointError") and any(f[0] == "except" for f in e.ctx)]
    chk.require(ok and bool(conv), P("sqrt-failure-converted"), fi.qualname, "square_root_mod_prime under try/except numbertheory.Error -> MalformedPointError", "%s:%d" % (fi.file, fi.lineno), "an x with no square root (point not on the curve) is reported as MalformedPointError", "a failing square root is not converted to MalformedPointError")


# ------------------------------------------------------------------------------------------------ R5 POLY (thorough)
# ------------------------------------------------------------------------------------------------ R7 equality of curves / points
EQ_CLASSES = [
    # class, fields that must each be compared between self and other
    (E + "ellipticcurve.CurveFp", ("p", "a", "b")),
    (E + "ellipticcurve.CurveEdTw", ("p", "a", "d")),
    (E + "ellipticcurve.Point", ("curve", "x", "y")),
    (E + "curves.Curve", ("curve", "generator")),
]


def equality_rules(prog, chk, pid):
    """`same curve?` decides whether foreign points are refused (ECDH._get_shared_secret, PointJacobi.__add__/__eq__, Point.__add__):
    __eq__ must compare every defining parameter of self with the SAME parameter of other, and agree with __hash__"""
    from bfsa.terms import subst

    P = lambda s: "%s.%s" % (pid, s)
    for cq, fields in EQ_CLASSES:
        ci = prog.cls(cq)
        fi = prog.method(cq, "__eq__")
        where = "%s:%d" % (fi.file, fi.lineno)
        ex = Exec(prog, policy=lambda e, f, d: False)
        res = ex.run(fi)
        rets = [e for e in res.events if e.kind == "return" and e.stack == (fi.qualname,) and any(f[0] == "if" and f[2] and unsnap(f[1]).op == "isinst" for f in e.ctx)]
        ok, why = len(rets) == 1, "expected one comparison result under isinstance(other, %s)" % ci.name
        if ok:
            v = unsnap(rets[0].d["value"])
            r = rel(v, True) if v.op in ("and", "cmp") else None
            ats = (r[1] if r[0] == "and" else [r]) if r else []
            ok = bool(ats) and all(a[0] == "rel" and a[1] == "Eq" for a in ats)
            why = "result is not a conjunction of equalities"
        if ok:
            sp, op_ = mk("param", fi.params[0]), mk("param", fi.params[1])
            # the analysed object for `self` is a heap object whose attribute reads are attr(param self, name)
            covered = set()
            for a in ats:
                L, R = unsnap(a[2]), unsnap(a[3])
                for f in fields:
                    cands = ["_%s__%s" % (ci.name, f), f, "_" + f]
                    for nm in cands:
                        sa, oa = mk("attr", sp, nm), mk("attr", op_, nm)
                        for (x, y) in ((L, R), (R, L)):
                            if any(t is sa for t in subterms(x)) and subst(x, {sa.uid: oa}) is y and x is not y:
                                covered.add(f)
            missing = [f for f in fields if f not in covered]
            ok = not missing and len(ats) == len(fields)
            why = "parameter(s) %s of self are not compared with the same parameter of other (atoms: %s)" % (missing or "-", "; ".join(show_rel(a, 5) for a in ats)[:220])
        chk.require(ok, P("equality-compares-all-parameters"), fi.qualname, " and ".join("self.%s == other.%s" % (f, f) for f in fields), where,
                    "two objects are equal only if every defining parameter agrees (each compared between self and other)", why)
        hm = ci.methods.get("__hash__")
        if hm is not None:
            rh = Exec(prog, policy=lambda e, f, d: False).run(hm)
            txt = show(rh.ret, 8) if rh.ret is not None else ""
            okh = all(("__%s" % f) in txt or (".%s" % f) in txt for f in fields)
            chk.require(okh, P("hash-agrees-with-equality"), hm.qualname, "hash((%s))" % ", ".join(fields), "%s:%d" % (hm.file, hm.lineno), "the hash covers the parameters equality compares", "__hash__ does not cover %s (%s)" % (fields, txt[:80]))
        # __ne__ is the negation of __eq__
        nm_ = ci.methods.get("__ne__")
        if nm_ is not None:
            rn = Exec(prog, policy=lambda e, f, d: False).run(nm_)
            v = unsnap(rn.ret) if rn.ret is not None else None
            okn = v is not None and ((v.op == "un" and v.args[0] == "Not") or (v.op == "cmp" and v.args[0] == "NotEq")) and "other" in show(v, 6) and "self" in show(v, 6)
            chk.require(okn, P("ne-negates-eq"), nm_.qualname, "not self == other", "%s:%d" % (nm_.file, nm_.lineno), "inequality is the negation of equality", "__ne__ is not `not self == other` (%s)" % (show(v, 5)[:60] if v is not None else None))


# ------------------------------------------------------------------------------------------------ R8 scalar multiplication
from bfsa.evalterm import NoEval as _NoEval, eval_term as _eval_term


def _value_alts(t: Term):
    """[(conditions, plain term)] for a value that may be conditional (phi tree)"""
    t = unsnap(t)
    if t.op == "phi":
        return [([(t.args[0], True)] + c, v) for c, v in _value_alts(t.args[1])] + [([(t.args[0], False)] + c, v) for c, v in _value_alts(t.args[2])]
    return [([], t)]


def _add_arms(adds, lid, y_index, var: Term = None):
    """[(conditions, sign, ok_shape)] : the conditions (enclosing tests inside loop `lid`, path facts, tests inside a conditional Y argument) under which a
    table entry / the point is added, with the sign of the Y coordinate handed to _add"""
    out = []
    for e in adds:
        base = []
        seen = False
        for f in e.ctx:
            if f[0] == "loop" and f[1] == lid:
                seen = True
            elif seen and f[0] == "if":
                base.append((f[1], bool(f[2])))
        known = {(unsnap(c).uid, p_) for c, p_ in base}
        for c, p_ in (getattr(e, "facts", ()) or ()):
            # path facts (e.g. what is known after `if not k % 2: ...; continue`): only those about the variable the rule reasons over
            if (unsnap(c).uid, bool(p_)) not in known and var is not None and any(x is var for x in subterms(c)):
                base.append((c, bool(p_)))
        a = e.d["args"]
        for conds, y in _value_alts(a[y_index]):
            y = unsnap(y)
            neg = y.op == "un" and y.args[0] == "USub"
            out.append((base + conds, -1 if neg else 1, unsnap(y.args[1]) if neg else y, e))
    return out



def affine_coordinate_rules(prog, chk, pid):
    """PointJacobi.x() / y(): the affine coordinates X / Z^2 and Y / Z^3 modulo p (X and Y themselves when Z = 1).  The returned terms are evaluated with the
    checker's own arithmetic for points (X, Y, Z) over three small primes, with numbertheory.inverse_mod read as the modular inverse: whatever the spelling
    (inline, a shared helper with the power as a parameter), the values must be the definition's."""
    from bfsa.evalterm import NoEval, eval_term

    P = lambda s: "%s.%s" % (pid, s)
    cls = prog.cls(PJ)
    for name, col, power in (("x", 0, 2), ("y", 1, 3)):
        fi = cls.methods[name]
        where = "%s:%d" % (fi.file, fi.lineno)
        ex = Exec(prog, policy=lambda e, f, d: False)
        res = ex.run(fi)
        rets = [e for e in res.events if e.kind == "return" and e.stack[0] == fi.qualname and len(e.stack) == 1]
        bad, n = None, 0
        try:
            for pv in (23, 101, 65537):
                for (X, Y, Z) in ((5, 7, 1), (5, 7, 2), (3, 11, pv - 1), (0, 9, 4), (pv - 2, 1, 3), (8, 0, 5)):
                    coords = (X, Y, Z)

                    def leaf(t, rec):
                        if t.op == "sub" and is_const(t.args[1]) and isinstance(cval(t.args[1]), int) and "coords" in show(t.args[0], 3):
                            return coords[cval(t.args[1])]
                        if t.op == "call" and isinstance(t.args[0], Term) and "inverse_mod" in show(t.args[0], 2) and len(t.args[1]) == 2:
                            a_, m_ = rec(t.args[1][0]), rec(t.args[1][1])
                            return pow(a_, -1, m_)
                        mc = meth_call(t)
                        if mc and mc[1] == "p" and not mc[2]:
                            return pv
                        if t.op == "bin" and t.args[0] == "Pow":
                            return rec(t.args[1]) ** rec(t.args[2])
                        return None

                    hit = []
                    for r in rets:
                        conds = [(f[1], bool(f[2])) for f in r.ctx if f[0] == "if"]
                        known = {(unsnap(c_).uid, p_) for c_, p_ in conds}
                        conds += [(c_, bool(p_)) for c_, p_ in (getattr(r, "facts", ()) or ()) if (unsnap(c_).uid, bool(p_)) not in known]
                        if all(bool(eval_term(c_, {}, leaf)) == p_ for c_, p_ in conds):
                            hit.append(r)
                    if len(hit) != 1:
                        raise NoEval("%d return paths apply" % len(hit))
                    got = eval_term(hit[0].d["value"], {}, leaf)
                    want = coords[col] * pow(Z, -power, pv) % pv
                    n += 1
                    if got % pv != want or (Z == 1 and got != coords[col]):
                        bad = bad or "p = %d, (X, Y, Z) = %s: %s() gives %s, the affine coordinate is %d" % (pv, coords, name, got, want)
        except (NoEval, TypeError, ValueError, ZeroDivisionError) as e_:
            bad = "the returned value could not be evaluated (%s)" % e_
        chk.require(bad is None, P("affine-coordinate-" + name), fi.qualname, "%s * inverse_mod(Z, p) ** %d %% p (%s itself when Z == 1)" % (name.upper(), power, name.upper()), where,
                    "%s() is the affine coordinate %s / Z^%d modulo p for %d sampled points over three primes" % (name, name.upper(), power, n), bad or "")


def mul_rules(prog, chk, pid):
    """k*P by signed-digit recoding: the structural invariants that make the loops compute k*P given that _add / _double are the group
    law (POLY) -- table entries are the AFFINE multiples 2^j*P (they are fed to _add with Z = 1), every recoding step satisfies
    k = 2*k' + d with the digit d matching the sign of the point added, and the NAF digits satisfy the same equation"""
    P = lambda s: "%s.%s" % (pid, s)
    cls = prog.cls(PJ)

    def run(name):
        fi = cls.methods[name]
        ex = Exec(prog, policy=lambda e, f, d: False)
        return fi, ex, ex.run(fi)

    # ---- table: entry_0 = affine(P), doubler' = doubler.double()[.scale()], entry_{j+1} = affine(doubler')
    fi, ex, res = run("_maybe_precompute")
    where = "%s:%d" % (fi.file, fi.lineno)
    news = [e for e in res.events if e.kind == "new" and e.d["cls"].name == "PointJacobi"]
    # the table that is published: its entries in construction order, each with "inside the doubling loop or not" (list literal, append before the loop
    # and append in the loop are all ways of putting an entry there)
    pub = [e for e in res.events if e.kind == "setattr" and e.d["name"].endswith("__precompute") and unsnap(e.d["value"]).op == "ref"]
    entries = []
    if pub and res.state is not None:
        tobj = res.state.heap.get(unsnap(pub[-1].d["value"]).args[0])
        if tobj is not None and tobj.kind == "list":
            for it in tobj.items:
                if tobj.exact:
                    entries.append((it, ()))
                else:
                    val, ctx_, how = it
                    if how not in ("init", "append"):
                        entries = []
                        break
                    entries.append((val, tuple(f for f in ctx_ if f[0] == "loop")))
    ok, why = len(news) == 1 and len(entries) == 2, "expected one start point and a table with a first entry and the loop's entries (found %d table steps)" % len(entries)
    # (the variable that carries the doubling point: `doubler`, or that name with the prefix a fused generator's locals get)
    dnames = {l.id: nm for l in ex.loops.values() for nm in l.next if nm == "doubler" or nm.endswith("_doubler")}
    loops = [l for l in ex.loops.values() if l.id in dnames]
    if ok:
        a = news[0].d["args"]
        ok = len(a) >= 4 and all(unsnap(a[1 + i]).op == "sub" and "coords" in show(a[1 + i], 3) and is_const(unsnap(a[1 + i]).args[1]) and cval(unsnap(a[1 + i]).args[1]) == i for i in range(3)) and len(loops) == 1
        why = "the doubling point does not start from the coordinates (X, Y, Z) of the point itself"
    if ok:
        lr = loops[0]
        d0 = unsnap(news[0].d["result"])
        dl = mk("loopvar", lr.id, dnames[lr.id])
        nxt = unsnap(lr.next[dnames[lr.id]])
        mc = meth_call(nxt)
        inner = nxt
        if mc and mc[1] == "scale" and not mc[2]:
            inner = unsnap(mc[0])
        mc2 = meth_call(inner)
        ok = unsnap(lr.init[dnames[lr.id]]) is d0 and mc2 is not None and mc2[1] == "double" and not mc2[2] and unsnap(mc2[0]) is dl
        why = "the doubling point is not updated as doubler.double() (optionally scaled)"

        def affine_pair(v, of):
            v = unsnap(v)
            if v.op == "slice" and v.args[1] is NONE and is_const(unsnap(v.args[2])) and cval(unsnap(v.args[2])) == 2 and v.args[3] is NONE:
                # the first two stored coordinates of a point that was just scaled: scale() leaves (x, y, 1), and x() / y() return exactly these when Z is 1
                b_ = unsnap(v.args[0])
                ms_ = meth_call(unsnap(of))
                return b_.op == "attr" and b_.args[1].endswith("__coords") and unsnap(b_.args[0]) is unsnap(of) and bool(ms_) and ms_[1] == "scale" and not ms_[2]
            if v.op != "tuple" or len(v.args[0]) != 2:
                return False
            for t, nm in zip(v.args[0], ("x", "y")):
                t = unsnap(t)
                recv = None
                m_ = meth_call(t)
                if m_ and m_[1] == nm and not m_[2]:
                    recv = unsnap(m_[0])
                elif t.op == "call" and isinstance(t.args[0], Term) and t.args[0].op == "func" and t.args[0].args[0].endswith("PointJacobi." + nm) and len(t.args[1]) == 1:
                    recv = unsnap(t.args[1][0])
                if recv is None or recv is not of:
                    return False
            return True

        if ok:
            first = [v for v, lf in entries if not lf]
            inloop = [v for v, lf in entries if any(f[1] == lr.id for f in lf)]
            ok = len(first) == 1 and len(inloop) == 1 and affine_pair(first[0], d0) and affine_pair(inloop[0], nxt)
            why = "a table entry is not (doubler.x(), doubler.y()): the multiplication adds table entries with Z = 1, so they must be affine coordinates of 2^j * P"
    chk.require(ok, P("mul-table-affine-doublings"), fi.qualname, "entry_0 = (P.x(), P.y()); doubler = doubler.double().scale(); entry_j = (doubler.x(), doubler.y())", where,
                "the precomputed table holds the affine coordinates of P, 2P, 4P, ... (what _mul_precompute adds with Z = 1)", why)

    # ---- table walk and NAF walk: digit <-> sign of the added point, recoding equation k = 2k' + d
    def digit_arms(lr, kname, res_, ex_):
        """for the loop variable carrying the scalar: [(digit, k' term)] from its phi tree"""
        k = mk("loopvar", lr.id, kname)
        out = []

        def walk(t, conds):
            t = unsnap(t)
            if t.op == "phi":
                walk(t.args[1], conds + [(t.args[0], True)])
                walk(t.args[2], conds + [(t.args[0], False)])
            else:
                out.append((conds, t))
        walk(lr.next[kname], [])
        return k, out

    fi, ex, res = run("_mul_precompute")
    where = "%s:%d" % (fi.file, fi.lineno)
    lrs = [l for l in ex.loops.values() if l.kind == "for" and "other" in l.next]
    ok, why = len(lrs) == 1 and lrs[0].iter is not None and "precompute" in show(lrs[0].iter, 3), "no loop over the table carrying the scalar"
    if ok:
        lr = lrs[0]
        k, arms = digit_arms(lr, "other", res, ex)
        adds = [e for e in res.events if e.kind in ("call", "dyncall") and show(e.d.get("callee", e.d.get("fnterm")), 3).rstrip(">").endswith("_add") and any(f[0] == "loop" and f[1] == lr.id for f in e.ctx)]
        aarms = _add_arms(adds, lr.id, 5, k)
        # semantic statement, evaluated with the checker's own arithmetic for scalars k of every residue mod 4 (conditions and k' are terms over k):
        #   exactly one update arm applies; the table entry (x_j, y_j, Z = 1) is added with sign d in {-1, 0, +1}; k' = (k - d) // 2; d = 0 for even k, d = 2 - (k mod 4) for odd k
        bad = None
        try:
            for kv in (0, 1, 2, 3, 4, 5, 6, 7, 1000, 1001, 1002, 1003, (1 << 255) + 1, (1 << 255) + 3, (1 << 256) - 2):
                env = {k.uid: kv}
                act = [kn for conds, kn in arms if all(bool(_eval_term(c, env)) == p_ for c, p_ in conds)]
                if len(act) != 1:
                    bad = "for k = %d, %d update arms of the scalar apply" % (kv, len(act))
                    break
                signs = [sg for conds, sg, y, e in aarms if all(bool(_eval_term(c, env)) == p_ for c, p_ in conds)]
                d = 0 if kv % 2 == 0 else 2 - (kv % 4)
                if signs != ([] if d == 0 else [d]):
                    bad = "for k = %d (k mod 4 = %d) the table entry is added with sign(s) %s, the signed digit is %d" % (kv, kv % 4, signs, d)
                    break
                kn_v = _eval_term(act[0], env)
                if kn_v != (kv - d) // 2:
                    bad = "for k = %d the scalar becomes %d, (k - d) // 2 is %d" % (kv, kn_v, (kv - d) // 2)
                    break
        except _NoEval as e_:
            raise AnalysisError("recoding step of _mul_precompute is not arithmetic over the scalar (%s)" % e_)
        # what is added is the table entry itself: (x_j, +-y_j) with Z = 1
        for conds, sg, y, e in aarms:
            a_ = e.d["args"]
            if not (is_const(a_[6]) and cval(a_[6]) == 1 and "[0]" in show(a_[4], 4) and "[1]" in show(y, 4)):
                bad = bad or "the point added is not the table entry (x_j, +-y_j) with Z = 1"
        ok, why = bad is None and bool(aarms), bad or "no table entry is ever added"
    chk.require(ok, P("mul-table-recoding"), fi.qualname, "odd k: k mod 4 >= 2 -> add -T_j, k = (k+1)//2 | else add +T_j, k = (k-1)//2; even k: k //= 2", where,
                "every step keeps k = 2*k' + d where d in {-1, 0, +1} is the sign with which table entry j (affine, Z = 1) is added", why)

    # ---- NAF: digits d with mult = 2*mult' + d, d = mult mod 4 mapped to {-1, +1} for odd mult, 0 for even
    fn = prog.func(E + "ellipticcurve.AbstractPoint._naf") if (E + "ellipticcurve.AbstractPoint._naf") in prog.funcs else None
    if fn is None:
        fn = next((f for q, f in prog.funcs.items() if q.endswith("._naf") and "ellipticcurve" in q), None)
    ok, why = fn is not None, "_naf not found"
    if ok:
        exn = Exec(prog, policy=lambda e, f, d: False)
        rn = exn.run(fn)
        # the scalar is the loop-carried variable that starts as the function's parameter (whatever it is called: a fused generator renames its locals)
        def _scalar_var(l):
            vs = [v for v in l.next if v in l.init and unsnap(l.init[v]).op == "param"]
            return vs[0] if len(vs) == 1 else None

        lrs = [l for l in exn.loops.values() if l.kind == "while" and _scalar_var(l) is not None]
        ok, why = len(lrs) == 1, "no loop over the scalar"
    if ok:
        lr = lrs[0]
        mvar = _scalar_var(lr)
        m = mk("loopvar", lr.id, mvar)
        apps = [e for e in rn.events if e.kind == "mutate" and e.d.get("how") == "append"]
        nxt = unsnap(lr.next[mvar])
        # expected: next = phi(odd ? (mult - nd) // 2 : mult // 2), nd = phi((mult % 4) >= 2 ? (mult % 4) - 4 : mult % 4)
        m4 = mk("bin", "Mod", m, C(4))
        nd = mk("phi", mk("cmp", "GtE", m4, C(2)), mk("bin", "Sub", m4, C(4)), m4)
        s_n = show(nxt, 9)
        # two equivalent shapes: phi(odd ? (m - d)//2 : m//2)   or   phi(odd ? m - d : m) // 2
        odd_arm = even_arm = None
        okshape = False
        if nxt.op == "phi" and "% 2" in show(nxt.args[0], 4):
            okshape = True
            oa, ea = unsnap(nxt.args[1]), unsnap(nxt.args[2])
            if oa.op == "bin" and oa.args[0] == "FloorDiv" and is_const(oa.args[2]) and cval(oa.args[2]) == 2 and ea is mk("bin", "FloorDiv", m, C(2)):
                odd_arm, even_arm = unsnap(oa.args[1]), m
        elif nxt.op == "bin" and nxt.args[0] == "FloorDiv" and is_const(nxt.args[2]) and cval(nxt.args[2]) == 2:
            inner = unsnap(nxt.args[1])
            if inner.op == "phi" and "% 2" in show(inner.args[0], 4):
                okshape = True
                odd_arm, even_arm = unsnap(inner.args[1]), unsnap(inner.args[2])
        okodd = odd_arm is not None and odd_arm.op == "bin" and odd_arm.args[0] == "Sub" and unsnap(odd_arm.args[1]) is m
        digit = unsnap(odd_arm.args[2]) if okodd else None
        okd = digit is not None and digit.op == "phi" and unsnap(digit.args[2]) is m4 and unsnap(digit.args[1]) is mk("bin", "Sub", m4, C(4)) and unsnap(digit.args[0]) is mk("cmp", "GtE", m4, C(2))
        okeven = even_arm is m
        vals = [unsnap(e.d["value"]) for e in apps]
        okapp = len(vals) == 2 and any(v is digit for v in vals) and any(is_const(v) and cval(v) == 0 for v in vals)
        ok = okshape and okodd and okd and okeven and okapp
        why = "NAF step is not: odd -> d = (mult mod 4 >= 2 ? mult mod 4 - 4 : mult mod 4), append d, mult = (mult - d)//2; even -> append 0, mult //= 2 (%s)" % s_n[:160]
        if not ok:
            # the same step written differently (one digit variable, a generator that yields the digits, ...): decided by evaluating the extracted step on a grid of
            # scalars -- per iteration exactly one digit d in {-1, 0, 1} is emitted, d = 0 iff mult is even, mult = 2 * next + d and next is even whenever d != 0
            from bfsa.evalterm import NoEval, eval_term

            emits = apps + [e for e in rn.events if e.kind == "yield" and any(f[0] == "loop" and f[1] == lr.id for f in e.ctx)]
            emits = [e for e in emits if any(f[0] == "loop" and f[1] == lr.id for f in e.ctx)]
            bad_ = None
            try:
                for mv in list(range(1, 130)) + [255, 256, 257, 1023, 0xFFFF, 0x10001, (1 << 64) - 1, (1 << 64) + 1, (1 << 127) + 3, 3 * (1 << 90) + 7]:
                    env_ = {m.uid: mv}
                    active = []
                    for e in emits:
                        seen_loop = False
                        holds = True
                        for f in e.ctx:
                            if f[0] == "loop" and f[1] == lr.id:
                                seen_loop = True
                                continue
                            if seen_loop and f[0] == "if" and not (lr.cond is not None and f[1] is lr.cond):
                                if bool(eval_term(f[1], env_)) != bool(f[2]):
                                    holds = False
                        if holds:
                            active.append(e)
                    if len(active) != 1:
                        bad_ = "for mult = %d the step emits %d digits" % (mv, len(active))
                        break
                    d_ = eval_term(active[0].d["value"], env_)
                    nx_ = eval_term(nxt, env_)
                    if d_ not in (-1, 0, 1) or (d_ == 0) != (mv % 2 == 0) or mv != 2 * nx_ + d_ or (d_ != 0 and nx_ % 2 != 0):
                        bad_ = "for mult = %d the step emits digit %r and continues with %r (want a digit of -1 / 0 / 1 with mult = 2 * next + digit, 0 exactly for even mult, and an even next after a non-zero digit)" % (mv, d_, nx_)
                        break
            except (NoEval, TypeError, KeyError) as e_:
                bad_ = "the step is not an arithmetic function of mult (%s)" % (e_,)
            if bad_ is None and emits:
                ok, why = True, ""
            elif bad_ is not None:
                why = bad_
    chk.require(ok, P("mul-naf-digits"), fn.qualname if fn else "_naf", "d = mult mod 4 (3 -> -1) for odd mult else 0; mult = (mult - d) // 2", "%s:%d" % (fn.file, fn.lineno) if fn else "",
                "the NAF digits satisfy mult = 2*mult' + d at every step (least significant digit first)", why)
    # ---- __mul__ NAF walk: most significant digit first, double then add +-P according to the digit's sign
    fi, ex, res = run("__mul__")
    where = "%s:%d" % (fi.file, fi.lineno)
    lrs = [l for l in ex.loops.values() if l.kind == "for" and "X3" in l.next]
    ok, why = len(lrs) == 1, "no double-and-add loop"
    if ok:
        lr = lrs[0]
        it = unsnap(lr.iter)
        ok = it.op == "iterview" and it.args[0] == "reversed" and "_naf" in show(it.args[1], 4)
        why = "the digits are not walked from the most significant end (reversed(self._naf(k)))"
        if ok:
            # ALL digits are walked (the sequence handed to reversed() is the result of _naf itself, not a slice or a filtered copy of it) ...
            inner = unsnap(it.args[1])
            mc_ = meth_call(inner)
            ok = bool((mc_ and mc_[1] == "_naf") or is_call_named(inner, "_naf"))
            why = "the walk does not cover every digit of _naf(k) (it runs over %s)" % show(inner, 4)
        if ok:
            # ... starting from the point at infinity: (X, 0, Z) / (X, Y, 0) is what _double and _add treat as infinity; an empty digit string (k = 0 after the reduction
            # modulo twice the order) must give infinity, not the point
            y0, z0 = lr.init.get("Y3"), lr.init.get("Z3")
            ok = any(t_ is not None and is_const(unsnap(t_)) and cval(unsnap(t_)) == 0 for t_ in (y0, z0))
            why = "the accumulator does not start at the point at infinity (Y3 = %s, Z3 = %s): an empty digit string then yields a finite point" % (show(y0, 3) if y0 is not None else "?", show(z0, 3) if z0 is not None else "?")
    if ok:
        def named(e, nm):
            if e.kind == "mcall":
                return e.d.get("name") == nm
            if e.kind in ("call", "dyncall"):
                return show(e.d.get("callee", e.d.get("fnterm")), 3).rstrip(">").endswith(nm)
            return False

        dbl = [e for e in res.events if named(e, "_double") and any(f[0] == "loop" and f[1] == lr.id for f in e.ctx)]
        adds = [e for e in res.events if named(e, "_add") and any(f[0] == "loop" and f[1] == lr.id for f in e.ctx)]
        def after_loop_ifs(e):
            seen = False
            n_if = 0
            for f in e.ctx:
                if f[0] == "loop" and f[1] == lr.id:
                    seen = True
                elif seen and f[0] == "if":
                    n_if += 1
            return n_if

        ok = len(dbl) == 1 and bool(adds) and all(dbl[0].uid < a.uid for a in adds) and after_loop_ifs(dbl[0]) == 0
        why = "each step is not one unconditional doubling followed by at most one addition"
        if ok:
            # for each value of the digit: which additions happen, and with which sign of P's Y coordinate (evaluated on the conditions, which are terms over the digit)
            digit = unsnap(lr.target)
            aarms = _add_arms(adds, lr.id, len(adds[0].d["args"]) - 3, digit)
            bad = None
            try:
                for dv in (-1, 0, 1):
                    signs = [sg for conds, sg, y, e in aarms if all(bool(_eval_term(c, {digit.uid: dv})) == p_ for c, p_ in conds)]
                    if signs != ([] if dv == 0 else [dv]):
                        bad = "for digit %d the point is added with sign(s) %s" % (dv, signs)
                        break
            except _NoEval as e_:
                raise AnalysisError("the additions of the NAF walk are not selected by tests on the digit (%s)" % e_)
            for conds, sg, y, e in aarms:
                if not (is_const(e.d["args"][-2]) and cval(e.d["args"][-2]) == 1):
                    bad = bad or "the point added is not P scaled to Z = 1"
            ok, why = bad is None, bad or ""
    chk.require(ok, P("mul-naf-walk"), fi.qualname, "for d in reversed(naf(k)): R = 2R; d < 0: R += -P; d > 0: R += P", where,
                "left-to-right double-and-add over the NAF digits with the sign of the digit selecting +P / -P (P scaled to Z = 1)", why)


def mul_add_rules(prog, chk, pid):
    """a*A + b*B by interleaved NAF digits (Shamir's trick): every step doubles the accumulator and adds the combination
    sign(dA)*A + sign(dB)*B; the four mixed combinations are precomputed with exactly those signs.  Checked on the trace:
    each addition inside the loop is classified by the branch conditions on the two digits and by which point it adds."""
    P = lambda s: "%s.%s" % (pid, s)
    cls = prog.cls(PJ)
    fi = cls.methods["mul_add"]
    where = "%s:%d" % (fi.file, fi.lineno)
    ex = Exec(prog, policy=lambda e, f, d: False)
    res = ex.run(fi)
    calls = [e for e in res.events if e.kind == "call" and e.d["callee"].name in ("_add", "_double")]
    loops = [l for l in ex.loops.values() if l.kind == "for" and "X3" in l.next]
    ok, why = len(loops) == 1, "no double-and-add loop"
    if ok:
        lr = loops[0]
        inl = lambda e: any(f[0] == "loop" and f[1] == lr.id for f in e.ctx)
        pre = [e for e in calls if e.d["callee"].name == "_add" and not inl(e)]

        def sign_of(y):
            y = unsnap(y)
            return -1 if (y.op == "un" and y.args[0] == "USub") else 1

        def who(x):
            """which base point a coordinate term belongs to: 'A' (self), 'B' (other) or None"""
            t = show(x, 6)
            if "coords" not in t:
                return None
            return "A" if t.lstrip("-(").startswith("self.") or t.lstrip("-(").startswith("…._PointJacobi__coords") and "phi" not in t and "other" not in t else "B"

        combos = {}
        okp = len(pre) == 4
        for e in pre:
            a = e.d["args"]
            xa, ya, za, xb, yb, zb = a[1:7]
            ta, tb = show(xa, 5), show(xb, 5)
            if not (ta.startswith("self.") and not tb.startswith("self.")):
                okp = False
                continue
            combos[unsnap(e.d["result"]).uid] = (sign_of(ya), sign_of(yb))
        ok = okp and sorted(combos.values()) == [(-1, -1), (-1, 1), (1, -1), (1, 1)]
        why = "the four mixed points are not -A-B, +A-B, -A+B, +A+B (signs found: %s)" % sorted(combos.values())
    if ok:
        dbl = [e for e in calls if e.d["callee"].name == "_double" and inl(e)]
        adds = [e for e in calls if e.d["callee"].name == "_add" and inl(e)]
        ok = len(dbl) == 1 and not [f for f in dbl[0].ctx if f[0] == "if" and dbl[0].ctx.index(f) > [g[0] for g in dbl[0].ctx].index("loop")] and len(adds) == 8 and all(dbl[0].uid < a.uid for a in adds)
        why = "a step is not one unconditional doubling followed by one of eight additions"
    if ok:
        # digits: the loop target is (A, B) = elem(zip(self_naf, other_naf)); conditions compare elem[0] / elem[1] with 0
        it_ = unsnap(lr.iter) if lr.iter is not None else None
        zsrc = list(it_.args[1].args[0]) if (it_ is not None and it_.op == "iterview" and it_.args[0] == "zip" and len(it_.args[1].args[0]) == 2) else None

        def strip_pad(x):
            # zip_longest(a, b, fillvalue=0): the digit is an item of a or the padding digit 0
            x = unsnap(x)
            return unsnap(x.args[0]) if x.op == "padded" and is_const(x.args[1]) and cval(x.args[1]) == 0 and not isinstance(cval(x.args[1]), bool) else x

        tg_ = unsnap(lr.target) if getattr(lr, "target", None) is not None else None
        if zsrc is None and tg_ is not None and tg_.op == "tuple" and len(tg_.args[0]) == 2 and all(unsnap(x).op == "elem" for x in tg_.args[0]):
            # the digit pairs come from a list / reversed view of the zipped digit lists: the two sources are what the two loop targets are items of
            zsrc = [strip_pad(unsnap(x).args[0]) for x in tg_.args[0]]

        def digit_signs(e):
            sa = sb = None
            seen = False
            for f in e.ctx:
                if f[0] == "loop" and f[1] == lr.id:
                    seen = True
                    continue
                if not seen or f[0] != "if":
                    continue
                c = unsnap(f[1])
                if c.op != "cmp" or not (is_const(c.args[2]) and cval(c.args[2]) == 0):
                    continue
                dterm = unsnap(c.args[1])
                which = None
                if dterm.op == "elem" and zsrc is not None:
                    src_ = strip_pad(dterm.args[0])
                    which = "A" if src_ is unsnap(zsrc[0]) else ("B" if src_ is unsnap(zsrc[1]) else None)
                if which is None:
                    continue
                cur = sa if which == "A" else sb
                if c.args[0] == "Eq":
                    val = 0 if f[2] else cur
                elif c.args[0] == "Lt":
                    val = -1 if f[2] else (1 if cur is None else cur)
                elif c.args[0] == "Gt":
                    val = 1 if f[2] else cur
                else:
                    val = cur
                if which == "A":
                    sa = val
                else:
                    sb = val
            return sa, sb

        bad = []
        seen_pairs = set()
        for e in adds:
            a = e.d["args"]
            sa, sb = digit_signs(e)
            xb, yb = a[4], a[5]
            src = unsnap(xb)
            if src.op == "sub" and unsnap(src.args[0]).uid in combos:
                added = combos[unsnap(src.args[0]).uid]
            else:
                t = show(xb, 5)
                added = (sign_of(yb), 0) if t.startswith("self.") else (0, sign_of(yb))
            seen_pairs.add((sa, sb))
            if added != (sa, sb):
                bad.append("digits (%s, %s) add %s" % (sa, sb, added))
        ok = not bad and len(seen_pairs) == 8 and (0, 0) not in seen_pairs
        why = "; ".join(bad[:3]) or "the eight non-zero digit combinations are not all handled (%s)" % sorted(seen_pairs, key=str)
    chk.require(ok, P("mul-add-combinations"), fi.qualname, "R = 2R; R += sign(dA)*A + sign(dB)*B over the interleaved NAF digits; mixed points -A-B, +A-B, -A+B, +A+B precomputed", where,
                "every step of the combined multiplication adds exactly the combination of A and B that the two NAF digits call for", why)
    mul_add_walk_rule(prog, chk, pid, fi)
    # fallbacks: zero multipliers / infinity / both precomputed / A + B = infinity reduce to the two single multiplications
    rets = [e for e in res.events if e.kind == "return" and e.stack == (fi.qualname,)]
    fb = [r for r in rets if unsnap(r.d["value"]).op in ("bin", "call") and "Mult" in show(r.d["value"], 3) or "__mul__" in show(r.d["value"], 3) or " * " in show(r.d["value"], 4)]
    chk.require(len(fb) >= 3, P("mul-add-fallbacks"), fi.qualname, "self*a, other*b, self*a + other*b on the degenerate paths", where, "degenerate cases fall back to separate multiplications", "expected the separate-multiplication fallbacks (found %d)" % len(fb))


def mul_add_walk_rule(prog, chk, pid, fi):
    """the two digit lists are walked together from the most significant end, the shorter one extended by zero digits at that end.
    mul_add is interpreted on concrete control for given NAF digit lists (the NAF routine is replaced by the lists, the formula functions by
    uninterpreted operations that log their arguments); the log must be: four mixed points, then per digit pair one doubling of the accumulator and, for a
    non-zero pair, one addition of the point with the signs of the two digits -- whatever way the code pairs, pads and orders the lists."""
    P = lambda s: "%s.%s" % (pid, s)
    where = "%s:%d" % (fi.file, fi.lineno)
    cases = [([1, 0, -1], [1]), ([-1], [0, 1, 0, 1]), ([1, 0, 1], [-1, 0, 1]), ([0, 1], [1, 0, 0, -1]), ([1], [-1]), ([0, 0, 1, 0, -1], [1, 0, 1])]
    bad = None
    n_steps = 0
    for dA, dB in cases:
        log = []

        def h_naf(ex, fi_, args, kwargs, st, node, dA=dA, dB=dB):
            t = show(args[-1], 12)
            if ("self_mul" in t) == ("other_mul" in t):
                raise Unsupported("cannot tell which multiplier a NAF expansion belongs to (%s)" % t[:80])
            return ex.new_list(st, [C(d) for d in (dA if "self_mul" in t else dB)])

        def h_op(name):
            def h(ex, fi_, args, kwargs, st, node):
                a = [unsnap(x) for x in args if unsnap(x).op != "ref" or ex.obj(st, x) is None or ex.obj(st, x).kind != "obj"]
                r = mk("uf", name, len(log))
                log.append((name, a))
                return mk("tuple", (mk("uf", "c0", r), mk("uf", "c1", r), mk("uf", "c2", r)))
            return h

        ex = Exec(prog, policy=lambda e, f, d: False)
        ex.sym_bytes = True
        ex.summaries = {q: h_naf for q in prog.funcs if q.endswith("._naf") and "ellipticcurve" in q}
        ex.summaries.update({q: h_op("add") for q in prog.funcs if q.endswith("PointJacobi._add")})
        ex.summaries.update({q: h_op("double") for q in prog.funcs if q.endswith("PointJacobi._double")})
        try:
            res = ex.run(fi)
        except Unsupported as u:
            raise AnalysisError("mul_add not interpretable on concrete digit lists: %s" % u)

        def comp_of(x, i):
            x = unsnap(x)
            return x.args[1].args[1] if x.op == "uf" and x.args[0] == "c%d" % i and unsnap(x.args[1]).op == "uf" else None

        def sign_of(y):
            y = unsnap(y)
            return -1 if (y.op == "un" and y.args[0] == "USub") else 1

        pre = [(k, a) for k, (nm, a) in enumerate(log) if nm == "add" and comp_of(a[0], 0) is None and not (is_const(a[0]) and is_const(a[2]))]
        mixed = {}
        for k, a in pre:
            if len(a) >= 6 and show(a[0], 5).startswith("self.") and not show(a[3], 5).startswith("self."):
                mixed[k] = (sign_of(a[1]), sign_of(a[4]))
        steps = [(k, nm, a) for k, (nm, a) in enumerate(log) if k not in dict(pre)]
        n = max(len(dA), len(dB))
        want = []
        for i in reversed(range(n)):
            da, db = (dA[i] if i < len(dA) else 0), (dB[i] if i < len(dB) else 0)
            want.append(("double", None))
            if (da, db) != (0, 0):
                want.append(("add", ((da > 0) - (da < 0), (db > 0) - (db < 0))))
        got = []
        prev = None
        chain_ok = True
        for k, nm, a in steps:
            # the accumulator handed in is the previous result (initially the constants 0, 0, 1)
            if prev is None:
                chain_ok = chain_ok and all(is_const(x) for x in a[:3]) and [cval(x) for x in a[:3]] == [0, 0, 1]
            else:
                chain_ok = chain_ok and all(comp_of(a[i], i) == prev for i in range(3))
            prev = k
            if nm == "double":
                got.append(("double", None))
            else:
                src = comp_of(a[3], 0)
                if src is not None and src in mixed:
                    got.append(("add", mixed[src]))
                else:
                    got.append(("add", (sign_of(a[4]), 0) if show(a[3], 5).startswith("self.") else (0, sign_of(a[4]))))
        n_steps += len(steps)
        if not chain_ok:
            bad = bad or "digits %s / %s: the accumulator is not threaded through every doubling and addition" % (dA, dB)
        elif got != want:
            bad = bad or "digits %s / %s (least significant first): the steps are %s, expected %s" % (dA, dB, [g[1] if g[0] == "add" else "2R" for g in got][:12], [g[1] if g[0] == "add" else "2R" for g in want][:12])
    chk.require(bad is None, P("mul-add-digit-walk"), fi.qualname, "%d digit-list pairs of different lengths, %d accumulator steps" % (len(cases), n_steps), where,
                "both digit lists are walked from their most significant ends with the shorter one zero-extended there: per position one doubling, then the addition the digit pair calls for", bad or "")


def poly_rules(prog, chk, pid):
    """formula functions as polynomial identities (mod-p reductions dropped: ring homomorphism Z[..] -> F_p[..])"""
    try:
        import sympy
    except Exception:
        chk.ok("%s.poly-identities" % pid, PJ, "skipped: sympy not importable", "", "polynomial identities need a polynomial normaliser (sympy in the tooling venv)", nontrivial=False)
        return
    cls = prog.cls(PJ)
    X1, Y1, Z1, X2, Y2, Z2, a = sympy.symbols("X1 Y1 Z1 X2 Y2 Z2 a")
    symmap = {"X1": X1, "Y1": Y1, "Z1": Z1, "X2": X2, "Y2": Y2, "Z2": Z2, "a": a}

    def to_poly(t: Term, env):
        t = unsnap(t)
        if is_const(t):
            return sympy.Integer(cval(t))
        if t.op == "param":
            if t.args[0] in env:
                return env[t.args[0]]
            raise AnalysisError("free parameter %s in formula" % t.args[0])
        if t.op == "bin":
            op, l, r = t.args
            if op == "Mod":
                return to_poly(l, env)
            if op == "Add":
                return to_poly(l, env) + to_poly(r, env)
            if op == "Sub":
                return to_poly(l, env) - to_poly(r, env)
            if op == "Mult":
                return to_poly(l, env) * to_poly(r, env)
            if op == "Pow" and is_const(unsnap(r)):
                return to_poly(l, env) ** cval(unsnap(r))
            if op == "LShift" and is_const(unsnap(r)) and isinstance(cval(unsnap(r)), int) and 0 <= cval(unsnap(r)) <= 16:
                return to_poly(l, env) * (2 ** cval(unsnap(r)))  # x << k is x * 2**k for every integer x
        if t.op == "un" and t.args[0] == "USub":
            return -to_poly(t.args[1], env)
        mc = meth_call(t)
        if mc and mc[1] == "a":
            return a
        raise AnalysisError("term %s not polynomial" % show(t, 3))

    def generic_return(fname):
        fi = cls.methods[fname]
        ex = Exec(prog, policy=lambda e, f, d: False)
        res = ex.run(fi)
        rets = [e for e in res.events if e.kind == "return" and e.stack == (fi.qualname,) and unsnap(e.d["value"]).op == "tuple"]
        if not rets:
            raise AnalysisError("%s has no generic formula return" % fname)
        return fi, [unsnap(x) for x in unsnap(rets[-1].d["value"]).args[0]]

    # reference formulas in Jacobian coordinates (x = X/Z^2, y = Y/Z^3), cross-multiplied
    def check_double(fname, env_z):
        fi, (x3, y3, z3) = generic_return(fname)
        env = dict(symmap)
        env.update(env_z)
        X3, Y3, Z3 = [sympy.expand(to_poly(t, env)) for t in (x3, y3, z3)]
        x1, y1 = env["X1"] / env["Z1"] ** 2, env["Y1"] / env["Z1"] ** 3
        lam = (3 * x1 ** 2 + a / 1) / (2 * y1)
        # with general Z the curve coefficient enters as a (affine); the Jacobian formula uses a*Z^4
        x3a = lam ** 2 - 2 * x1
        y3a = lam * (x1 - x3a) - y1
        d1 = sympy.simplify(X3 / Z3 ** 2 - x3a)
        d2 = sympy.simplify(Y3 / Z3 ** 3 - y3a)
        return fi, d1 == 0 and d2 == 0

    def check_add(fname, env_z):
        fi, (x3, y3, z3) = generic_return(fname)
        env = dict(symmap)
        env.update(env_z)
        X3, Y3, Z3 = [sympy.expand(to_poly(t, env)) for t in (x3, y3, z3)]
        x1, y1 = env["X1"] / env["Z1"] ** 2, env["Y1"] / env["Z1"] ** 3
        x2, y2 = env["X2"] / env["Z2"] ** 2, env["Y2"] / env["Z2"] ** 3
        lam = (y2 - y1) / (x2 - x1)
        x3a = lam ** 2 - x1 - x2
        y3a = lam * (x1 - x3a) - y1
        d1 = sympy.simplify(X3 / Z3 ** 2 - x3a)
        d2 = sympy.simplify(Y3 / Z3 ** 3 - y3a)
        return fi, d1 == 0 and d2 == 0

    one = sympy.Integer(1)
    jobs = [
        ("_double_with_z_1", check_double, {"Z1": one}),
        ("_double", check_double, {}),
        ("_add_with_z_1", check_add, {"Z1": one, "Z2": one}),
        ("_add_with_z_eq", check_add, {"Z2": Z1}),
        ("_add_with_z2_1", check_add, {"Z2": one}),
        ("_add_with_z_ne", check_add, {}),
    ]
    for fname, fn, envz in jobs:
        try:
            fi, ok = fn(fname, envz)
        except AnalysisError as e:
            raise
        chk.require(ok, "%s.poly-identities" % pid, PJ + "." + fname, "X3/Z3^2, Y3/Z3^3 == chord/tangent formulas", "%s:%d" % (fi.file, fi.lineno), "the Jacobian formula equals the affine group law as an identity of rational functions (reductions modulo p dropped)", "the formula is not the group law (polynomial identity fails)")


def affine_point_rules(prog, chk, pid):
    """the affine Point class: (1) the generic addition / doubling formulas, evaluated on every pair of points of a small curve with the checker's own field arithmetic;
    (2) the special cases are recognised by comparing with INFINITY / comparing coordinates with each other, never by the truth value of a coordinate (x = 0 and y = 0 are
    ordinary coordinate values: (0, sqrt(b)) is a point of every curve whose b is a square)"""
    from bfsa.evalterm import NoEval, eval_term

    P = lambda s_: "%s.%s" % (pid, s_)
    PT = E + "ellipticcurve.Point"
    cls = prog.cls(PT)
    # ---- (2) no truth tests on coordinates
    for mname in ("__add__", "__mul__", "double", "__str__", "__eq__", "__neg__"):
        fi = cls.methods.get(mname)
        if fi is None:
            raise AnalysisError("Point.%s missing" % mname)
        ex = Exec(prog, policy=lambda e, f, d: False)
        res = ex.run(fi)

        def is_coord(t):
            t = unsnap(t)
            if t.op == "attr" and str(t.args[1]).endswith(("__x", "__y")):
                return True
            mc_ = meth_call(t)
            return bool(mc_) and mc_[1] in ("x", "y") and not mc_[2]

        bad = None
        n_at = 0
        for e in res.events:
            if e.kind not in ("branch", "guard", "guard2"):
                continue
            for a in atoms(rel(e.d["cond"], True)):
                n_at += 1
                if a[1] in ("Truthy", "Falsy") and is_coord(a[2]):
                    bad = bad or (e.where, "the truth value of %s" % show(a[2], 3))
                if a[1] in ("Eq", "NotEq") and a[3] is not None:
                    for x, y in ((a[2], a[3]), (a[3], a[2])):
                        if is_coord(x) and is_const(unsnap(y)) and cval(unsnap(y)) in (0, None, False):
                            bad = bad or (e.where, "%s compared with %r" % (show(x, 3), cval(unsnap(y))))
        chk.require(bad is None, P("affine-special-cases"), fi.qualname, "%d branch conditions" % n_at, bad[0] if bad else "%s:%d" % (fi.file, fi.lineno),
                    "no case distinction of the affine arithmetic depends on a coordinate being zero / falsy: infinity is recognised by comparison with INFINITY",
                    "a case distinction tests %s: a point with that coordinate equal to 0 is treated as a special case (e.g. as infinity)" % (bad[1] if bad else ""))
    # ---- (1) formulas on the curve y^2 = x^3 + x + 4 over F_103 (prime order 103... any small curve will do: every finite pair of points is tried)
    p_, a_, b_ = 103, 1, 4
    pts = [(x, y) for x in range(p_) for y in range(p_) if (y * y - (x * x * x + a_ * x + b_)) % p_ == 0]

    def ref_add(P1, P2):
        (x1, y1), (x2, y2) = P1, P2
        if x1 == x2:
            if (y1 + y2) % p_ == 0:
                return None
            lam = (3 * x1 * x1 + a_) * pow(2 * y1, -1, p_) % p_
        else:
            lam = (y2 - y1) * pow(x2 - x1, -1, p_) % p_
        x3 = (lam * lam - x1 - x2) % p_
        return x3, (lam * (x1 - x3) - y1) % p_

    def formula(mname, two):
        fi = cls.methods[mname]
        ex = Exec(prog, policy=lambda e, f, d: False)
        res = ex.run(fi)
        news = [e for e in res.events if e.kind == "new" and e.d["cls"].name == "Point" and len(e.d["args"]) >= 3]
        if len(news) != 1:
            return fi, None, "expected one generic result Point(curve, x3, y3), found %d" % len(news)
        x3t, y3t = news[0].d["args"][1], news[0].d["args"][2]

        def leaf_for(P1, P2):
            def leaf(t, rec):
                sh = show(t, 6)
                if t.op == "attr":
                    nm = str(t.args[1])
                    base = show(t.args[0], 3)
                    if nm.endswith("__x"):
                        return P1[0] if base == "self" else P2[0] if base == "other" else None
                    if nm.endswith("__y"):
                        return P1[1] if base == "self" else P2[1] if base == "other" else None
                mc_ = meth_call(t)
                if mc_ and not mc_[2] and "curve" in show(mc_[0], 4):
                    return {"p": p_, "a": a_, "b": b_}.get(mc_[1])
                if t.op == "call" and "inverse_mod" in show(t.args[0], 3) and len(t.args[1]) == 2:
                    d_, m_ = rec(t.args[1][0]), rec(t.args[1][1])
                    if d_ % m_ == 0:
                        raise NoEval("inverse of 0")
                    return pow(d_, -1, m_)
                return None
            return leaf

        for P1 in pts:
            for P2 in (pts if two else [P1]):
                if two and P1[0] == P2[0]:
                    continue  # handled by the special cases (inverse points / doubling)
                if not two and P1[1] == 0:
                    continue
                want = ref_add(P1, P2)
                try:
                    got = (eval_term(x3t, {}, leaf_for(P1, P2)) % p_, eval_term(y3t, {}, leaf_for(P1, P2)) % p_)
                except NoEval as e_:
                    raise AnalysisError("Point.%s: result coordinates are not field arithmetic over the operands' coordinates (%s)" % (mname, e_))
                if got != want:
                    return fi, False, "%s%s gives %s, the group law gives %s (curve y^2 = x^3 + x + 4 over F_103)" % (P1, (" + %s" % (P2,)) if two else " doubled", got, want)
        return fi, True, ""

    for mname, two in (("__add__", True), ("double", False)):
        fi, okf, whyf = formula(mname, two)
        chk.require(bool(okf), P("affine-formula"), fi.qualname, "chord / tangent formula evaluated on all %s of a 103-element curve" % ("pairs of points with different x" if two else "points"), "%s:%d" % (fi.file, fi.lineno),
                    "the generic result equals the group law for every pair of finite points (checker's own arithmetic on the extracted expressions)", whyf)


def run(prog, chk, tier):
    from rules import state as _state

    _state.shared_state_rules(prog, chk, "C17", _state.ECDSA_MODULES)
    chk.explanation = ("Curve literals are folded sequentially from ecdsa.py and audited with the checker's own arithmetic (primality, on-curve, n*G = infinity, Hasse). The Jacobian "
                       "formula functions are interpreted symbolically; an interval analysis in units of p (X, Z in [0,1), Y in (-1,1) because Y may be stored negated; % p gives "
                       "[0,1); sums and small multiples by interval arithmetic; products unbounded) requires every zero test to be applied to a value strictly inside (-p, p) "
                       "and every returned coordinate to be reduced -- the 'regardless of the internal projective representation' clause. Sibling rules require the doubling "
                       "diversion in all four addition variants, a complete dispatcher and the infinity mapping. Validation and ECDH guards are located by normal form. "
                       "The six formulas are checked as polynomial identities against the affine group law. OpenSSL agreement is not decided.")
    const_rules(prog, chk, "C17", tier)
    canon_rules(prog, chk, "C17")
    point_equality_rule(prog, chk, "C17")
    sibling_rules(prog, chk, "C17")
    affine_point_rules(prog, chk, "C17")
    ecdh_rules(prog, chk, "C17")
    equality_rules(prog, chk, "C17")
    mul_rules(prog, chk, "C17")
    affine_coordinate_rules(prog, chk, "C17")
    mul_add_rules(prog, chk, "C17")
    c09.validation_chain_rules(prog, chk, "C17")
    c09.decoded_coordinates_rules(prog, chk, "C17")
    try:
        import sympy  # noqa: F401  (tooling venv; used only as a polynomial normaliser)

        poly_rules(prog, chk, "C17")
    except ImportError:
        if tier == "thorough":
            raise AnalysisError("sympy is not importable: the polynomial identities cannot be checked")
        chk.assume("sympy not importable in this interpreter: the polynomial identities of the six formulas were not checked in this run")
    chk.assume("integers handed to the public point constructors are canonical (0 <= v < p): keys loaded through VerifyingKey are range-checked, generator literals are audited")
    chk.assume("the gmpy (mpz) arms are not built in this environment and not analysed")
