"""C16 (continued) -- modes of operation and stream feeders, for every enumerated split of the input across calls.

The mode classes and BlockFeeder keep state between calls (chaining value, shift register, unused key stream, buffered
bytes), so "the standard result however the input is split" is a statement about call histories.  It is decided here by
abstract interpretation with concrete control: a synthetic entry point (a few lines of scaffold, interpreted, never run)
constructs a mode / feeder object and performs a sequence of calls whose arguments are byte strings of FIXED LENGTH with
SYMBOLIC CONTENT.  The block function is replaced by an uninterpreted function E_k / D_k (licensed by the block rules of
this same check, which prove AES.encrypt / AES.decrypt equal to FIPS-197).  Every output byte then is a term over
(input bytes, IV bytes, E, D, XOR); it must be IDENTICAL, after XOR canonicalisation, to the byte SP 800-38A prescribes
for the concatenated input (ECB 6.1, CBC 6.2, CFB 6.3, OFB 6.4, CTR 6.5 with the incrementing function of B.1, PKCS#7 padding
of RFC 5652 6.3 for the padded feeders).  Lengths and splits are enumerated (the control flow depends on nothing else);
contents, keys and IVs are universally quantified.
"""
from __future__ import annotations

import ast
import itertools
from typing import Dict, List, Optional, Sequence, Tuple

from bfsa.exprs import sbytes
from bfsa.guard import unsnap
from bfsa.heap import PathDead, Unsupported
from bfsa.load import AnalysisError
from bfsa.symexec import Exec
from bfsa.terms import C, NONE, Term, cval, is_const, mk, show, sym, xor_canon

AESQ = "register_crypto_plugin.pyaes.aes"
BFQ = "register_crypto_plugin.pyaes.blockfeeder"
UTQ = "register_crypto_plugin.pyaes.util"


# ------------------------------------------------------------------------------------------------ term algebra
def X(*ts: Term) -> Term:
    return xor_canon(*ts)


def canon(t: Term) -> Term:
    t = unsnap(t)
    if t.op == "bin" and t.args[0] == "BitXor":
        return xor_canon(t)
    return t


def _inverse_of(kind: str, key: Term, b) -> Optional[List[Term]]:
    """E_k and D_k are mutually inverse permutations of the block space: D_k(E_k(x)) = x and E_k(D_k(x)) = x"""
    x0 = b[0]
    if x0.op == kind and x0.args[0] is key and all(x.op == kind and x.args[0] is key and x.args[1] is x0.args[1] and x.args[2] == i for i, x in enumerate(b)):
        return list(x0.args[1])
    return None


def E(key: Term, blk: Sequence[Term]) -> List[Term]:
    b = tuple(canon(x) for x in blk)
    inv = _inverse_of("aesD", key, b)
    if inv is not None:
        return inv
    return [mk("aesE", key, b, i) for i in range(16)]


def D(key: Term, blk: Sequence[Term]) -> List[Term]:
    b = tuple(canon(x) for x in blk)
    inv = _inverse_of("aesE", key, b)
    if inv is not None:
        return inv
    return [mk("aesD", key, b, i) for i in range(16)]


def hooks():
    def h_init(ex, fi, args, kwargs, st, node):
        ex.obj(st, args[0]).attrs["#key"] = args[1] if len(args) > 1 else kwargs.get("key", NONE)
        return NONE

    def mk_hook(fn, what):
        def h(ex, fi, args, kwargs, st, node):
            items = ex.iter_items(args[1], st)
            if items is None or len(items) != 16:
                o_ = ex.obj(st, args[1])
                extra = (" (a %s of %d item(s)%s)" % (o_.kind, len(o_.items), "" if o_.exact else ", not known one by one")) if o_ is not None and hasattr(o_, "items") else ""
                raise Unsupported("AES.%s called with something that is not a block of 16 known items: %s%s" % (what, show(args[1], 9)[:700], extra))
            key = ex.obj(st, args[0]).attrs.get("#key", NONE)
            return ex.new_list(st, fn(key, items))

        return h

    return {AESQ + ".AES.__init__": h_init, AESQ + ".AES.encrypt": mk_hook(E, "encrypt"), AESQ + ".AES.decrypt": mk_hook(D, "decrypt")}


def pol(ex, fi, depth):
    return fi.module.name.startswith("register_crypto_plugin.pyaes") and depth < 14


# ------------------------------------------------------------------------------------------------ SP 800-38A reference
class Ref:
    def __init__(self, key, iv=None, seg=1, ctr0=1):
        self.key = key
        self.iv = list(iv) if iv is not None else [C(0)] * 16
        self.seg = seg
        self.ctr0 = ctr0
        self.pos = 0  # absolute key-stream position (OFB / CTR)
        self.ofb_blocks: List[List[Term]] = []
        self.last = list(self.iv)  # CBC chaining value / CFB input block

    # block modes (one 16-byte block per call)
    def ecb(self, d, blk):
        return (E if d == "encrypt" else D)(self.key, blk)

    def cbc(self, d, blk):
        if d == "encrypt":
            c = E(self.key, [X(p, l) for p, l in zip(blk, self.last)])
            self.last = c
            return c
        p = [X(a, l) for a, l in zip(D(self.key, blk), self.last)]
        self.last = [canon(x) for x in blk]
        return p

    def cfb(self, d, data):
        s = self.seg
        assert len(data) % s == 0
        out = []
        for i in range(0, len(data), s):
            segm = data[i:i + s]
            o = E(self.key, self.last)[:s]
            res = [X(a, b) for a, b in zip(segm, o)]
            c = res if d == "encrypt" else [canon(x) for x in segm]
            self.last = self.last[s:] + c
            out.extend(res)
        return out

    def _ofb_byte(self, n):
        while len(self.ofb_blocks) <= n // 16:
            prev = self.ofb_blocks[-1] if self.ofb_blocks else self.iv
            self.ofb_blocks.append(E(self.key, prev))
        return self.ofb_blocks[n // 16][n % 16]

    def ofb(self, d, data):
        out = []
        for p in data:
            out.append(X(p, self._ofb_byte(self.pos)))
            self.pos += 1
        return out

    def _ctr_byte(self, n):
        t = (self.ctr0 + n // 16) % (1 << 128)
        blk = [C(b) for b in t.to_bytes(16, "big")]
        return E(self.key, blk)[n % 16]

    def ctr(self, d, data):
        out = []
        for p in data:
            out.append(X(p, self._ctr_byte(self.pos)))
            self.pos += 1
        return out

    def blocks(self, mode, d, data):
        assert len(data) % 16 == 0
        out = []
        for i in range(0, len(data), 16):
            out.extend(getattr(self, mode)(d, data[i:i + 16]))
        return out


MODES = {
    # name: (class, kind, ctor extra source, ref kwargs)
    "ecb": ("AESModeOfOperationECB", "block", "key", {}),
    "cbc": ("AESModeOfOperationCBC", "block", "key, iv", {}),
    "cfb1": ("AESModeOfOperationCFB", "segment", "key, iv", {"seg": 1}),
    "cfb8": ("AESModeOfOperationCFB", "segment", "key, iv, 8", {"seg": 8}),
    "cfb16": ("AESModeOfOperationCFB", "segment", "key, iv, segment_size=16", {"seg": 16}),
    "ofb": ("AESModeOfOperationOFB", "stream", "key, iv", {}),
    "ctr": ("AESModeOfOperationCTR", "stream", "key", {"ctr0": 1}),
    "ctr-wrap": ("AESModeOfOperationCTR", "stream", "key, Counter((1 << 128) - 1)", {"ctr0": (1 << 128) - 1}),
    "ctr-carry": ("AESModeOfOperationCTR", "stream", "key, counter=Counter(initial_value=0x1FFFF)", {"ctr0": 0x1FFFF}),
}
# the incrementing function is +1 mod 2^128 (SP 800-38A B.1): a carry must propagate into every byte, including the most significant
for _k in (1, 8, 15):
    _v = (0xAB << (8 * _k)) | ((1 << (8 * _k)) - 1) if _k < 16 else 0
    MODES["ctr-carry-into-byte%d" % (15 - _k)] = ("AESModeOfOperationCTR", "stream", "key, Counter(%d)" % _v, {"ctr0": _v})


def _syms(tag, n):
    return [sym("%s%d_" % (tag, i)) for i in range(n)]


class DataDependentControl(Exception):
    def __init__(self, ev):
        Exception.__init__(self, "branch on a cipher output byte")
        self.ev = ev


def data_dependent_branch(ex):
    """the first branch / guard event of the trace whose condition mentions a byte produced by the (uninterpreted) block function"""
    from bfsa.terms import subterms as _st

    for e in ex.trace:
        if e.kind in ("branch", "guard", "guard2") and e.d.get("cond") is not None:
            if any(x.op in ("aesE", "aesD") or (x.op == "uf" and str(x.args[0]) in ("aesE", "aesD")) or show(x, 1).startswith(("aesE(", "aesD(")) for x in _st(e.d["cond"])):
                return e
    return None


class Session:
    """one interpreted scenario"""

    def __init__(self, prog):
        self.prog = prog
        self.runs = 0
        self.stmts = 0

    def run(self, module, src, args):
        ex = Exec(self.prog, policy=pol)
        ex.summaries = hooks()
        ex.sym_bytes = True
        self.runs += 1
        try:
            res = ex.run_driver(self.prog.module(module), src, args=args)
        except Unsupported as u:
            # a branch decided by the VALUE of a cipher output byte (key stream, ciphertext) is not "uninterpretable": in every standard mode and feeder the
            # control flow depends on lengths and positions only.  Reported as what it is, with the branch
            dd = data_dependent_branch(ex)
            if dd is not None:
                raise DataDependentControl(dd)
            raise AnalysisError("scenario not interpretable: %s\n%s" % (u, src))
        self.stmts += ex.unrolled_total
        return ex, res


def _flat(ex, res, t) -> Optional[List[Term]]:
    """the bytes of a result (sbytes / constant bytes / exact list / tuple of those), canonicalised"""
    t = unsnap(t)
    if t.op == "tuple":
        out = []
        for x in t.args[0]:
            f = _flat(ex, res, x)
            if f is None:
                return None
            out.extend(f)
        return out
    if is_const(t) and isinstance(cval(t), tuple):
        out = []
        for x in cval(t):
            if not isinstance(x, bytes):
                return None
            out.extend(C(b) for b in x)
        return out
    if t.op == "sbytes":
        return [canon(x) for x in t.args[0]]
    if is_const(t) and isinstance(cval(t), (bytes, str)):
        v = cval(t)
        return [C(b if isinstance(b, int) else ord(b)) for b in v]
    items = ex.iter_items(t, res.state) if res.state is not None else None
    if items is not None:
        return [canon(x) for x in items]
    return None


def _cmp(got: Optional[List[Term]], want: List[Term], ref="the standard"):
    if got is None:
        return "result is not a byte string with known bytes"
    if len(got) != len(want):
        return "result has %d bytes, %s gives %d" % (len(got), ref, len(want))
    for i, (g, w) in enumerate(zip(got, want)):
        if g is not w:
            return "byte %d is %s, %s gives %s" % (i, show(g, 5)[:160], ref, show(w, 5)[:160])
    return None


# ------------------------------------------------------------------------------------------------ mode objects, call by call
def _plans(kind, seg, tier):
    if kind == "block":
        return [(16,), (16, 16), (16, 16, 16)] + ([(16,) * 4] if tier == "thorough" else [])
    if kind == "segment":
        base = {1: [0, 1, 2, 15, 16, 17, 33], 8: [0, 8, 16, 24, 40], 16: [0, 16, 32, 48]}[seg]
    else:
        base = [0, 1, 15, 16, 17, 31, 32, 33]
    if tier != "thorough":
        base = base[:6]
    plans = [(a,) for a in base] + [(a, b) for a in base for b in base]
    if tier == "thorough":
        small = base[:5]
        plans += [(a, b, c) for a in small for b in small for c in small]
    return plans


def mode_call_rules(prog, chk, pid, tier):
    P = lambda s: "%s.%s" % (pid, s)
    ses = Session(prog)
    key = mk("param", "key")
    total = 0
    for name, (cls, kind, ctor, refkw) in MODES.items():
        ci = prog.cls(AESQ + "." + cls)
        where = "%s:%d" % (ci.module.relpath, ci.node.lineno)
        for d in ("encrypt", "decrypt"):
            for with_iv in ((True, False) if "iv" in ctor else (None,)):
                bad = None
                nplans = 0
                for plan in _plans(kind, refkw.get("seg", 1), tier):
                    nplans += 1
                    names = ["d%d" % i for i in range(len(plan))]
                    src = "def drv(key, iv, %s):\n    m = %s(%s)\n    return (%s,)\n" % (", ".join(names), cls, ctor, ", ".join("m.%s(%s)" % (d, n) for n in names))
                    datas = [_syms("x%d_" % i, n) for i, n in enumerate(plan)]
                    ivs = _syms("iv", 16) if with_iv else None
                    args = {"key": key, "iv": sbytes(ivs) if ivs else NONE}
                    for n, v in zip(names, datas):
                        args[n] = sbytes(v)
                    try:
                        ex, res = ses.run(AESQ, src, args)
                    except DataDependentControl as dd_:
                        bad = (plan, "the control flow depends on the value of a key-stream / ciphertext byte (%s at %s): a byte that happens to be 0 (or any tested value) changes which bytes are produced" % (show(dd_.ev.d["cond"], 3)[:80], dd_.ev.where))
                        break
                    ref = Ref(key, ivs, **refkw)
                    want: List[Term] = []
                    for v in datas:
                        want.extend(getattr(ref, name.split("-")[0].rstrip("0123456789"))(d, v))
                    if res.dead or res.ret is None:
                        bad = (plan, "raises for valid input")
                        break
                    why = _cmp(_flat(ex, res, res.ret), want)
                    if why:
                        bad = (plan, why)
                        break
                total += nplans
                ivtxt = {True: "explicit IV", False: "iv=None (zero IV)", None: "no IV"}[with_iv]
                chk.require(bad is None, P("mode-%s-%s" % (name, d)), "%s.%s.%s" % (AESQ, cls, d), "%s, %d call sequences (%s)" % (ivtxt, nplans, ctor), where,
                            "for every enumerated sequence of calls on one object, every output byte equals, as a term over (input, IV, E_k/D_k, XOR), the SP 800-38A %s result for the concatenated input" % name.upper(),
                            "call lengths %s: %s" % (bad[0], bad[1]) if bad else "")
    chk.info["mode_call_sequences"] = total
    chk.info["interpreted_scenarios"] = chk.info.get("interpreted_scenarios", 0) + ses.runs


# ------------------------------------------------------------------------------------------------ feeders
def _chunkings(tier, kind):
    if tier == "thorough":
        base = [0, 1, 15, 16, 17, 31, 32, 33, 48]
        plans = [(a,) for a in base] + [(a, b) for a in base for b in base] + [(a, b, c) for a in base[:7] for b in base[:7] for c in base[:7]]
    else:
        base = [0, 1, 15, 16, 17, 32, 33]
        plans = [(a,) for a in base] + [(a, b) for a in base[:6] for b in base[:6]] + [(1, 16, 15), (17, 0, 31), (16, 16, 16), (15, 1, 1)]
    return plans


FEED_CONFIGS = [
    # mode, feeder, padding, direction
    ("ecb", "Encrypter", "default", "encrypt"), ("cbc", "Encrypter", "default", "encrypt"),
    ("ecb", "Encrypter", "none", "encrypt"), ("cbc", "Encrypter", "none", "encrypt"),
    ("ecb", "Decrypter", "none", "decrypt"), ("cbc", "Decrypter", "none", "decrypt"),
    ("cfb1", "Encrypter", "default", "encrypt"), ("cfb1", "Decrypter", "default", "decrypt"),
    ("cfb8", "Encrypter", "default", "encrypt"), ("cfb8", "Decrypter", "default", "decrypt"),
    ("ofb", "Encrypter", "default", "encrypt"), ("ofb", "Decrypter", "default", "decrypt"),
    ("ctr", "Encrypter", "default", "encrypt"), ("ctr", "Decrypter", "none", "decrypt"),
]


def feeder_rules(prog, chk, pid, tier):
    P = lambda s: "%s.%s" % (pid, s)
    ses = Session(prog)
    key = mk("param", "key")
    fcls = prog.cls(BFQ + ".BlockFeeder")
    where = "%s:%d" % (fcls.module.relpath, fcls.node.lineno)
    total = 0
    for mode, feeder, padding, d in FEED_CONFIGS:
        cls, kind, ctor, refkw = MODES[mode]
        bad = None
        n = 0
        for plan in _chunkings(tier, kind):
            L = sum(plan)
            if kind == "block" and padding == "none" and (L % 16 != 0 or L == 0):
                continue  # not a valid input without padding
            n += 1
            names = ["c%d" % i for i in range(len(plan))]
            body = "".join("    out = out + (f.feed(%s),)\n" % nm for nm in names)
            src = ("def drv(key, iv, mode_cls, feeder_cls, Counter, %s):\n    f = feeder_cls(mode_cls(%s), padding=%r)\n    out = ()\n%s    out = out + (f.feed(),)\n    return out\n"
                   % (", ".join(names), ctor, padding, body))
            datas = [_syms("y%d_" % i, k) for i, k in enumerate(plan)]
            ivs = _syms("iv", 16)
            args = {"key": key, "iv": sbytes(ivs), "mode_cls": mk("class", AESQ + "." + cls), "feeder_cls": mk("class", BFQ + "." + feeder), "Counter": mk("class", AESQ + ".Counter")}
            for nm, v in zip(names, datas):
                args[nm] = sbytes(v)
            ex, res = ses.run(BFQ, src, args)
            data = [x for v in datas for x in v]
            ref = Ref(key, ivs if "iv" in ctor else None, **refkw)
            base = mode.rstrip("0123456789")
            if kind == "block":
                if padding == "default":
                    pad = 16 - len(data) % 16
                    data = data + [C(pad)] * pad
                want = ref.blocks(base, d, data)
            elif kind == "segment":
                s = refkw["seg"]
                fill = (s - len(data) % s)  # the feeder zero-fills the last segment (a whole extra one when already aligned) and truncates
                want = ref.cfb(d, data + [C(0)] * fill)[:len(data)]
            else:
                want = getattr(ref, base)(d, data)
            if res.dead or res.ret is None:
                bad = (plan, "raises for valid input")
                break
            why = _cmp(_flat(ex, res, res.ret), want)
            if why:
                bad = (plan, why)
                break
        total += n
        chk.require(bad is None, P("feeder-%s-%s-%s" % (mode, feeder.lower(), padding)), "%s.%s.feed" % (BFQ, feeder), "%s(%s(%s), padding=%r): %d chunkings" % (feeder, cls, ctor, padding, n), where,
                    "for every enumerated way of splitting the input into feed() calls, the concatenated output equals the SP 800-38A %s result for the whole input%s" % (mode.upper(), " with PKCS#7 padding" if (kind == "block" and padding == "default") else ""),
                    "chunk lengths %s: %s" % (bad[0], bad[1]) if bad else "")
    # a finished feeder refuses further input; the final call hands over the whole remaining buffer
    src = "def drv(key, iv, mode_cls, feeder_cls, c0):\n    f = feeder_cls(mode_cls(key, iv))\n    f.feed(c0)\n    f.feed()\n    return f.feed(c0)\n"
    ex, res = ses.run(BFQ, src, {"key": key, "iv": NONE, "mode_cls": mk("class", AESQ + ".AESModeOfOperationCBC"), "feeder_cls": mk("class", BFQ + ".Encrypter"), "c0": sbytes(_syms("z", 5))})
    chk.require(res.dead, P("feeder-finished"), BFQ + ".BlockFeeder.feed", "feed() after the final feed()", where, "a finished feeder raises instead of producing more output", "feeding after the final call does not raise")
    chk.info["feeder_chunkings"] = total
    chk.info["interpreted_scenarios"] = chk.info.get("interpreted_scenarios", 0) + ses.runs


# ------------------------------------------------------------------------------------------------ PKCS#7 helpers
def pkcs7_rules(prog, chk, pid):
    P = lambda s: "%s.%s" % (pid, s)
    ses = Session(prog)
    fa = prog.func(UTQ + ".append_PKCS7_padding")
    bad = None
    for L in range(0, 49):
        d = _syms("w", L)
        ex, res = ses.run(UTQ, "def drv(d):\n    return append_PKCS7_padding(d)\n", {"d": sbytes(d)})
        pad = 16 - L % 16
        why = "raises" if (res.dead or res.ret is None) else _cmp(_flat(ex, res, res.ret), d + [C(pad)] * pad)
        if why:
            bad = (L, why)
            break
    chk.require(bad is None, P("pkcs7-append"), fa.qualname, "lengths 0..48", "%s:%d" % (fa.file, fa.lineno), "data is followed by n bytes of value n, n = 16 - len mod 16 (1..16, a whole block when aligned)", "length %s: %s" % bad if bad else "")
    # strip: the last byte is the count, count bytes are removed, lengths that are not whole blocks and counts > 16 are refused
    fs = prog.func(UTQ + ".strip_PKCS7_padding")
    ex = Exec(prog, policy=lambda e, f, d: f.module.name == UTQ)
    res = ex.run(fs)
    from bfsa.guard import dominates, raise_rel

    rets = [e for e in res.events if e.kind == "return" and e.stack == (fs.qualname,)]
    ok = len(rets) >= 1
    why = "no return"
    for r in rets:
        v = unsnap(r.d["value"])
        good = v.op == "slice" and unsnap(v.args[0]).op == "param" and unsnap(v.args[1]) is NONE and unsnap(v.args[3]) is NONE
        if good:
            hi = unsnap(v.args[2])
            good = hi.op == "un" and hi.args[0] == "USub"
            if good:
                cnt = unsnap(hi.args[1])
                # the count is data[-1] (possibly through the py2/3 byte helper, which is the identity here)
                good = cnt.op == "sub" and unsnap(cnt.args[0]).op == "param" and is_const(cnt.args[1]) and cval(cnt.args[1]) == -1
        if not good:
            ok, why = False, "result is not data[:-data[-1]] (%s)" % show(v, 5)[:80]
    gs = [g for g in res.events if g.kind == "guard" and g.d.get("term") == "raise"]
    has_len = has_max = False
    for g in gs:
        r = raise_rel(g)
        txt = show(g.d["cond"], 6)
        if "len(" in txt and "% 16" in txt and all(dominates(g, x) for x in rets):
            has_len = True
        if r[0] == "rel" and r[1] in ("Gt", "GtE", "Lt", "LtE") and all(dominates(g, x) for x in rets):
            a, b = unsnap(r[2]), unsnap(r[3])
            if r[1] in ("Gt", "GtE"):
                lo, hi, strict = b, a, r[1] == "Gt"  # hi > lo
            else:
                lo, hi, strict = a, b, r[1] == "Lt"  # lo < hi
            if is_const(lo) and not is_const(hi) and cval(lo) == (16 if strict else 17):
                has_max = True
    chk.require(ok and has_len and has_max, P("pkcs7-strip"), fs.qualname, "len % 16 != 0 -> raise; data[-1] > 16 -> raise; return data[:-data[-1]]", "%s:%d" % (fs.file, fs.lineno),
                "the count byte is the last byte, that many bytes are removed, partial blocks and counts above 16 are refused", why if not ok else "length or count guard missing (len guard %s, count guard %s)" % (has_len, has_max))
    chk.info["interpreted_scenarios"] = chk.info.get("interpreted_scenarios", 0) + ses.runs


# ------------------------------------------------------------------------------------------------ no state shared between objects
MUTABLE_CALLS = ("list", "dict", "set", "bytearray")


def shared_state_rules(prog, chk, pid):
    """results never depend on another object: no default argument that is a mutable object created once at definition
    time, no class-level mutable attribute that instances modify, no module-level mutable object written by the modes"""
    P = lambda s: "%s.%s" % (pid, s)
    scope = [m for m in prog.modules.values() if not m.is_test and (m.name.startswith("register_crypto_plugin.pyaes") or m.name == "register_crypto_plugin")]
    nfun = 0
    for m in scope:
        for n in ast.walk(m.tree):
            if not isinstance(n, (ast.FunctionDef, ast.Lambda)):
                continue
            nfun += 1
            a = n.args
            pos = a.posonlyargs + a.args
            pairs = list(zip(pos[len(pos) - len(a.defaults):], a.defaults)) + [(k, d) for k, d in zip(a.kwonlyargs, a.kw_defaults) if d is not None]
            for arg, dflt in pairs:
                mutable = isinstance(dflt, (ast.List, ast.Dict, ast.Set, ast.ListComp, ast.DictComp, ast.SetComp))
                if isinstance(dflt, ast.Call):
                    tgt = prog.resolve_expr_static(m, dflt.func) if isinstance(dflt.func, (ast.Name, ast.Attribute)) else None
                    from bfsa.load import ClassInfo

                    if isinstance(tgt, ClassInfo):
                        mutable = True  # instances of repo classes carry state
                    elif isinstance(dflt.func, ast.Name) and dflt.func.id in MUTABLE_CALLS:
                        mutable = True
                if mutable:
                    chk.fail(P("no-shared-default"), "%s.%s" % (m.name, getattr(n, "name", "<lambda>")), "%s=%s" % (arg.arg, ast.unparse(dflt)), "%s:%d" % (m.relpath, n.lineno),
                             "the default value of `%s` is one mutable object created when the function is defined and shared by every call that omits the argument: state leaks between cipher objects" % arg.arg)
    # class-level mutable attributes written through instances / the class
    for m in scope:
        for cn in [x for x in ast.walk(m.tree) if isinstance(x, ast.ClassDef)]:
            muts = {}
            for stn in cn.body:
                if isinstance(stn, ast.Assign) and len(stn.targets) == 1 and isinstance(stn.targets[0], ast.Name) and isinstance(stn.value, (ast.List, ast.Dict, ast.Set)):
                    muts[stn.targets[0].id] = stn
            if not muts:
                continue
            for n in ast.walk(cn):
                tgt = None
                if isinstance(n, (ast.Assign, ast.AugAssign)):
                    for t in (n.targets if isinstance(n, ast.Assign) else [n.target]):
                        if isinstance(t, ast.Subscript) and isinstance(t.value, ast.Attribute) and t.value.attr in muts:
                            tgt = t.value.attr
                if isinstance(n, ast.Call) and isinstance(n.func, ast.Attribute) and n.func.attr in ("append", "extend", "insert", "pop", "remove", "clear", "update", "sort", "reverse") and isinstance(n.func.value, ast.Attribute) and n.func.value.attr in muts:
                    tgt = n.func.value.attr
                if tgt:
                    chk.fail(P("no-shared-class-state"), "%s.%s" % (m.name, cn.name), "%s mutated" % tgt, "%s:%d" % (m.relpath, n.lineno), "class-level container %s is modified in place: state shared by all objects of the class" % tgt)
    # module-level state: `global` statements in the analysed modules
    for m in scope:
        for n in ast.walk(m.tree):
            if isinstance(n, ast.Global):
                chk.fail(P("no-module-state"), m.name, "global %s" % ", ".join(n.names), "%s:%d" % (m.relpath, n.lineno), "a function rebinds module-level state")
    chk.ok(P("shared-state-scan"), "pyaes + plug-in adapter", "%d functions: defaults, class-level containers, global statements" % nfun, "", "no object created once (default argument, class body, module) is modified by cipher objects")
    # every mode keeps its running state in attributes initialised by its own constructor from fresh objects or arguments
    for name, (cls, kind, ctor, refkw) in MODES.items():
        pass


def stream_helper_rules(prog, chk, pid):
    """encrypt_stream / decrypt_stream: every chunk the input stream delivers is fed and written, in order, until the stream is
    exhausted (an EMPTY read -- a short read is not the end of the input), then the feeder is finalised and its output written"""
    P = lambda s_: "%s.%s" % (pid, s_)
    fi = prog.func(BFQ + "._feed_stream")
    where = "%s:%d" % (fi.file, fi.lineno)
    ex = Exec(prog, policy=lambda e, f, d: False)
    res = ex.run(fi)
    ev = res.events
    in_loop = lambda e: any(f[0] == "loop" for f in e.ctx)
    reads = [e for e in ev if e.kind == "mcall" and e.d["name"] == "read" and in_loop(e)]
    ok, why = len(reads) == 1 and unsnap(reads[0].d["recv"]).op == "param" and unsnap(reads[0].d["recv"]).args[0] == fi.params[1], "the loop does not read the input stream exactly once per iteration"
    if ok:
        chunk = unsnap(reads[0].d["result"])
        breaks = [g for g in ev if g.kind == "guard" and g.d.get("term") == "break"]
        others = [e for e in ev if e.kind in ("break", "return", "raise") and in_loop(e)]
        good = len(breaks) == 1 and len([e for e in others if e.kind == "break"]) == 1 and not [e for e in others if e.kind != "break"]
        if good:
            from bfsa.guard import raise_rel

            r = raise_rel(breaks[0])
            good = r[0] == "rel" and r[1] == "Falsy" and unsnap(r[2]) is chunk
        if not good and not breaks and not others:
            # `while chunk := in.read(n):` -- the loop's own test is "the chunk read is not empty"
            from bfsa.guard import rel as _rel

            lids = [f[1] for f in reads[0].ctx if f[0] == "loop"]
            lr_ = ex.loops.get(lids[-1]) if lids else None
            if lr_ is not None and lr_.kind == "while" and lr_.cond is not None and reads[0].ctx and reads[0].ctx[-1][0] == "loop":
                rc_ = _rel(lr_.cond, True)
                good = rc_[0] == "rel" and rc_[1] == "Truthy" and unsnap(rc_[2]) is chunk
        ok, why = good, "the loop ends on something other than an empty read (for example a short read): input delivered afterwards is dropped"
    loop_cond = lambda f: any(l_.cond is f[1] for l_ in ex.loops.values())  # the frame of a while loop's own test, not a test inside the iteration
    if ok:
        feeds = [e for e in ev if e.kind == "mcall" and e.d["name"] == "feed" and in_loop(e)]
        writes = [e for e in ev if e.kind == "mcall" and e.d["name"] == "write" and in_loop(e)]
        ok = (len(feeds) == 1 and len(writes) == 1 and len(feeds[0].d["args"]) == 1 and unsnap(feeds[0].d["args"][0]) is chunk and unsnap(writes[0].d["args"][0]) is unsnap(feeds[0].d["result"])
              and not [f for f in feeds[0].ctx if f[0] == "if" and not loop_cond(f)] and not [f for f in writes[0].ctx if f[0] == "if" and not loop_cond(f)])
        why = "a chunk is not fed unchanged, or its converted output is not written, on every iteration"
    if ok:
        tail_f = [e for e in ev if e.kind == "mcall" and e.d["name"] == "feed" and not in_loop(e)]
        tail_w = [e for e in ev if e.kind == "mcall" and e.d["name"] == "write" and not in_loop(e)]
        ok = len(tail_f) == 1 and not tail_f[0].d["args"] and len(tail_w) == 1 and unsnap(tail_w[0].d["args"][0]) is unsnap(tail_f[0].d["result"]) and tail_f[0].uid > reads[0].uid
        why = "after the loop the feeder is not finalised with feed() and its output written"
    chk.require(ok, P("stream-helper-loop"), fi.qualname, "while True: chunk = in.read(n); if not chunk: break; out.write(feeder.feed(chunk)) ... out.write(feeder.feed())", where,
                "the stream helpers consume the whole input: only an empty read ends the loop, every chunk is fed and written, then the final block", why)
    for nm, cls in (("encrypt_stream", "Encrypter"), ("decrypt_stream", "Decrypter")):
        f2 = prog.func(BFQ + "." + nm)
        e2 = Exec(prog, policy=lambda e, f, d: False)
        r2 = e2.run(f2)
        news = [e for e in r2.events if e.kind == "new" and e.d["cls"].name == cls]
        calls = [e for e in r2.events if e.kind == "call" and e.d["callee"].name == "_feed_stream"]
        ok2 = len(news) == 1 and len(calls) == 1
        if ok2:
            a = news[0].d["args"]
            kw = news[0].d["kwargs"]
            ok2 = unsnap(a[0]).op == "param" and unsnap(a[0]).args[0] == f2.params[0] and unsnap(kw.get("padding", a[1] if len(a) > 1 else NONE)).op == "param"
            ca = [unsnap(x) for x in calls[0].d["args"]]
            ok2 = ok2 and ca[0] is unsnap(news[0].d["result"]) and [x.args[0] for x in ca[1:4] if x.op == "param"] == [f2.params[1], f2.params[2], f2.params[3]]
        chk.require(ok2, P("stream-helper-wiring"), f2.qualname, "%s(mode, padding=padding); _feed_stream(feeder, in_stream, out_stream, block_size)" % cls, "%s:%d" % (f2.file, f2.lineno),
                    "the helper builds the matching feeder for the given mode and padding and pumps in_stream to out_stream", "%s is not wired as documented" % nm)


def run_all(prog, chk, pid, tier):
    for group in (lambda: mode_call_rules(prog, chk, pid, tier), lambda: feeder_rules(prog, chk, pid, tier), lambda: pkcs7_rules(prog, chk, pid),
                  lambda: shared_state_rules(prog, chk, pid), lambda: stream_helper_rules(prog, chk, pid)):
        try:
            group()
        except DataDependentControl as dd_:
            e = dd_.ev
            chk.fail("%s.data-independent-control" % pid, e.fn.qualname if e.fn is not None else AESQ, "branch on %s" % show(e.d["cond"], 3)[:80], e.where,
                     "the control flow of a mode of operation / feeder depends on the value of a byte produced by the block function: which bytes are output changes when that byte happens to have the tested value")
