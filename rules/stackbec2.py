"""BEC2 container, whole file: Bec2File.to_binary -> unpack_auth_blocks + Bf3File.from_binary through the real stack.

Enumerated: which authentication blocks are present and in which order, key selectors, customer key absent / present, which decryptors the reader has, update-block versions (symbolic and the boundary constants).
Symbolic: session key, AES keys, security code, customer key, component content, EC private keys (abstract EC layer of
rules/stackrt.py), random bytes.
"""
from __future__ import annotations

from typing import Dict, List, Optional, Tuple

from bfsa.exprs import sbytes
from bfsa.guard import unsnap
from bfsa.load import AnalysisError
from bfsa.terms import C, NONE, Term, cval, is_const, mk, show

from rules import c16stream as S
from rules import stackfile as F
from rules import stackrt as R

B2 = "bec2format.bec2file"
BF3Q = "bec2format.bf3file"
SIG = b"BEC2\x00"

CLASSES = {
    "Bf3Component": BF3Q + ".Bf3Component",
    "Bf3FileC": BF3Q + ".Bf3File",
}

DRV = '''
def drv(sk, k1, ck, code, ver, b0, t0, Bf3Component, Bf3FileC, rcpt):
    bf3 = Bf3FileC({}, [Bf3Component({0xC1: t0}, b0)])
    f = Bec2File(bf3, [%(blocks)s], sk)
    wenc = [%(wenc)s]
    raw = f.to_binary(wenc)
    rdr = BytesReader(raw)
    sig = rdr.read(5)
    blocks, key = Bec2File.unpack_auth_blocks(rdr, [%(renc)s])
    g = None
    if key is not None:
        g = Bf3FileC.from_binary(rdr, None, True, key)
    return (raw, sig, key, [(b.tag, getattr(b, "version", None), getattr(b, "key_selector", None), getattr(b, "binary_value", None)) for b in blocks],
            [(c.description, c.blob) for c in g.components] if g is not None else None, f.session_key)
'''


def _scenarios(tier):
    """(blocks source list, writer encryptors, reader encryptors, expected tags in order, description)"""
    out = []
    cust_w = "SoftwareCustKeyEncryptor(k1, ck, %d)"
    upd = "UpdateAuthBlock(code, ver)"
    # the block's plaintext is a 10-byte placeholder followed by the session key: the customer key's only legal position is 0
    out.append((["InitCustKeyAuthBlock()"], [cust_w % 0], [cust_w % 0], [1], "customer-key block, customer key in the placeholder"))
    out.append((["InitCustKeyAuthBlock()"], ["SoftwareCustKeyEncryptor(k1)"], ["SoftwareCustKeyEncryptor(k1)"], [1], "customer-key block without customer key"))
    out.append(([upd], [], ["ConfigSecurityCodeEncryptor(code)"], [2], "update block"))
    for sel in range(4):
        out.append((["InitEccAuthBlock(%d)" % sel], ["EccDecryptor(%d, rcpt)" % sel], ["EccDecryptor(%d, rcpt)" % sel], [3], "ECC block, selector %d, explicit recipient" % sel))
    out.append((["InitCustKeyAuthBlock()", upd], [cust_w % 0], [cust_w % 0, "ConfigSecurityCodeEncryptor(code)"], [1, 2], "customer-key + update, both decryptors"))
    out.append((["InitCustKeyAuthBlock()", upd], [cust_w % 0], ["ConfigSecurityCodeEncryptor(code)"], [1, 2], "customer-key + update, only the update decryptor"))
    out.append((["InitCustKeyAuthBlock()", upd], [cust_w % 0], [cust_w % 0], [1, 2], "customer-key + update, only the customer-key decryptor"))
    out.append((["InitEccAuthBlock(1)", upd], ["EccDecryptor(1, rcpt)"], ["EccDecryptor(1, rcpt)", "ConfigSecurityCodeEncryptor(code)"], [3, 2], "ECC + update, both decryptors"))
    out.append(([upd, "InitEccAuthBlock(2)"], ["EccDecryptor(2, rcpt)"], ["ConfigSecurityCodeEncryptor(code)"], [2, 3], "update + ECC, only the update decryptor"))
    out.append((["InitCustKeyAuthBlock()", "InitEccAuthBlock(3)", upd], [cust_w % 0, "EccDecryptor(3, rcpt)"], [cust_w % 0, "EccDecryptor(3, rcpt)", "ConfigSecurityCodeEncryptor(code)"], [1, 3, 2], "all three blocks, all decryptors"))
    out.append((["InitCustKeyAuthBlock()", "InitEccAuthBlock(3)", upd], [cust_w % 0, "EccDecryptor(3, rcpt)"], ["EccDecryptor(3, rcpt)"], [1, 3, 2], "all three blocks, only the ECC decryptor"))
    out.append((["InitEccAuthBlock(0)"], ["EccDecryptor(0, rcpt)"], ["EccDecryptor(1, rcpt)"], [3], "ECC block, reader only has another selector"))
    # several ECC (de)cryptors with different selectors in one list: the one whose selector matches must be used, wherever it stands
    out.append((["InitEccAuthBlock(2)"], ["EccDecryptor(0, rcpt2)", "EccDecryptor(2, rcpt)"], ["EccDecryptor(0, rcpt2)", "EccDecryptor(2, rcpt)"], [3], "ECC block selector 2, matching decryptor listed second"))
    out.append((["InitEccAuthBlock(3)"], ["EccDecryptor(3, rcpt)", "EccDecryptor(1, rcpt2)"], ["EccDecryptor(1, rcpt2)", "ConfigSecurityCodeEncryptor(code)", "EccDecryptor(3, rcpt)"], [3], "ECC block selector 3, matching decryptor listed last on the reading side"))
    out.append((["InitEccAuthBlock(1)", upd], ["EccDecryptor(0, rcpt2)", "EccDecryptor(1, rcpt)"], ["ConfigSecurityCodeEncryptor(code)", "EccDecryptor(0, rcpt2)", "EccDecryptor(1, rcpt)"], [3, 2], "ECC selector 1 + update, mixed decryptor list"))
    return out


def bec2_file_rules(prog, chk, pid, tier, want=("roundtrip", "same-key", "fresh", "ecc-layout")):
    P = lambda s: "%s.%s" % (pid, s)
    counter: Dict[str, int] = {}

    def extra():
        h = R.ecc_hooks(counter)
        h[R.PLUG + ".random_bytes"] = R.rng_hook(counter)
        return h

    stk = R.Stack(prog, extra_hooks=extra)
    fw = prog.method(B2 + ".Bec2File", "to_binary")
    fu = prog.method(B2 + ".Bec2File", "unpack_auth_blocks")
    sk = R.syms("sk", 16)
    ck = R.syms("ck", 10)
    blob = R.syms("a", 21)
    tval = R.syms("t", 1)
    base_args = {"k1": mk("param", "k1"), "ck": sbytes(ck), "code": mk("param", "code"), "b0": sbytes(blob), "t0": sbytes(tval)}
    for k, q in CLASSES.items():
        base_args[k] = mk("class", q)
    bad_rt = bad_key = bad_ecc = None
    n = 0
    versions = [mk("param", "ver"), C(0), C(255)] if tier != "thorough" else [mk("param", "ver")] + [C(v) for v in (0, 1, 127, 128, 254, 255)]
    for blocks, wenc, renc, tags, desc in _scenarios(tier):
        for ver in (versions if any("Update" in b for b in blocks) else versions[:1]):
            n += 1
            counter.clear()
            src = DRV % {"blocks": ", ".join(blocks), "wenc": ", ".join(wenc), "renc": ", ".join(renc)}
            # the recipient's key pair: an abstract private key object made by the (hooked) generator before the run proper
            src = src.replace("    bf3 = Bf3FileC(", "    rcpt = generate_private_ecc_key()\n    rcpt2 = generate_private_ecc_key()\n    bf3 = Bf3FileC(", 1)
            args = dict(base_args, sk=sbytes(sk), ver=ver, rcpt=NONE)
            ex, res = stk.run(B2, src, args)
            label = "%s%s" % (desc, "" if not any("Update" in b for b in blocks) else ", version %s" % show(ver, 2))
            if res.dead or res.ret is None or unsnap(res.ret).op != "tuple":
                bad_rt = bad_rt or (label, "writing or reading raises")
                continue
            raw, sig, key, blks, comps, fkey = unsnap(res.ret).args[0]
            can_open = _can_open(blocks, renc)
            # ---- session key
            kb = R.flat(ex, res, key) if unsnap(key) is not NONE else None
            if can_open:
                if kb is None or len(kb) != 16 or any(a is not b for a, b in zip(kb, sk)):
                    bad_key = bad_key or (label, "recovered session key is %s" % (show(key, 4)[:80]))
            else:
                if unsnap(key) is not NONE:
                    bad_key = bad_key or (label, "a session key is returned although no block can be opened")
            # ---- blocks: tags in order, version of the update block, selector of the ECC block; unopened blocks kept verbatim
            items = ex.iter_items(blks, res.state)
            okb = items is not None and len(items) == len(tags)
            why = "read %s blocks, wrote %d" % (len(items) if items is not None else "?", len(tags))
            if okb:
                for tg, it, bsrc in zip(tags, items, blocks):
                    t_, v_, s_, bv = ex.unpack_to(it, 4, res.state, None)
                    if not (is_const(t_) and cval(t_) == tg):
                        okb, why = False, "block tag %s, wrote %d" % (show(t_, 2), tg)
                    opened = _opened(bsrc, renc)
                    if opened and tg == 2 and unsnap(v_) is not unsnap(ver):
                        okb, why = False, "update block version reads back as %s, wrote %s" % (show(v_, 3), show(ver, 3))
                    if opened and tg == 3:
                        want_sel = int(bsrc.split("(")[1].rstrip(")") or 0)
                        if not (is_const(s_) and cval(s_) == want_sel):
                            okb, why = False, "key selector reads back as %s" % show(s_, 2)
                    if not opened and unsnap(bv) is NONE:
                        okb, why = False, "a block the reader cannot open is not kept as an unknown block"
            if not okb:
                bad_rt = bad_rt or (label, why)
            # ---- content
            if can_open:
                ci = ex.iter_items(comps, res.state) if unsnap(comps) is not NONE else None
                okc = ci is not None and len(ci) == 1
                if okc:
                    d, bb = ex.unpack_to(ci[0], 2, res.state, None)
                    gb = R.flat(ex, res, bb)
                    okc = gb is not None and len(gb) == len(blob) and all(a is b for a, b in zip(gb, blob))
                if not okc:
                    bad_rt = bad_rt or (label, "component content differs after reading back")
            # ---- ECC block layout (first ECC block of the file)
            if "ecc-layout" in want and 3 in tags and bad_ecc is None:
                bad_ecc = _ecc_layout(ex, res, raw, blocks, sk, counter, label)
    if "roundtrip" in want:
        chk.require(bad_rt is None, P("stack-bec2-roundtrip"), fu.qualname, "%d scenarios: block subsets / orders, selectors 0..3, customer key positions, decryptor subsets, versions" % n, "%s:%d" % (fu.file, fu.lineno),
                    "reading back what was written yields the same blocks in order (tag, version, key selector; unopened blocks kept verbatim) and the same component content",
                    "%s: %s" % bad_rt if bad_rt else "")
    if "same-key" in want:
        chk.require(bad_key is None, P("stack-bec2-session-key"), fw.qualname, "%d scenarios, symbolic 16-byte session key" % n, "%s:%d" % (fw.file, fw.lineno),
                    "every block the reader can open yields exactly the file's session key (term identity for every key value, no byte dropped or altered); with no usable decryptor no key is returned",
                    "%s: %s" % bad_key if bad_key else "")
    if "ecc-layout" in want:
        chk.require(bad_ecc is None, P("stack-ecc-block"), B2 + ".EccEncryptor.encrypt", "ECC blocks of the scenarios above", "",
                    "an ECC block is selector | 04 | ephemeral public point (64 bytes) | AES-CBC_k(session key), k = sha256(ECDH x of ephemeral and recipient)[:16], one fresh ephemeral key per block",
                    "%s: %s" % bad_ecc if bad_ecc else "")
    if "fresh" in want:
        _fresh_key_rules(prog, chk, pid, stk, counter, base_args)
    chk.info["stack_bec2_scenarios"] = n


def _opened(bsrc: str, renc: List[str]) -> bool:
    if bsrc.startswith("InitCustKey"):
        return any(r.startswith("SoftwareCustKey") for r in renc)
    if bsrc.startswith("Update"):
        return any(r.startswith("ConfigSecurityCode") for r in renc)
    if bsrc.startswith("InitEcc"):
        sel = bsrc.split("(")[1].rstrip(")") or "0"
        return any(r.startswith("EccDecryptor(%s," % sel) for r in renc)
    return False


def _can_open(blocks, renc) -> bool:
    return any(_opened(b, renc) for b in blocks)


def _ecc_layout(ex, res, raw, blocks, sk, counter, label):
    rb = R.flat(ex, res, raw)
    if rb is None:
        return (label, "file bytes unknown")
    pos = 5
    for b in blocks:
        tag, ln = rb[pos], rb[pos + 1]
        if not (is_const(tag) and is_const(ln)):
            return (label, "auth block header is not constant")
        body = rb[pos + 2: pos + 2 + cval(ln)]
        pos += 2 + cval(ln)
        if cval(tag) != 3:
            continue
        sel = int(b.split("(")[1].rstrip(")") or 0)
        if len(body) != 1 + 1 + 64 + 16:
            return (label, "ECC block has %d bytes, expected 82" % len(body))
        if not (is_const(body[0]) and cval(body[0]) == sel and is_const(body[1]) and cval(body[1]) == 4):
            return (label, "ECC block does not start with selector, 04")
        pubs = body[2:66]
        p0 = pubs[0]
        if not (p0.op == "pub" and all(x.op == "pub" and x.args[0] is p0.args[0] and x.args[1] == i for i, x in enumerate(pubs))):
            return (label, "bytes 2..65 are not the raw ephemeral public point")
        q = p0.args[0]
        if not (q.op == "uf" and q.args[0] == "G*" and q.args[1].op == "sym" and str(q.args[1].args[0]).startswith("d")):
            return (label, "the point is not the public key of a freshly generated private key")
        ct = body[66:]
        c0 = ct[0]
        if c0.op != "aesE":
            return (label, "the last 16 bytes are not one AES block")
        k = c0.args[0]
        plain = R.cbc_plain_blocks(ct, k)
        if plain is None or len(plain) != 16 or any(a is not b for a, b in zip(plain, sk)):
            return (label, "the encrypted field is not CBC(zero IV) of the session key")
        kt = show(k, 12)
        ku = unsnap(k)
        if not (ku.op == "slice" and is_const(ku.args[2]) and cval(ku.args[2]) == 16 and unsnap(ku.args[1]) is NONE and "sha256" in kt and "digest" in kt and "dh" in kt):
            return (label, "AES key is not sha256(ECDH secret).digest()[:16] (%s)" % kt[:100])
        # the ECDH secret pairs this block's ephemeral key with the recipient (the first key generated in the scenario: d1)
        if show(q.args[1], 2) not in kt:
            return (label, "the ECDH secret is not computed with this block's ephemeral key")
        if "?d1_" not in kt:
            return (label, "the ECDH secret is not computed with the public key of the encryptor whose selector matches the block (%s)" % kt[:120])
    return None


def _fresh_key_rules(prog, chk, pid, stk, counter, base_args):
    """no session key given: one random key per file object, used by every block and by the BF3 part; ephemeral keys per write"""
    P = lambda s: "%s.%s" % (pid, s)
    fi = prog.method(B2 + ".Bec2File", "__init__")
    src = '''
def drv(k1, ck, code, b0, t0, Bf3Component, Bf3FileC):
    rcpt = generate_private_ecc_key()
    dec = [SoftwareCustKeyEncryptor(k1, ck, 0), EccDecryptor(2, rcpt), ConfigSecurityCodeEncryptor(code)]
    f1 = Bec2File(Bf3FileC({}, [Bf3Component({0xC1: t0}, b0)]), [InitCustKeyAuthBlock(), InitEccAuthBlock(2), UpdateAuthBlock(code, 7)])
    f2 = Bec2File(Bf3FileC({}, [Bf3Component({0xC1: t0}, b0)]), [InitEccAuthBlock(2)])
    r1 = f1.to_binary(dec)
    r1b = f1.to_binary(dec)
    r2 = f2.to_binary(dec)
    rd = BytesReader(r1)
    rd.read(5)
    blocks, key = Bec2File.unpack_auth_blocks(rd, dec)
    keys = []
    for e, tag in ((dec[0], 1), (dec[1], 3), (dec[2], 2)):
        rd2 = BytesReader(r1)
        rd2.read(5)
        bl, k = Bec2File.unpack_auth_blocks(rd2, [e])
        keys.append(k)
    return (f1.session_key, f2.session_key, key, keys, r1, r1b, r2)
'''
    counter.clear()
    ex, res = stk.run(B2, src, base_args)
    ok, why = not res.dead and res.ret is not None, "scenario raises"
    if ok:
        k1_, k2_, key, keys, r1, r1b, r2 = unsnap(res.ret).args[0]
        a, b = R.flat(ex, res, k1_), R.flat(ex, res, k2_)
        ok = a is not None and b is not None and len(a) == 16 and len(b) == 16 and all(x.op == "sym" for x in a + b) and not (set(x.uid for x in a) & set(x.uid for x in b))
        why = "two file objects without an explicit key do not get two independent 16-byte random keys"
    if ok:
        ok = counter.get("random_bytes", 0) == 2
        why = "random_bytes was called %d times for two file objects (one key per file expected)" % counter.get("random_bytes", 0)
    if ok:
        ks = ex.iter_items(keys, res.state)
        allk = [R.flat(ex, res, key)] + [R.flat(ex, res, x) for x in (ks or [])]
        ok = ks is not None and len(ks) == 3 and all(x is not None and len(x) == 16 and all(p is q for p, q in zip(x, a)) for x in allk)
        why = "not every authentication block of a file wraps the file's one session key"
    chk.require(ok, P("stack-one-key-per-file"), fi.qualname, "two file objects, three block kinds, each opened alone and together", "%s:%d" % (fi.file, fi.lineno),
                "a file without an explicit key draws one 16-byte random key, distinct files draw distinct keys, and every block opened on its own yields that same key", why)
    ok2, why2 = ok, why
    if ok:
        b1, b1b, b2 = R.flat(ex, res, r1), R.flat(ex, res, r1b), R.flat(ex, res, r2)

        def eph(rb):
            return [x.args[0] for x in rb if x.op == "pub" and x.args[1] == 0]

        e1, e1b, e2 = eph(b1), eph(b1b), eph(b2)
        ok2 = len(e1) == 1 and len(e1b) == 1 and len(e2) == 1 and len({e1[0].uid, e1b[0].uid, e2[0].uid}) == 3
        why2 = "writes do not each use a freshly generated ephemeral key (ephemeral points %s)" % [show(x, 3) for x in e1 + e1b + e2]
        if ok2:
            # the BF3 part is authenticated and encrypted under the file's key: MAC terms are keyed with it
            keyed = [x for x in b1 if x.op == "aesE" and unsnap(x.args[0]).op == "sbytes" and all(p is q for p, q in zip(unsnap(x.args[0]).args[0], a))]
            ok2 = len(keyed) >= 32
            why2 = "the BF3 part of the file is not authenticated under the file's session key"
    chk.require(ok2, P("stack-fresh-ephemeral"), B2 + ".EccEncryptor.encrypt", "same file written twice, second file", "",
                "every write of an ECC block generates a new ephemeral key pair; directory and payload MACs are computed under the file's session key", why2)
