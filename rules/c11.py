"""C11 -- configuration updates are history-independent.

Decided statically: delete-before-append on every path of set_config; the swallowing handler catches only its intended
"not found" raise (EXC provenance); pop-or-set of the three derived comment keys on every normal path and no other comment
written; auth blocks keyed by their own tag; exactly one initial block and the update block exactly when security code and
identifier exist.  Not decided: arbitrary operation histories (the rules are the per-operation facts histories compose from)."""
from __future__ import annotations

import ast

from bfsa.guard import dominates, rel, show_rel, swallowing_tries, unsnap
from bfsa.layout import is_call_named, meth_call
from bfsa.load import AnalysisError
from bfsa.symexec import Exec
from bfsa.terms import C, NONE, Term, cval, is_const, mk, show, subterms
from bfsa.types import type_of

from rules.bf3 import BF3, _self_attr
from rules import stackrt

LEVEL = "other"
BEC2 = "bec2format.bec2file"


def set_config_rules(prog, chk, pid):
    P = lambda s: "%s.%s" % (pid, s)
    fi = prog.method(BF3 + ".Bf3File", "set_config")
    ex = Exec(prog, policy=lambda e, f, d: f.name == "_get_config_ndx" or (f.name == "<lambda>" and f.module.name == BF3))
    res = ex.run(fi)
    where = "%s:%d" % (fi.file, fi.lineno)
    ev = res.events
    apps = [e for e in ev if e.kind == "mcall" and e.d["name"] == "append" and _self_attr(e.d["recv"], "components")]
    dels = [e for e in ev if e.kind == "delitem" and _self_attr(e.d["base"], "components")]
    muts = [e for e in ev if (e.kind in ("mcall",) and e.d["name"] in ("append", "insert", "extend", "pop", "remove", "sort", "reverse", "clear") and _self_attr(e.d["recv"], "components")) or (e.kind in ("delitem", "setitem", "setslice") and _self_attr(e.d["base"], "components")) or (e.kind == "setattr" and e.d["name"] == "components")]
    ok = len(apps) == 1 and len(dels) == 1 and dels[0].uid < apps[0].uid and muts and muts[-1] is apps[0] and not [f for f in apps[0].ctx if f[0] in ("if", "loop", "try", "except")]
    why = "set_config does not delete the old configuration component first and append the new one last, unconditionally"
    search = None
    if ok:
        # index deleted = result of the search for the TYPE=configuration component
        idx = unsnap(dels[0].d["index"])
        calls = [e for e in ev if e.kind == "call" and e.d["callee"].name == "_get_config_ndx"]
        ok = len(calls) == 1 and calls[0].d["result"] is not None and unsnap(calls[0].d["result"]) is idx
        why = "the index deleted is not the one found by the configuration search"
        search = calls[0] if calls else None
    if ok:
        # the search returns the index of a component whose TYPE tag equals 03, scanning self.components
        rets = [e for e in ev if e.kind == "return" and e.fn.name == "_get_config_ndx" and not e.d.get("implicit")]
        # (the search proper may be a generic walker that did not exist on the pinned tree, called by _get_config_ndx with the test as a callback:
        # then the returns that matter are the walker's, and _get_config_ndx hands its result on)
        inner = [e for e in ev if e.kind == "return" and not e.d.get("implicit") and e.fn.name not in ("_get_config_ndx", "<lambda>") and any(q.endswith("._get_config_ndx") for q in e.stack[:-1])]
        if inner and all(unsnap(r.d["value"]).op in ("call", "phi", "index") for r in rets):
            rets = inner
        good = bool(rets)
        for r in rets:
            conds = [rel(f[1], f[2]) for f in r.ctx if f[0] == "if"]
            hit = False
            for c in conds:
                if c[0] == "rel" and c[1] == "Eq":
                    for x, y in ((c[2], c[3]), (c[3], c[2])):
                        if is_const(y) and cval(y) == b"\x03" and _is_type_lookup(x):
                            hit = True
            if not hit or unsnap(r.d["value"]).op != "index":
                good = False
        ok = good
        why = "the search does not return the index of the component whose TYPE tag is 03 (configuration)"
    chk.require(ok, P("delete-before-append"), fi.qualname, "del components[index of TYPE=03]; ...; components.append(new)", where, "an existing configuration component is removed before the new one is appended as the last mutation of the component list", why)
    # ---- handler provenance
    tries = [e for e in ev if e.kind == "try" and any("KeyError" in h for h in e.d["handlers"])]
    hend = [e for e in ev if e.kind == "handler_end" and e.d["falls_through"] and "KeyError" in e.d["classes"]]
    if hend:
        tid = hend[0].d["tid"]
        inside = [e for e in ev if any(f[0] == "try" and f[1] == tid for f in e.ctx)]
        explicit = [e for e in inside if e.kind == "raise" and e.d.get("exc") in ("KeyError", "LookupError")]
        implicit = []
        for e in inside:
            if e.kind == "subscript":
                tb = type_of(ex, unsnap(e.d["base"]))
                if not (tb <= frozenset(["list", "tuple", "bytes", "str", "bytearray"]) and "?" not in tb):
                    implicit.append(e)
            if e.kind == "mutate" and e.d.get("how") == "dictpop" and not e.d.get("has_default"):
                implicit.append(e)
        for e in implicit:
            chk.fail(P("handler-catches-only-not-found"), e.fn.qualname, "%s[%s] inside try/except KeyError: pass" % (show(e.d.get("base", e.d.get("obj")), 3), show(e.d["index"], 2)), e.where,
                     "the swallowing `except KeyError: pass` also catches the implicit KeyError of this lookup: a component without TYPE tag makes the search look like 'no configuration', the old configuration survives and a second one is appended")
        if not implicit:
            chk.require(len(explicit) >= 1, P("handler-catches-only-not-found"), fi.qualname, "except KeyError: pass  <-  raise KeyError('... does not contain configuration')", hend[0].where,
                        "the only KeyError that can reach the swallowing handler is the explicit 'not found' raise of the search", "no explicit not-found raise reaches the handler")
    else:
        # no swallowing handler: the search must signal absence some other way; the delete must then be conditional on presence
        chk.ok(P("handler-catches-only-not-found"), fi.qualname, "no swallowing KeyError handler", where, "absence of a configuration is not signalled through a swallowed exception")


def _is_type_lookup(t: Term) -> bool:
    """description[0xC3] / description.get(0xC3) of a component element"""
    t = unsnap(t)
    if t.op == "sub" and is_const(t.args[1]) and cval(t.args[1]) == 0xC3:
        b = unsnap(t.args[0])
        return b.op == "attr" and b.args[1] == "description"
    mc = meth_call(t)
    if mc and mc[1] == "get" and mc[2] and is_const(mc[2][0]) and cval(mc[2][0]) == 0xC3:
        b = unsnap(mc[0])
        return b.op == "attr" and b.args[1] == "description"
    return False


def comments_rules(prog, chk, pid):
    P = lambda s: "%s.%s" % (pid, s)
    fi = prog.method(BF3 + ".Bf3File", "derive_comments_from_config")
    # private helper methods of the class (a shared "set or remove one comment" step, say) are interpreted as part of the derivation
    ex = Exec(prog, policy=lambda e, f, d: f.cls is fi.cls and f.name.startswith("_") and not f.name.startswith("__") and f.name != "_get_config_ndx" and d < 3)
    res = ex.run(fi)
    where = "%s:%d" % (fi.file, fi.lineno)
    ev = res.events
    writes = []  # (key, kind, event)
    for e in ev:
        if e.kind == "setitem" and _self_attr(e.d["base"], "comments"):
            writes.append((e.d["index"], "set", e))
        if e.kind == "mcall" and _self_attr(e.d["recv"], "comments"):
            if e.d["name"] == "pop" and len(e.d["args"]) == 2:
                writes.append((e.d["args"][0], "pop", e))
            elif e.d["name"] in ("update", "clear", "setdefault", "popitem", "__setitem__", "__delitem__") or (e.d["name"] == "pop" and len(e.d["args"]) != 2):
                writes.append((NONE, "other:" + e.d["name"], e))
        if e.kind in ("delitem",) and _self_attr(e.d["base"], "comments"):
            writes.append((e.d["index"], "other:del", e))
        if e.kind == "setattr" and e.d["name"] == "comments":
            writes.append((NONE, "other:rebind", e))
    keys = {"Configuration": "create_from_prj_settings", "DeviceSettings": "create_from_dev_settings", "RequiresBusAddress": None}
    foreign = [w for w in writes if not (is_const(w[0]) and cval(w[0]) in keys) or w[1].startswith("other")]
    chk.require(not foreign, P("only-derived-keys-written"), fi.qualname, "writes to comments: Configuration, DeviceSettings, RequiresBusAddress only", foreign[0][2].where if foreign else where,
                "no other comment is touched by the derivation", "derivation also writes/removes %s" % (show(foreign[0][0], 3) if foreign else ""))
    for k, maker in keys.items():
        sets = [w[2] for w in writes if is_const(w[0]) and cval(w[0]) == k and w[1] == "set"]
        pops = [w[2] for w in writes if is_const(w[0]) and cval(w[0]) == k and w[1] == "pop"]
        ok = len(sets) == 1 and len(pops) == 1
        why = "key %r is not handled by exactly one store and one removal" % k
        if ok:
            s, p = sets[0], pops[0]
            # complementary placement: (try-else, except) of the same try, or (if-true, if-false) of the same test, nothing else around
            fs = [f for f in s.ctx if f[0] in ("if", "loop", "try", "tryelse", "except")]
            fp = [f for f in p.ctx if f[0] in ("if", "loop", "try", "tryelse", "except")]
            comp = False
            none_test = None
            if len(fs) == 1 and len(fp) == 1:
                a, b = fs[0], fp[0]
                if a[0] == "tryelse" and b[0] == "except" and a[1] == b[1]:
                    comp = True
                    # the handler must be the one for the maker's documented error only
                    comp = comp and len(b[3]) == 1 and b[3][0].endswith("NameError")
                if a[0] == "if" and b[0] == "if" and a[1] is b[1] and a[2] != b[2]:
                    comp = True
                    r_ = rel(a[1], True)
                    if r_[0] == "rel" and r_[1] in ("Is", "IsNot") and (r_[2] is NONE or r_[3] is NONE):
                        none_test = unsnap(r_[3] if r_[2] is NONE else r_[2])
            ok = comp
            why = "store and removal of %r are not on complementary paths (else/except of one try, or the two arms of one test)" % k
            if ok:
                v = unsnap(s.d["value"])
                wrapped = v.op == "call" and isinstance(v.args[0], Term) and v.args[0].op == "builtin" and v.args[0].args[0] == "str"
                inner = unsnap(v.args[1][0]) if wrapped else v
                from_handler = None
                if none_test is not None and inner is none_test and inner.op == "phi":
                    # `x = derived-or-None` followed by `if x is None: remove else: store str(x)`: the stored value is the non-None arm,
                    # and the None arm has to be the "nothing to derive" outcome (the maker's documented error / the test on the configuration)
                    arms_ = [unsnap(inner.args[1]), unsnap(inner.args[2])]
                    nn = [x for x in arms_ if not (is_const(x) and cval(x) is None)]
                    if len(nn) == 1:
                        from_handler = inner.args[0]
                        inner = nn[0]
                if maker:
                    okv = wrapped and is_call_named(inner, maker)
                    if okv:
                        a = [x for x in inner.args[1] if unsnap(x).op != "class"]
                        okv = len(a) == 1 and unsnap(a[0]).op == "param" and unsnap(a[0]).args[0] == "config"
                    if okv and from_handler is not None:
                        # the None outcome must come from the handler of the maker's NameError only
                        fh = unsnap(from_handler)
                        tries = [t_ for t_ in ev if t_.kind == "try" and fh.op == "sym" and fh.args[0] == "exc" and t_.d["tid"] == fh.args[1]]
                        okv = len(tries) == 1 and len(tries[0].d["handlers"]) == 1 and len(tries[0].d["handlers"][0]) == 1 and str(tries[0].d["handlers"][0][0]).endswith("NameError")
                else:
                    okv = is_const(inner) and cval(inner) == "Yes"
                    c = from_handler if from_handler is not None else fs[0][1]
                    okv = okv and any(unsnap(t).op == "param" and unsnap(t).args[0] == "config" for t in subterms(c)) and any(is_const(t) and cval(t) == (0x0620, 0x20) for t in subterms(c))
                ok = okv
                why = "value stored under %r does not derive from the current configuration argument only" % k
        chk.require(ok, P("pop-or-set:" + k), fi.qualname, "comments[%r] = <derived> | comments.pop(%r, '')" % (k, k), (sets or pops or [None])[0].where if (sets or pops) else where,
                    "on every normal path the key is either replaced by a value derived from the current configuration or removed", why)



def _strip_attr_leaves(t: Term, name: str):
    """t with every leaf X.<name> of its conditional tree replaced by X (None leaves kept); None when some leaf is of another form"""
    t = unsnap(t)
    if t.op == "phi":
        a, b = _strip_attr_leaves(t.args[1], name), _strip_attr_leaves(t.args[2], name)
        if a is None or b is None:
            return None
        return mk("phi", t.args[0], a, b)
    if t is NONE:
        return t
    if t.op == "attr" and t.args[1] == name:
        return unsnap(t.args[0])
    return None


def _version_never_none(prog) -> bool:
    """both ConfigId factories pass an int.from_bytes(...) value as the version of every identifier they build"""
    from bfsa.layout import builtin_call

    for fname in ("create_from_prj_settings", "create_from_dev_settings"):
        fi = prog.method("bec2format.configid.ConfigId", fname)
        ex = Exec(prog, policy=lambda e, f, d: False)
        res = ex.run(fi)
        news = [e for e in res.events if e.kind == "new" and e.d["cls"].name == "ConfigId"]
        if not news:
            return False
        params = prog.method("bec2format.configid.ConfigId", "__init__").params[1:]
        for e in news:
            a = dict(zip(params, e.d["args"]))
            a.update(e.d["kwargs"])
            v = a.get("version")
            bc = builtin_call(unsnap(v)) if v is not None else None
            if not (bc and bc[0] == "int.from_bytes"):
                return False
    init = prog.method("bec2format.configid.ConfigId", "__init__")
    exi = Exec(prog, policy=lambda e, f, d: False)
    ri = exi.run(init)
    sets = {e.d["name"]: unsnap(e.d["value"]) for e in ri.events if e.kind == "setattr"}
    return "version" in sets and sets["version"].op == "param" and sets["version"].args[0] == "version"


def auth_block_rules(prog, chk, pid):
    P = lambda s: "%s.%s" % (pid, s)
    # add_auth_block / __init__: keyed by the stored value's own tag
    fi = prog.method(BEC2 + ".Bec2File", "add_auth_block")
    ex = Exec(prog, policy=lambda e, f, d: False)
    res = ex.run(fi)
    sets = [e for e in res.events if e.kind == "setitem" and _self_attr(e.d["base"], "auth_blocks")]
    ok = len(sets) == 1
    if ok:
        k, v = unsnap(sets[0].d["index"]), unsnap(sets[0].d["value"])
        o = ex.obj(res.state, v)
        if o is not None and o.origin is not None:
            v = unsnap(o.origin)
        ok = k.op == "attr" and k.args[1] == "tag" and unsnap(k.args[0]) is v and v.op == "param"
    chk.require(ok, P("blocks-keyed-by-tag"), fi.qualname, "self.auth_blocks[auth_block.tag] = auth_block", "%s:%d" % (fi.file, fi.lineno), "one block per kind by construction: the mapping key is the stored block's own tag", "auth_blocks is not keyed by the stored block's tag")
    cls = prog.cls(BEC2 + ".Bec2File")
    bad = []
    for name, m in cls.methods.items():
        for n in ast.walk(m.node):
            if isinstance(n, ast.Attribute) and n.attr == "auth_blocks" and isinstance(n.ctx, ast.Store) and name != "__init__":
                bad.append("%s:%d" % (m.file, n.lineno))
            if isinstance(n, ast.Call) and isinstance(n.func, ast.Attribute) and isinstance(n.func.value, ast.Attribute) and n.func.value.attr == "auth_blocks" and n.func.attr in ("update", "setdefault", "append", "__setitem__"):
                bad.append("%s:%d" % (m.file, n.lineno))
            if isinstance(n, ast.Subscript) and isinstance(n.ctx, ast.Store) and isinstance(n.value, ast.Attribute) and n.value.attr == "auth_blocks" and name != "add_auth_block":
                bad.append("%s:%d" % (m.file, n.lineno))
    fi0 = prog.method(BEC2 + ".Bec2File", "__init__")
    ex0 = Exec(prog, policy=lambda e, f, d: False)
    r0 = ex0.run(fi0)
    s0 = [e for e in r0.events if e.kind == "setattr" and e.d["name"] == "auth_blocks"]
    ok0 = len(s0) == 1
    if ok0:
        v = unsnap(s0[0].d["value"])
        ok0 = v.op == "comp" and v.args[0] == "dict"
        if ok0:
            kv = unsnap(v.args[1])
            k, val = unsnap(kv.args[0][0]), unsnap(kv.args[0][1])
            ok0 = k.op == "attr" and k.args[1] == "tag" and unsnap(k.args[0]) is val
        elif v.op == "ref":
            # the same mapping filled by a loop: a dictionary created in the constructor whose only writes are  d[block.tag] = block
            sets_ = [e for e in r0.events if e.kind == "setitem" and unsnap(e.d["base"]) is v]
            other_ = [e for e in r0.events if e.kind in ("mutate", "delitem") and unsnap(e.d.get("obj", e.d.get("base"))) is v]
            def _keyed(e):
                k_, val_ = unsnap(e.d["index"]), unsnap(e.d["value"])
                return k_.op == "attr" and k_.args[1] == "tag" and unsnap(k_.args[0]) is val_
            o_ = (r0.state.heap if r0.state is not None else {}).get(v.args[0])
            ok0 = bool(sets_) and not other_ and all(_keyed(e) for e in sets_) and o_ is not None and o_.kind == "dict"
    chk.require(not bad and ok0, P("blocks-keyed-by-tag"), cls.qualname, "auth_blocks written only as {block.tag: block}", bad[0] if bad else "%s:%d" % (fi0.file, fi0.lineno), "no other writer of the mapping exists", "auth_blocks has another writer / is not built as {block.tag: block}")
    # ---- derive_auth_blocks_from_config
    fi = prog.method(BEC2 + ".Bec2File", "derive_auth_blocks_from_config")
    ex = Exec(prog, policy=lambda e, f, d: f.name == "add_auth_block")
    res = ex.run(fi)
    where = "%s:%d" % (fi.file, fi.lineno)
    ev = res.events
    news = [e for e in ev if e.kind == "new" and e.d["cls"].name.endswith("AuthBlock")]
    adds = [e for e in ev if e.kind == "setitem" and _self_attr(e.d["base"], "auth_blocks")]
    init = [e for e in news if e.d["cls"].name in ("InitCustKeyAuthBlock", "InitEccAuthBlock")]
    ok = len(init) == 2 and {e.d["cls"].name for e in init} == {"InitCustKeyAuthBlock", "InitEccAuthBlock"}
    why = "the initial block is not chosen between customer-key and ECC block"
    if ok:
        for e in init:
            fr = [f for f in e.ctx if f[0] in ("if", "loop", "try", "except")]
            want_pol = e.d["cls"].name == "InitCustKeyAuthBlock"
            good = len(fr) == 1 and fr[0][0] == "if" and fr[0][2] is want_pol and _is_flag(fr[0][1], "cust_key_support")
            added = [a for a in adds if unsnap(a.d["value"]) is unsnap(e.d["result"])]
            if not good or len(added) != 1 or e.d["args"]:
                ok, why = False, "exactly one initial block, selected by cust_key_support, must be added"
    chk.require(ok, P("one-initial-block"), fi.qualname, "cust_key_support ? InitCustKeyAuthBlock() : InitEccAuthBlock()", where, "exactly the requested initial block is added", why)
    upd = [e for e in news if e.d["cls"].name == "UpdateAuthBlock"]
    ok = len(upd) == 1
    why = "expected one construction site of the update block"
    if ok:
        u = upd[0]
        a = u.d["args"]
        code, ver = (unsnap(a[0]), unsnap(a[1])) if len(a) == 2 else (None, None)
        mc = meth_call(code) if code is not None else None
        ok = bool(mc) and mc[1] == "get" and unsnap(mc[0]).op == "param" and unsnap(mc[0]).args[0] == "config" and len(mc[2]) == 1 and is_const(mc[2][0]) and cval(mc[2][0]) == (0x0202, 0x82)
        why = "security code of the update block is not config[(0x0202, 0x82)]"
        if ok:
            guard_on = None
            lifted = _strip_attr_leaves(ver, "version") if ver is not None and ver.op == "phi" else None
            if lifted is not None and _version_never_none(prog):
                # (a.version if ... else b.version if ... else None): the version of (a if ... else b if ... else None); an identifier built by the two
                # factories always has an integer version, so `version is not None` says that an identifier exists
                cid, guard_on, ok = lifted, ver, True
            else:
                ok = ver is not None and ver.op == "attr" and ver.args[1] == "version"
                cid = unsnap(ver.args[0]) if ok else None
            ids = [t for t in subterms(cid)] if cid is not None else []
            ok = ok and any(is_call_named(t, "create_from_prj_settings") for t in ids) and any(is_call_named(t, "create_from_dev_settings") for t in ids)
            why = "version of the update block is not the version of the configuration's identifier (project settings, else device settings)"
        if ok:
            fr = [f for f in u.ctx if f[0] in ("if", "loop", "try", "except")]
            good = len(fr) == 1 and fr[0][0] == "if" and fr[0][2] is True
            if good:
                r = rel(fr[0][1], True)
                atoms = r[1] if r[0] == "and" else [r]
                seen = set()
                for at in atoms:
                    if at[0] == "rel" and at[1] == "IsNot" and (at[3] is NONE or at[2] is NONE):
                        x = unsnap(at[2] if at[3] is NONE else at[3])
                        if x is code:
                            seen.add("code")
                        elif x is (guard_on if guard_on is not None else cid):
                            seen.add("id")
                good = r[0] == "and" and len(atoms) == 2 and seen == {"code", "id"}
            ok = good
            why = "update block is not built exactly when both the security code and the identifier exist"
            added = [x for x in adds if unsnap(x.d["value"]) is unsnap(u.d["result"])]
            ok = ok and len(added) == 1
    chk.require(ok, P("update-block-iff"), fi.qualname, "code is not None and id is not None -> UpdateAuthBlock(code, id.version)", upd[0].where if upd else where, "the update block carries the configuration's security code and identifier version, exactly when both exist", why)


def _is_flag(c: Term, pname: str) -> bool:
    c = unsnap(c)
    if c.op == "truthy":
        c = unsnap(c.args[0])
    return c.op == "param" and c.args[0] == pname


def comment_history_scenarios(prog, chk, pid, tier):
    """derive_comments_from_config: the comments after deriving for configuration X and then for Y are the comments a file gets when
    only Y is derived (same other comments) -- for enumerated pairs (X, Y), including pairs that share the project-settings
    identifier and differ elsewhere; interpreted in concrete-control mode, final dictionaries compared entry by entry"""
    import itertools

    from rules import stackrt as R

    P = lambda s: "%s.%s" % (pid, s)
    stk = R.Stack(prog)
    fi = prog.method(BF3 + ".Bf3File", "derive_comments_from_config")
    base = "(0x620, 0x01): b'\\x27\\xfa', (0x620, 0x05): b'\\x00\\x11', (0x620, 0x07): b'\\x09', (0x620, 0x06): b'Prj'"
    cfgs = {
        "A: project + device settings + bus address": "{%s, (0x620, 0x02): b'\\x1a\\x85', (0x620, 0x04): b'\\x04', (0x620, 0x03): b'Lobby', (0x620, 0x20): b'\\x01'}" % base,
        "B: same project id, other device settings, no bus address": "{%s, (0x620, 0x02): b'\\x1a\\x85', (0x620, 0x04): b'\\x05', (0x620, 0x03): b'Garage'}" % base,
        "C: same project id only": "{%s, (0x620, 0x02): b'\\x1a\\x85'}" % base,
        "D: other version, bus address": "{(0x620, 0x01): b'\\x27\\xfa', (0x620, 0x05): b'\\x00\\x11', (0x620, 0x07): b'\\x0a', (0x620, 0x06): b'Prj', (0x620, 0x20): b'\\x01'}",
        "E: no naming values": "{(0x0101, 0x01): b'x'}",
    }
    src = ("def drv():\n    f = Bf3File({'Creator': 'keep me'})\n    f.derive_comments_from_config(%s)\n    f.derive_comments_from_config(%s)\n"
           "    g = Bf3File({'Creator': 'keep me'})\n    g.derive_comments_from_config(%s)\n    return (f.comments, g.comments)\n")
    bad = None
    n = 0
    for (na, ca), (nb, cb) in itertools.permutations(cfgs.items(), 2):
        n += 1
        ex, res = stk.run(BF3, src % (ca, cb, cb), {})
        if res.dead or res.ret is None:
            bad = bad or ("%s then %s" % (na, nb), "raises %s" % (ex._dead[1] if ex._dead else "?"))
            continue
        fc, gc = unsnap(res.ret).args[0]
        fo, go = ex.obj(res.state, fc), ex.obj(res.state, gc)
        if fo is None or go is None or not (fo.exact and go.exact):
            bad = bad or ("%s then %s" % (na, nb), "final comments are not a definite dictionary")
            continue
        fa = {k: (cval(v) if is_const(v) else show(v, 4)) for k, v in fo.kv.items()}
        ga = {k: (cval(v) if is_const(v) else show(v, 4)) for k, v in go.kv.items()}
        if fa != ga or fa.get("Creator") != "keep me":
            diff = {k: (fa.get(k), ga.get(k)) for k in set(fa) | set(ga) if fa.get(k) != ga.get(k)}
            bad = bad or ("%s then %s" % (na, nb), "comments differ from a fresh derivation of the second configuration: %s" % diff)
    chk.require(bad is None, P("comment-history-scenarios"), fi.qualname, "%d ordered pairs of configurations" % n, "%s:%d" % (fi.file, fi.lineno),
                "after deriving comments for X and then Y the comments equal those of a file on which only Y was derived; unrelated comments are untouched", "%s: %s" % bad if bad else "")


def derivation_scenarios(prog, chk, pid, tier):
    """derive_auth_blocks_from_config on enumerated configurations: which naming values / security code are present is enumerated,
    the security code, the two version values and the numeric naming values are symbolic byte strings; interpreted in
    concrete-control mode, each configuration derived twice"""
    import itertools

    from bfsa.exprs import sbytes
    from rules import stackrt as R

    P = lambda s: "%s.%s" % (pid, s)
    stk = R.Stack(prog)
    fi = prog.method(BEC2 + ".Bec2File", "derive_auth_blocks_from_config")
    feats = ["code", "customer", "project", "prj_version", "prj_name", "dev_version", "dev_name"]
    key = {"code": "(0x0202, 0x82)", "customer": "(0x620, 0x01)", "project": "(0x620, 0x05)", "prj_version": "(0x620, 0x07)", "prj_name": "(0x620, 0x06)", "dev_version": "(0x620, 0x04)", "dev_name": "(0x620, 0x03)"}
    symv = {"code": R.syms("sc", 8), "customer": R.syms("cu", 2), "project": R.syms("pr", 2), "prj_version": R.syms("pv", 1), "dev_version": R.syms("dv", 1)}
    num = lambda bs: mk("call", mk("builtin", "int.from_bytes"), (sbytes(bs), C("big")), (), 0)
    bad = None
    n = 0
    for r in range(len(feats) + 1):
        for subset in itertools.combinations(feats, r):
            for cust in (False, True):
                if cust and tier != "thorough" and len(subset) not in (0, 3, 7):
                    continue
                n += 1
                args = {f: sbytes(symv[f]) for f in subset if f in symv}
                cfg = "{" + ", ".join("%s: %s" % (key[f], f if f in symv else ("b'Prj'" if f == "prj_name" else "b'Dev'")) for f in subset) + "}"
                src = ("def drv(Bf3FileC%s):\n    f = Bec2File(Bf3FileC(), [], b'0123456789abcdef')\n    f.derive_auth_blocks_from_config(%s, %s)\n    f.derive_auth_blocks_from_config(%s, %s)\n"
                       "    return [(k, b.tag, getattr(b, 'version', None), getattr(b, 'config_security_code', None)) for k, b in f.auth_blocks.items()]\n") % ("".join(", " + a for a in sorted(args)), cfg, cust, cfg, cust)
                ex, res = stk.run(BEC2, src, dict(args, Bf3FileC=mk("class", "bec2format.bf3file.Bf3File")))
                has = lambda f: f in subset
                prj_ok = has("prj_version") and ((has("customer") and has("project")) or has("prj_name"))
                dev_ok = has("dev_version") and (has("customer") or has("dev_name"))
                first = 1 if cust else 3
                want_update = has("code") and (prj_ok or dev_ok)
                why = None
                if res.dead or res.ret is None:
                    why = "raises %s" % (ex._dead[1] if ex._dead else "?")
                else:
                    items = ex.iter_items(res.ret, res.state) or []
                    rows = [ex.unpack_to(it, 4, res.state, None) for it in items]
                    if len(rows) != (2 if want_update else 1):
                        why = "%d block(s), expected %d" % (len(rows), 2 if want_update else 1)
                    else:
                        k0, t0, v0, c0 = rows[0]
                        if not (is_const(k0) and cval(k0) == first and is_const(t0) and cval(t0) == first):
                            why = "initial block has tag %s" % show(t0, 2)
                        if want_update and not why:
                            k1, t1, v1, c1 = rows[1]
                            wv = num(symv["prj_version"] if prj_ok else symv["dev_version"])
                            cb = R.flat(ex, res, c1)
                            if not (is_const(t1) and cval(t1) == 2 and is_const(k1) and cval(k1) == 2):
                                why = "second block is not the update block"
                            elif unsnap(v1) is not wv:
                                why = "update block announces version %s, expected the %s-settings version %s" % (show(v1, 4)[:60], "project" if prj_ok else "device", show(wv, 4)[:60])
                            elif cb is None or len(cb) != 8 or any(a is not b for a, b in zip(cb, symv["code"])):
                                why = "update block does not carry the configuration's security code"
                if why and bad is None:
                    bad = ("%s, cust_key_support=%s" % (sorted(subset), cust), why)
    chk.require(bad is None, P("derivation-scenarios"), fi.qualname, "%d configurations x initial-block kind, each derived twice, symbolic code / versions" % n, "%s:%d" % (fi.file, fi.lineno),
                "exactly the requested initial block, plus an update block with the security code and the version of the project-settings identifier (the device-settings identifier only when no project-settings identifier exists) exactly when code and identifier exist; deriving twice changes nothing",
                "configuration %s: %s" % bad if bad else "")


def run(prog, chk, tier):
    from rules import state as _state

    _state.library_state_rules(prog, chk, "C11")
    chk.explanation = ("Per-operation facts from which history independence composes: set_config removes the component found by the TYPE=03 search before appending the new "
                       "one as its last mutation; the KeyError-swallowing handler can only be reached by the explicit not-found raise (any implicit KeyError source inside the "
                       "try body -- typed by shape inference -- is a finding); each derived comment key is stored on one path and removed on the complementary path, with "
                       "values derived from the current configuration only, and nothing else is written; the auth-block mapping is keyed by the block's own tag and has no "
                       "other writer; derivation adds exactly one initial block and the update block exactly when code and identifier exist. Arbitrary histories are not "
                       "enumerated.")
    set_config_rules(prog, chk, "C11")
    comments_rules(prog, chk, "C11")
    auth_block_rules(prog, chk, "C11")
    stackrt.guarded(chk, "C11.derivation-scenarios", derivation_scenarios, prog, chk, "C11", tier)
    stackrt.guarded(chk, "C11.comment-history-scenarios", comment_history_scenarios, prog, chk, "C11", tier)
    # the structural rules recognise the if/else spelling; every combination of present / absent naming values and security code is also derived in the scenarios
    chk.shape_fallback("one-initial-block", ["derivation-scenarios"])
    chk.shape_fallback("update-block-iff", ["derivation-scenarios"])
    chk.shape_fallback("pop-or-set", ["comment-history-scenarios"])
