"""C07 -- one fresh session key per file, wrapped identically by every auth block."""
from __future__ import annotations

from rules import bec2
from rules import stackbec2
from rules import stackfile
from rules import stackrt

LEVEL = "other"


def run(prog, chk, tier):
    chk.explanation = ("Key flow is decided by data provenance on the syntax trees: every block is packed with self.session_key (assigned only in the constructor), "
                       "each pack wraps the key it is given, the body is serialised with the same attribute; on reading, the key-disagreement guard is located by its "
                       "relational normal form and must cover every pair of blocks; blocks that cannot be opened are kept as (tag read, bytes read) and re-emitted "
                       "unchanged; freshness is an effect property: the random key and the ephemeral key pair are drawn inside the per-call bodies and never stored in "
                       "defaults, class attributes or globals. Statistical freshness of os.urandom is not decided.")
    from rules import iteronce as _iteronce
    from rules.state import LIB_MODULES as _LIB

    _iteronce.iterable_rules(prog, chk, "C07", _LIB)
    from rules import state as _state

    _state.library_state_rules(prog, chk, "C07")
    bec2.single_key_source_rules(prog, chk, "C07")
    bec2.header_writer_rules(prog, chk, "C07")
    hdr = bec2.header_reader_rules(prog, chk, "C07")
    bec2.key_flow_rules(prog, chk, "C07", hdr)
    bec2.ecies_rules(prog, chk, "C07")
    # the ephemeral point an ECC block carries is the raw form of the key object: header added / removed exactly
    from rules import c09

    c09.header_rules(prog, chk, "C07")
    stackrt.guarded(chk, "C07.stack-bf3", stackfile.bf3_file_rules, prog, chk, "C07", tier, want=("rekey",))
    stackrt.guarded(chk, "C07.stack-bec2", stackbec2.bec2_file_rules, prog, chk, "C07", tier, want=("same-key", "fresh"))
    chk.assume("os.urandom and SigningKey.generate(entropy=None) deliver fresh randomness (not a static property)")
