"""C04 -- damaged or truncated files are never silently accepted as different content.

Decided statically: the *mechanism* is complete -- every field of the container is MAC-covered, compared, or delimits a region
whose end is enforced; MAC verification is skipped only for check_cmac=False; reads are exact-length.  The exhaustive
byte-flip / truncation enumeration itself is not performed."""
from __future__ import annotations

from bfsa.guard import unsnap
from bfsa.layout import RField
from bfsa.terms import subterms

from rules import bec2, bf3
from rules.exactread import rule_exact_reads
from rules import stackrt, stacktamper

LEVEL = "other"


def coverage_rule(m, chk, pid):
    """every field read is used: MAC input, guard operand, region delimiter, or flows into the returned object"""
    rb = m.rb
    ev = m.res_read.events
    used_terms = set()
    for e in ev:
        for k, v in e.d.items():
            vals = v if isinstance(v, (tuple, list)) else [v]
            for x in vals:
                if hasattr(x, "op"):
                    if e.kind == "mcall" and e.d.get("name") == "read" and k == "result":
                        continue
                    if e.kind == "extcall" and e.d.get("name") == "int.from_bytes" and k in ("result", "args"):
                        continue
                    for t in subterms(x):
                        used_terms.add(t.uid)
    role = {
        "dir_size": "delimits the directory region (end enforced)", "directory": "parsed through a bounded sub-reader", "entry_len": "delimits an entry (end enforced) / sentinel",
        "entry": "entry MAC input (prefix) and bounded sub-reader", "adr": "compared with the reader position; inside the entry MAC", "stored": "payload length; compared with declared; inside the entry MAC",
        "declared": "compared with stored; returned; inside the entry MAC", "pmac": "compared with MAC(payload); inside the entry MAC", "desc_len": "delimits the tag list; inside the entry MAC",
        "desc": "bounded sub-reader; inside the entry MAC", "tag_id": "uniqueness guard; returned; inside the entry MAC", "tag_len": "delimits the tag value; inside the entry MAC",
        "tag_value": "returned; inside the entry MAC", "emac": "compared with MAC(entry prefix)", "payload": "payload MAC input; returned",
    }
    for name, fields in rb.fields.items():
        for f in fields:
            if not isinstance(f, RField):
                continue
            used = unsnap(f.result).uid in used_terms or any(unsnap(v).uid in used_terms for v in f.int_views) or f.sub is not None
            chk.require(used, "%s.no-field-dropped" % pid, "bec2format.bf3file.Bf3File.dir_from_binary/from_binary", "field %s" % name, f.ev.where, role.get(name, "used"), "field '%s' is read and then ignored: damage to it cannot be noticed" % name)


def run(prog, chk, tier):
    m = bf3.model(prog)
    chk.explanation = ("The reader grammar is bound to the documented layout; then for every field: it is inside a verified MAC's coverage, compared by a raising guard, or "
                       "delimits a region whose end is enforced. Both MAC guards exist in the right normal form, dominate acceptance and are skipped only when check_cmac "
                       "is false; every region end and the end of file are enforced; BytesReader.read raises on short / negative-size reads (a necessary condition: the "
                       "MACs are over zero-padded data, so dropping trailing 0x00 bytes keeps them valid). Signature guards of both file kinds. The enumeration of all "
                       "single-byte damages is not performed.")
    from rules import state as _state

    _state.library_state_rules(prog, chk, "C04")
    if bf3.rule_reader_layout(m, chk, "C04"):
        bf3.reader_rules(m, chk, "C04")
        coverage_rule(m, chk, "C04")
    rule_exact_reads(prog, chk, "C04")
    hdr = bec2.header_reader_rules(prog, chk, "C04")
    bec2.key_flow_rules(prog, chk, "C04", hdr)
    # the MACs the guards compare are one CBC chain over the whole (zero-padded) data, last block: a MAC that covers only part of its input lets damage through
    from rules import adapter

    adapter.mac_definition_rules(prog, chk, "C04")
    stackrt.guarded(chk, "C04.tamper-scenarios", stacktamper.tamper_rules, prog, chk, "C04", tier)
    chk.assume("AES-CBC-MAC under an unknown key is unforgeable; the BEC2 header itself is protected per block (CRC inside the AES container / ECIES), not by a MAC")
