"""C18 -- signatures verify, reject tampering, interoperate and follow RFC 6979.

Decided statically (the structural part only): range guards on r and s dominate their use in verification; zero guards in
signing and the deterministic retry loop; exact-length / trailing-junk guards of the three signature decoders; decoder
exception-escape sets and their conversion to BadSignatureError; the canonisation arms; the verification equation's
data flow.  Not decided: that honest signatures verify, tamper rejection as executed, OpenSSL interop, RFC 6979 outputs."""
from __future__ import annotations

from bfsa.exc import ExcAnalysis
from bfsa.guard import disjuncts, dominates, raise_rel, rel, show_rel, unsnap
from bfsa.layout import builtin_call, is_call_named, meth_call
from bfsa.length import lin, lin_eq
from bfsa.heap import Unsupported
from bfsa.load import AnalysisError
from bfsa.symexec import Exec
from bfsa.terms import C, NONE, Term, cval, is_const, mk, show, subterms

from rules import c19
from rules import stackrt

LEVEL = "other"
E = "register_crypto_plugin.ecdsa."


def _run(prog, q, pol=None):
    fi = prog.func(E + q)
    ex = Exec(prog, policy=pol or (lambda e, f, d: False))
    return fi, ex, ex.run(fi)


def verify_rules(prog, chk, pid):
    P = lambda s: "%s.%s" % (pid, s)
    fi, ex, res = _run(prog, "ecdsa.Public_key.verifies")
    where = "%s:%d" % (fi.file, fi.lineno)
    ev = res.events
    inv = [e for e in ev if e.kind == "call" and e.d["callee"].name == "inverse_mod"]
    if len(inv) != 1:
        chk.fail(P("range-guards"), fi.qualname, "inverse_mod(s, n)", where, "verification does not invert s exactly once")
        return
    sig = mk("param", fi.params[2])
    n_t = None
    a = inv[0].d["args"]
    s_t, n_t = unsnap(a[0]), unsnap(a[1])
    ok_s = s_t.op == "attr" and s_t.args[1] == "s" and unsnap(s_t.args[0]) is sig
    r_t = mk("attr", sig, "r")
    guards = [g for g in ev if g.kind == "guard" and g.d.get("term") == "return" and dominates(g, inv[0])]
    found = {"r": set(), "s": set()}
    for g in guards:
        # returns False
        arm = g.d.get("arm")
        rv = [x for x in ev[arm[0] - res.start:arm[1] - res.start] if x.kind == "return"] if arm else []
        if not rv or not (is_const(rv[0].d["value"]) and cval(rv[0].d["value"]) is False):
            continue
        for d in disjuncts(raise_rel(g)):
            if d[0] != "rel" or d[1] != "Lt":
                continue
            x, y = unsnap(d[2]), unsnap(d[3])
            for nm, t in (("r", r_t), ("s", s_t)):
                if x is t and is_const(y) and cval(y) == 1:
                    found[nm].add("low")
                if y is t and lin_eq(lin(x), {("atom", n_t.uid): 1, 1: -1}):
                    found[nm].add("high")
    chk.require(ok_s and found["r"] == {"low", "high"} and found["s"] == {"low", "high"}, P("range-guards"), fi.qualname, "r < 1 or r > n-1 -> False; s < 1 or s > n-1 -> False; before inverse_mod(s, n)", where,
                "signatures with r or s outside [1, n-1] are rejected before any arithmetic", "range guards found: r %s, s %s (need low and high for both, returning False, before the inversion)" % (sorted(found["r"]), sorted(found["s"])))
    # equation: v = (u1*G + u2*Q).x() % n == r with u1 = hash*c % n, u2 = r*c % n
    rets = [e for e in ev if e.kind == "return" and e.stack == (fi.qualname,) and not is_const(unsnap(e.d["value"]))]
    ok = len(rets) == 1
    if ok:
        v = unsnap(rets[0].d["value"])
        ok = v.op == "cmp" and v.args[0] == "Eq" and any(unsnap(x) is r_t for x in v.args[1:])
        txt = show(v, 12)
        c_t = unsnap(inv[0].d["result"])
        u1 = [t for t in subterms(v) if t.op == "bin" and t.args[0] == "Mod" and unsnap(t.args[2]) is n_t and unsnap(t.args[1]).op == "bin" and unsnap(t.args[1]).args[0] == "Mult" and any(unsnap(x) is c_t for x in unsnap(t.args[1]).args[1:]) and any(unsnap(x).op == "param" and unsnap(x).args[0] == fi.params[1] for x in unsnap(t.args[1]).args[1:])]
        u2 = [t for t in subterms(v) if t.op == "bin" and t.args[0] == "Mod" and unsnap(t.args[2]) is n_t and unsnap(t.args[1]).op == "bin" and unsnap(t.args[1]).args[0] == "Mult" and any(unsnap(x) is c_t for x in unsnap(t.args[1]).args[1:]) and any(unsnap(x) is r_t for x in unsnap(t.args[1]).args[1:])]
        ok = ok and bool(u1) and bool(u2) and "'x'" in txt
    chk.require(ok, P("verification-equation"), fi.qualname, "x(u1*G + u2*Q) mod n == r, u1 = e*s^-1 mod n, u2 = r*s^-1 mod n", where, "the value compared with r is built from hash, r and the inverse of s as ECDSA prescribes", "returned verdict is not the ECDSA verification equation")
    # u1*G + u2*Q can be the point at infinity (r = -e/d mod n, craftable by whoever knows d): it has no x coordinate (INFINITY.x() is None), the signature is
    # invalid (SEC 1, 4.1.4 step 5) and must be refused like any other -- not fail with TypeError in `None % n`
    xs = [e for e in ev if e.kind in ("mcall", "call") and (e.d.get("name") == "x" or getattr(e.d.get("callee"), "name", None) == "x")]
    okx, whyx = bool(xs), "no x() call on the computed point"
    for xe in xs:
        pt = unsnap(xe.d["recv"]) if xe.d.get("recv") is not None else None
        if pt is None:
            continue
        alts = set()
        stack = [pt]
        while stack:
            t_ = unsnap(stack.pop())
            alts.add(t_.uid)
            if t_.op == "phi":
                stack += [t_.args[1], t_.args[2]]
        guarded = False
        for g in ev:
            if g.kind != "guard" or g.d.get("term") != "return" or not dominates(g, xe):
                continue
            arm = g.d.get("arm")
            rv = [x for x in ev[arm[0] - res.start:arm[1] - res.start] if x.kind == "return"] if arm else []
            if not rv or not (is_const(rv[0].d["value"]) and cval(rv[0].d["value"]) is False):
                continue
            for d in disjuncts(raise_rel(g)):
                if d[0] == "rel" and d[1] in ("Eq", "Is") and d[3] is not None:
                    for x_, y_ in ((d[2], d[3]), (d[3], d[2])):
                        if unsnap(x_).uid in alts and "INFINITY" in show(y_, 3):
                            guarded = True
        if not guarded:
            okx, whyx = False, "the sum u1*G + u2*Q is used without being compared with INFINITY: for r = -e/d mod n it is the point at infinity, x() is None and `None % n` raises TypeError instead of the signature being refused"
    chk.require(okx, P("verify-infinity-refused"), fi.qualname, "xy == INFINITY -> return False, before xy.x() % n", where,
                "a signature for which u1*G + u2*Q is the point at infinity is refused (SEC 1, 4.1.4 step 5) before the x coordinate is taken", whyx)


def rfc6979_walk_rule(prog, chk, pid):
    """RFC 6979 section 3.2 decided on the behaviour of generate_k, whatever its code looks like: the function is interpreted on concrete control (orders of two bit lengths,
    SHA-256 / SHA-1 digest sizes, 0 / 5 extra bytes, retry counts 0 and 1) with HMAC as an uninterpreted function of (key bytes, message bytes), int2octets / bits2octets
    replaced by symbolic octet strings and bits2int by a scripted sequence of candidates (too small, too large, acceptable, ...).  Every T handed to bits2int must be the
    concatenation of V blocks the RFC prescribes at that point -- which fixes every K and V update before it -- and the value returned must be the candidate the RFC accepts."""
    from bfsa.exprs import sb_items, sbytes
    from bfsa.terms import sym

    P = lambda s_: "%s.%s" % (pid, s_)
    fi = prog.func(E + "rfc6979.generate_k")
    where = "%s:%d" % (fi.file, fi.lineno)
    HL = {"hashlib.sha256": 32, "hashlib.sha1": 20}

    def H(key, msg, holen):
        u = mk("uf", "hmac", tuple(key), tuple(msg))
        return [mk("byteof", u, holen, i) for i in range(holen)]

    cases = []
    # bit lengths that are not multiples of 8 (so that rolen = ceil(qlen / 8) differs from qlen // 8) and that need one resp. two V blocks
    for order in (0x1FFF1, (1 << 262) + 9):
        for hname in ("hashlib.sha256", "hashlib.sha1"):
            for nextra in (0, 5):
                for retry in (0, 1):
                    cases.append((order, hname, nextra, retry))
    bad = None
    n_t = 0
    for order, hname, nextra, retry in cases:
        holen = HL[hname]
        qlen = order.bit_length()
        rolen = (qlen + 7) // 8
        xo = [sym("x%d_" % i) for i in range(rolen)]
        ho = [sym("h%d_" % i) for i in range(rolen)]
        extra = [sym("e%d_" % i) for i in range(nextra)]
        script = [0, order, order + 5, 7, 9]  # rejected (< 1), rejected (= q), rejected (> q), acceptable, acceptable
        log = {"t": [], "n2s": [], "b2o": [], "digestmod": []}
        hash_t = mk("ext", hname)

        def items_of(ex, t, st):
            it = ex.iter_items(t, st)
            if it is None:
                it = sb_items(unsnap(t))
            if it is None:
                raise Unsupported("HMAC over bytes that are not known item by item: %s" % show(t, 4)[:100])
            return [unsnap(x) for x in it]

        def h_new(ex, args, kwargs, st, node):
            r = ex.new_obj(st, "obj", label="hmac")
            o = ex.obj(st, r)
            key = args[0] if args else kwargs.get("key")
            msg = args[1] if len(args) > 1 else kwargs.get("msg")
            dm = args[2] if len(args) > 2 else kwargs.get("digestmod")
            log["digestmod"].append(dm)
            o.attrs["#key"] = mk("tuple", tuple(items_of(ex, key, st)))
            o.attrs["#msg"] = mk("tuple", tuple(items_of(ex, msg, st) if msg is not None and unsnap(msg) is not NONE else []))
            return r

        def h_meth(ex, recv, name, args, kwargs, st, node):
            o = ex.obj(st, recv)
            if name == "update":
                o.attrs["#msg"] = mk("tuple", tuple(list(unsnap(o.attrs["#msg"]).args[0]) + items_of(ex, args[0], st)))
                return NONE
            if name == "digest":
                return sbytes(H(unsnap(o.attrs["#key"]).args[0], unsnap(o.attrs["#msg"]).args[0], holen))
            raise Unsupported("HMAC method %s" % name)

        def h_n2s(ex, fi_, args, kwargs, st, node):
            log["n2s"].append([unsnap(a) for a in args])
            return sbytes(xo)

        def h_b2o(ex, fi_, args, kwargs, st, node):
            log["b2o"].append([unsnap(a) for a in args])
            return sbytes(ho)

        def h_b2i(ex, fi_, args, kwargs, st, node):
            log["t"].append((items_of(ex, args[0], st), unsnap(args[1])))
            if len(log["t"]) > len(script):
                raise Unsupported("more candidates requested than the scenario provides")
            return C(script[len(log["t"]) - 1])

        ex = Exec(prog, policy=lambda e, f, d: f.module.name.startswith(E.rstrip(".")) and d < 8)
        ex.sym_bytes = True
        ex.ext_hooks = {"hmac.new": h_new}
        ex.hmac_model = h_meth
        ex.summaries = {E + "util.number_to_string": h_n2s, E + "rfc6979.bits2octets": h_b2o, E + "rfc6979.bits2int": h_b2i}
        data = sbytes([sym("d%d_" % i) for i in range(holen)])
        try:
            res = ex.run(fi, args={"order": C(order), "secexp": mk("param", "secexp"), "hash_func": hash_t, "data": data, "retry_gen": C(retry), "extra_entropy": sbytes(extra) if nextra else C(b"")})
        except Unsupported as u:
            raise AnalysisError("generate_k not interpretable on concrete control (order %d bits, %s): %s" % (qlen, hname, u))
        label = "order of %d bits, %s, %d extra byte(s), retry_gen=%d" % (qlen, hname.split(".")[1], nextra, retry)
        # reference
        V = [C(1)] * holen
        K = [C(0)] * holen
        tail = xo + ho + extra
        K = H(K, V + [C(0)] + tail, holen)
        V = H(K, V, holen)
        K = H(K, V + [C(1)] + tail, holen)
        V = H(K, V, holen)
        want_t = []
        left = retry
        want_ret = None
        for cand in script:
            T = []
            while len(T) < rolen:
                V = H(K, V, holen)
                T += V
            want_t.append(T)
            if 1 <= cand < order:
                if left <= 0:
                    want_ret = cand
                    break
                left -= 1
            K = H(K, V + [C(0)], holen)
            V = H(K, V, holen)
        n_t += len(want_t)
        if res.dead or res.ret is None:
            bad = bad or (label, "raises instead of returning a nonce")
            continue
        got_t = log["t"]
        if not (is_const(unsnap(res.ret)) and cval(unsnap(res.ret)) == want_ret):
            bad = bad or (label, "returns %s for the candidate sequence %s; RFC 6979 returns %s (first acceptable candidate after skipping retry_gen of them)" % (show(res.ret, 3), script, want_ret))
            continue
        if len(got_t) != len(want_t):
            bad = bad or (label, "%d candidates are drawn, RFC 6979 draws %d" % (len(got_t), len(want_t)))
            continue
        for i_, ((gt, gq), wt) in enumerate(zip(got_t, want_t)):
            if not (is_const(gq) and cval(gq) == qlen):
                bad = bad or (label, "candidate %d is cut to %s bits, qlen is %d" % (i_ + 1, show(gq, 2), qlen))
                break
            if len(gt) != len(wt) or any(a is not b for a, b in zip(gt, wt)):
                bad = bad or (label, "T of candidate %d (%d bytes) is not the concatenation of the V blocks RFC 6979 prescribes at that point (%d bytes): a K / V update before it deviates" % (i_ + 1, len(gt), len(wt)))
                break
        if not all(unsnap(d_) is hash_t for d_ in log["digestmod"] if d_ is not None) or any(d_ is None for d_ in log["digestmod"]):
            bad = bad or (label, "an HMAC is computed with a hash other than hash_func")
        if not (log["n2s"] and all(len(a) == 2 and a[0].op == "param" and a[0].args[0] == "secexp" and is_const(a[1]) and cval(a[1]) == order for a in log["n2s"])):
            bad = bad or (label, "int2octets is not number_to_string(secexp, order)")
        if not (log["b2o"] and all(len(a) == 2 and a[0] is unsnap(data) and is_const(a[1]) and cval(a[1]) == order for a in log["b2o"])):
            bad = bad or (label, "bits2octets is not applied to (data, order)")
    chk.require(bad is None, P("rfc6979-walk"), fi.qualname, "%d scenarios, %d candidate draws, HMAC uninterpreted" % (len(cases), n_t), where,
                "every candidate is bits2int of exactly the V blocks RFC 6979 3.2 prescribes (steps B-H, K/V updated after every rejected or skipped candidate), the first acceptable candidate after retry_gen skips is returned",
                "%s: %s" % bad if bad else "")


def _is_retry_counter(ex, t) -> bool:
    """the retry counter of the deterministic signer: a loop variable that starts at 0 and grows by one per retry, or the element of itertools.count() / count(0)"""
    t = unsnap(t)
    if t.op == "loopvar":
        lr = ex.loops.get(t.args[0])
        return lr is not None
    if t.op == "elem":
        it = unsnap(t.args[0])
        if it.op == "call" and isinstance(it.args[0], Term) and it.args[0].op == "ext" and it.args[0].args[0] in ("itertools.count", "count"):
            a = it.args[1]
            return len(a) == 0 or (len(a) == 1 and is_const(a[0]) and cval(a[0]) == 0)
    return False


def sign_rules(prog, chk, pid):
    P = lambda s: "%s.%s" % (pid, s)
    fi, ex, res = _run(prog, "ecdsa.Private_key.sign")
    where = "%s:%d" % (fi.file, fi.lineno)
    gs = [g for g in res.events if g.kind == "guard" and g.d.get("term") == "raise" and "RSZeroError" in str(g.d.get("exc"))]
    rets = [e for e in res.events if e.kind == "return" and e.stack == (fi.qualname,)]
    zero = 0
    for g in gs:
        r = raise_rel(g)
        if r[0] == "rel" and r[1] == "Eq" and any(is_const(x) and cval(x) == 0 for x in (r[2], r[3])) and all(dominates(g, x) for x in rets):
            zero += 1
    chk.require(zero == 2, P("zero-guards"), fi.qualname, "r == 0 -> RSZeroError; s == 0 -> RSZeroError", where, "a signature with r = 0 or s = 0 is never returned", "found %d zero guards dominating the return (need 2)" % zero)
    fi, ex, res = _run(prog, "keys.SigningKey.sign_digest_deterministic")
    where = "%s:%d" % (fi.file, fi.lineno)
    # handlers that do not re-raise (they fall through, or jump back to the loop head with `continue`): exactly one, and only for RSZeroError
    import ast as _ast

    hend = [e for e in res.events if e.kind == "handler_end" and (e.d["falls_through"] or (isinstance(e.node, _ast.ExceptHandler) and e.node.body and isinstance(e.node.body[-1], _ast.Continue)))]
    ok = len(hend) == 1 and all(c.endswith("RSZeroError") for c in hend[0].d["classes"])
    gk = [e for e in res.events if e.kind == "call" and e.d["callee"].name == "generate_k"]
    okk = len(gk) == 1 and "retry_gen" in gk[0].d["kwargs"] and _is_retry_counter(ex, gk[0].d["kwargs"]["retry_gen"])
    inc = False
    if okk:
        rc = unsnap(gk[0].d["kwargs"]["retry_gen"])
        if rc.op == "elem":
            inc = True  # itertools.count() yields 0, 1, 2, ...: one step per iteration, i.e. per swallowed RSZeroError
        else:
            lr = ex.loops[rc.args[0]]
            nxt = lr.next.get(rc.args[1])
            inc = nxt is not None and any(t.op == "bin" and t.args[0] == "Add" and is_const(t.args[2]) and cval(t.args[2]) == 1 for t in subterms(unsnap(nxt))) and is_const(lr.init.get(rc.args[1], NONE)) and cval(lr.init[rc.args[1]]) == 0
    chk.require(ok and inc and okk, P("deterministic-retry"), fi.qualname, "retry only on RSZeroError, retry_gen += 1, fed to generate_k", where, "the deterministic nonce is re-derived with an incremented counter only when r or s was zero", "retry loop swallows other errors / does not advance retry_gen / does not pass it to generate_k")


def decoder_rules(prog, chk, pid):
    P = lambda s: "%s.%s" % (pid, s)
    pol = lambda e, f, d: f.name in ("normalise_bytes",)
    # sigdecode_string: len == 2*l
    fi, ex, res = _run(prog, "util.sigdecode_string", pol)
    where = "%s:%d" % (fi.file, fi.lineno)
    rets = [e for e in res.events if e.kind == "return" and e.stack == (fi.qualname,)]
    gs = [g for g in res.events if g.kind == "guard" and g.d.get("term") == "raise" and "MalformedSignature" in str(g.d.get("exc"))]
    ok = False
    for g in gs:
        r = raise_rel(g)
        if r[0] == "rel" and r[1] == "NotEq":
            for x, y in ((r[2], r[3]), (r[3], r[2])):
                x, y = unsnap(x), unsnap(y)
                if x.op == "len" and y.op == "bin" and y.args[0] == "Mult" and any(is_const(z) and cval(z) == 2 for z in y.args[1:]) and any(is_call_named(unsnap(z), "orderlen") for z in y.args[1:]):
                    ok = all(dominates(g, t) for t in rets)
    # halves: signature[:l] and signature[l:]
    parts = [e for e in res.events if e.kind == "call" and e.d["callee"].name == "string_to_number_fixedlen"]
    okp = len(parts) == 2
    if okp:
        a, b = unsnap(parts[0].d["args"][0]), unsnap(parts[1].d["args"][0])
        okp = a.op == "slice" and b.op == "slice" and a.args[1] is NONE and b.args[2] is NONE and unsnap(a.args[2]) is unsnap(b.args[1]) and is_call_named(unsnap(a.args[2]), "orderlen")
    chk.require(ok and okp, P("sigdecode_string"), fi.qualname, "len(sig) != 2*l -> MalformedSignature; r = sig[:l], s = sig[l:]", where, "raw signatures must have exactly twice the order length and are split in the middle", "length guard / split of the raw signature deviates")
    # sigdecode_strings
    fi, ex, res = _run(prog, "util.sigdecode_strings", pol)
    where = "%s:%d" % (fi.file, fi.lineno)
    rets = [e for e in res.events if e.kind == "return" and e.stack == (fi.qualname,)]
    gs = [g for g in res.events if g.kind == "guard" and g.d.get("term") == "raise" and "MalformedSignature" in str(g.d.get("exc")) and all(dominates(g, t) for t in rets)]
    kinds = set()
    for g in gs:
        r = raise_rel(g)
        if r[0] == "rel" and r[1] == "NotEq":
            for x, y in ((r[2], r[3]), (r[3], r[2])):
                x, y = unsnap(x), unsnap(y)
                if x.op == "len" and is_const(y) and cval(y) == 2 and unsnap(x.args[0]).op == "param":
                    kinds.add("count")
                if x.op == "len" and is_call_named(y, "orderlen"):
                    kinds.add("len:" + show(x.args[0], 3))
    chk.require("count" in kinds and len([k for k in kinds if k.startswith("len:")]) == 2, P("sigdecode_strings"), fi.qualname, "exactly two strings, each of order length", where, "the pair form requires two strings of exactly the order length", "guards found: %s" % sorted(kinds))
    # sigdecode_der: two trailing-junk guards
    fi, ex, res = _run(prog, "util.sigdecode_der", pol)
    where = "%s:%d" % (fi.file, fi.lineno)
    rets = [e for e in res.events if e.kind == "return" and e.stack == (fi.qualname,)]
    calls = [e for e in res.events if e.kind == "call" and e.d["callee"].name.startswith("remove_")]
    seq = [c.d["callee"].name for c in calls]
    gs = [g for g in res.events if g.kind == "guard" and g.d.get("term") == "raise" and "UnexpectedDER" in str(g.d.get("exc")) and all(dominates(g, t) for t in rets)]
    junk = 0
    for c in (calls[0], calls[-1]) if len(calls) == 3 else []:
        rest = mk("sub", unsnap(c.d["result"]), C(1))
        if any(any(x is rest for x in subterms(g.d["cond"])) for g in gs):
            junk += 1
    chk.require(seq == ["remove_sequence", "remove_integer", "remove_integer"] and junk == 2, P("sigdecode_der"), fi.qualname, "SEQUENCE{INTEGER r, INTEGER s}; junk after the sequence and after s rejected", where, "DER signatures are exactly SEQUENCE{r, s} with nothing after the sequence or after s", "DER signature parsing is %s with %d trailing-junk guards" % (seq, junk))


def conversion_rules(prog, chk, pid):
    P = lambda s: "%s.%s" % (pid, s)
    # escape sets of the decoders
    an, _ = c19.make_analysis(prog)
    for nm in ("sigdecode_string", "sigdecode_strings", "sigdecode_der"):
        fi = prog.func(E + "util." + nm)
        escs = an.escapes(fi)
        bad = [s for s in escs if not all(alt.endswith("MalformedSignature") or alt.endswith("UnexpectedDER") for alt in s.exc.split("|"))]
        bad = [s for s in bad if not (s.exc == "IndexError" and "numbers.pop(0)" in s.construct)]
        # fixed-length fields have the length of the group order (>= 1 byte for every order >= 2): hex conversion of a
        # non-empty byte string cannot fail
        bad = [s for s in bad if not (s.exc == "ValueError" and s.fn.endswith("string_to_number_fixedlen") and s.construct.startswith("int(binascii.hexlify("))]
        chk.require(not bad, P("decoder-escapes"), fi.qualname, "escapes subset of {MalformedSignature, UnexpectedDER}", "%s:%d" % (fi.file, fi.lineno), "malformed signatures surface only as the two documented decoder errors", "also escapes: %s" % [(s.exc, s.construct) for s in bad][:3])
    fi, ex, res = _run(prog, "keys.VerifyingKey.verify_digest")
    where = "%s:%d" % (fi.file, fi.lineno)
    tries = [e for e in res.events if e.kind == "try"]
    ok = False
    for t in tries:
        for h in t.d["handlers"]:
            if any(c.endswith("UnexpectedDER") for c in h) and any(c.endswith("MalformedSignature") for c in h):
                tid = t.d["tid"]
                decode = [e for e in res.events if e.kind in ("dyncall", "call", "mcall") and any(f[0] == "try" and f[1] == tid for f in e.ctx)]
                conv = [e for e in res.events if e.kind == "raise" and str(e.d["exc"]).endswith("BadSignatureError") and any(f[0] == "except" and f[1] == tid for f in e.ctx)]
                ok = bool(decode) and bool(conv)
    chk.require(ok, P("malformed->BadSignatureError"), fi.qualname, "except (UnexpectedDER, MalformedSignature): raise BadSignatureError", where, "decoder errors are converted to the documented BadSignatureError", "decoder errors are not converted to BadSignatureError")
    # verdict False -> raise
    rets = [e for e in res.events if e.kind == "return" and e.stack == (fi.qualname,)]
    # the return happens under a positive verdict: inside `if verifies(...):` or after `if not verifies(...): raise` (path fact)
    def positive_verdict(ev_):
        known = [(f[1], bool(f[2])) for f in ev_.ctx if f[0] == "if"] + [(c, bool(p_)) for c, p_ in (getattr(ev_, "facts", ()) or ())]
        for c, p_ in known:
            r_ = rel(c, p_)
            if r_[0] == "rel" and r_[1] == "Truthy" and "verifies" in show(r_[2], 4):
                return True
        return False

    okv = len(rets) == 1 and is_const(unsnap(rets[0].d["value"])) and cval(unsnap(rets[0].d["value"])) is True and positive_verdict(rets[0])
    final = [e for e in res.events if e.kind == "raise" and str(e.d["exc"]).endswith("BadSignatureError") and not any(f[0] == "except" for f in e.ctx)]
    chk.require(okv and bool(final), P("false-verdict-raises"), fi.qualname, "verifies(...) -> True else raise BadSignatureError", where, "the only normal return is True under a positive verdict; otherwise BadSignatureError is raised", "a failed verification can return normally")


def canon_rules(prog, chk, pid):
    P = lambda s: "%s.%s" % (pid, s)
    for nm in ("sigencode_strings_canonize", "sigencode_string_canonize", "sigencode_der_canonize"):
        fi, ex, res = _run(prog, "util." + nm)
        calls = [e for e in res.events if e.kind == "call" and e.d["callee"].name == nm.replace("_canonize", "")]
        ok = len(calls) == 1
        if ok:
            s_arg = unsnap(calls[0].d["args"][1])
            ok = s_arg.op == "phi"
            if ok:
                r = rel(s_arg.args[0], True)
                alt = unsnap(s_arg.args[1])
                ok = r[0] == "rel" and r[1] == "Lt" and "order" in show(r[2], 3) and alt.op == "bin" and alt.args[0] == "Sub" and unsnap(alt.args[1]).op == "param" and unsnap(alt.args[1]).args[0] == "order" and unsnap(alt.args[2]).op == "param" and unsnap(alt.args[2]).args[0] == "s" and unsnap(s_arg.args[2]).op == "param"
        chk.require(ok, P("canonical-s"), fi.qualname, "s > order/2 -> s = order - s", "%s:%d" % (fi.file, fi.lineno), "canonical encoders replace a high s by order - s", "canonisation arm deviates")


def digest_rules(prog, chk, pid):
    """FIPS 186-4 6.4 / RFC 6979 2.3.2 bits2int: the hash integer is the leftmost min(hashlen, qlen) bits of the digest"""
    P = lambda s: "%s.%s" % (pid, s)
    q = "keys._truncate_and_convert_digest"
    fi = prog.func(E + q)
    where = "%s:%d" % (fi.file, fi.lineno)
    pd, pc = fi.params[0], fi.params[1]

    def is_param(t, nm):
        t = unsnap(t)
        return t.op == "param" and t.args[0] == nm

    def call_named(t, nm):
        t = unsnap(t)
        if t.op == "call" and isinstance(t.args[0], Term) and t.args[0].op == "func" and t.args[0].args[0].rsplit(".", 1)[-1] == nm:
            return [unsnap(x) for x in t.args[1]]
        return None

    # ---- truncating arm
    ex = Exec(prog, policy=lambda e, f, d: False)
    res = ex.run(fi, args={fi.params[2]: C(True)})
    ok, why = res.ret is not None and not res.dead, "no result with allow_truncate=True"
    if ok:
        v = unsnap(res.ret)
        if v.op == "phi":
            # `number >> (h - q) if h > q else number` is number >> max(0, h - q): a shift by 0 changes nothing
            from bfsa.guard import rel as _rel

            r_ = _rel(v.args[0], True)
            sh_arm, id_arm = unsnap(v.args[1]), unsnap(v.args[2])
            if r_[0] == "rel" and r_[1] in ("Lt", "LtE"):
                r_ = ("rel", {"Lt": "Gt", "LtE": "GtE"}[r_[1]], r_[3], r_[2])
            if r_[0] == "rel" and r_[1] in ("Gt", "GtE") and sh_arm.op == "bin" and sh_arm.args[0] == "RShift" and unsnap(sh_arm.args[1]) is id_arm:
                d_ = unsnap(sh_arm.args[2])
                if d_.op == "bin" and d_.args[0] == "Sub" and unsnap(d_.args[1]) is unsnap(r_[2]) and unsnap(d_.args[2]) is unsnap(r_[3]):
                    v = mk("bin", "RShift", id_arm, mk("call", mk("builtin", "max"), (C(0), d_), (), 0))
        ok = v.op == "bin" and v.args[0] == "RShift"
        why = "result is not <number> >> <shift> (%s)" % show(v, 5)[:80]
    if ok:
        num, sh = unsnap(v.args[1]), unsnap(v.args[2])
        a = call_named(num, "string_to_number")
        ok = a is not None and len(a) == 1 and a[0].op == "slice" and is_param(a[0].args[0], pd) and unsnap(a[0].args[1]) is NONE and "baselen" in show(a[0].args[2], 3) and is_param(unsnap(a[0].args[2]).args[0] if unsnap(a[0].args[2]).op == "attr" else NONE, pc)
        why = "number is not string_to_number(digest[:curve.baselen])"
        dig = a[0] if ok else None
    if ok:
        bc = builtin_call(sh)
        ok = bc is not None and bc[0] == "max" and len(bc[1]) == 2
        why = "shift is not max(0, hashbits - qbits)"
        if ok:
            zs = [x for x in bc[1] if is_const(x) and cval(x) == 0]
            ds = [unsnap(x) for x in bc[1] if not (is_const(x) and cval(x) == 0)]
            ok = len(zs) == 1 and len(ds) == 1 and ds[0].op == "bin" and ds[0].args[0] == "Sub"
        if ok:
            hb, qb = unsnap(ds[0].args[1]), unsnap(ds[0].args[2])
            # hash bits = 8 * len(<the truncated digest>): leading zero BITS of the digest count
            okh = hb.op == "bin" and hb.args[0] == "Mult" and any(is_const(x) and cval(x) == 8 for x in (hb.args[1], hb.args[2]))
            if okh:
                ln = [unsnap(x) for x in (hb.args[1], hb.args[2]) if not is_const(x)]
                okh = len(ln) == 1 and ln[0].op == "len" and unsnap(ln[0].args[0]) is dig
            a2 = call_named(qb, "bit_length")
            okq = a2 is not None and len(a2) == 1 and a2[0].op == "attr" and a2[0].args[1] == "order" and is_param(a2[0].args[0], pc)
            ok = okh and okq
            why = "shift is not 8*len(truncated digest) - bit_length(curve.order): %s" % show(ds[0], 6)[:120]
    chk.require(ok, P("digest-leftmost-bits"), fi.qualname, "string_to_number(digest[:baselen]) >> max(0, 8*len(digest[:baselen]) - bit_length(order))", where,
                "the hash integer is the leftmost qlen bits of the digest; the digest's bit length is its byte length times 8, so leading zero bits are kept", why)
    # ---- non-truncating arm: too long digests are refused, the whole digest is converted
    ex = Exec(prog, policy=lambda e, f, d: False)
    res = ex.run(fi, args={fi.params[2]: C(False)})
    ok = res.ret is not None and not res.dead
    why = "no result with allow_truncate=False"
    if ok:
        a = call_named(res.ret, "string_to_number")
        ok = a is not None and len(a) == 1 and is_param(a[0], pd)
        why = "result is not string_to_number(digest)"
    if ok:
        rets = [e for e in res.events if e.kind == "return" and e.stack == (fi.qualname,)]
        gs = [g for g in res.events if g.kind == "guard" and g.d.get("term") == "raise" and "BadDigestError" in str(g.d.get("exc"))]
        okg = False
        for g in gs:
            r = raise_rel(g)
            if r[0] == "rel" and r[1] in ("Lt", "Gt"):
                big, small = (unsnap(r[3]), unsnap(r[2])) if r[1] == "Lt" else (unsnap(r[2]), unsnap(r[3]))
                if big.op == "len" and is_param(big.args[0], pd) and small.op == "attr" and small.args[1] == "baselen" and all(dominates(g, x) for x in rets):
                    okg = True
        ok, why = okg, "no dominating guard `len(digest) > curve.baselen -> BadDigestError`"
    chk.require(ok, P("digest-no-truncate"), fi.qualname, "len(digest) > baselen -> BadDigestError; string_to_number(digest)", where, "without truncation an over-long digest is refused and the whole digest is used", why)
    # ---- both signing and verification go through this one helper
    users = []
    for f in prog.funcs.values():
        if f.module.name == E + "keys" and not f.module.is_test and f.qualname != fi.qualname:
            import ast as _ast

            for n in _ast.walk(f.node):
                if isinstance(n, _ast.Call) and isinstance(n.func, _ast.Name) and n.func.id == "_truncate_and_convert_digest":
                    users.append(f.qualname.rsplit(".", 2)[-2] + "." + f.name)
    want = {"VerifyingKey.verify_digest", "SigningKey.sign_digest"}  # sign_digest_deterministic signs through sign_digest
    chk.require(want <= set(users), P("digest-single-helper"), fi.qualname, "used by %s" % sorted(set(users)), where, "signing and verification derive the hash integer through the same helper", "helper is not used by %s" % sorted(want - set(users)))


def rfc6979_rules(prog, chk, pid):
    """RFC 6979 section 3.2 as a script of HMAC operations: the trace of generate_k is replayed into HMAC(key)[message parts] terms and
    compared step by step (D, E, F, G, H1-H3 with rolen = ceil(qlen / 8), acceptance 1 <= k < q, K/V update on rejection)"""
    P = lambda s: "%s.%s" % (pid, s)
    fi = prog.func(E + "rfc6979.generate_k")
    where = "%s:%d" % (fi.file, fi.lineno)
    # hmac_compat and any private helper of the module (an extracted "update key" step, say) are interpreted as part of generate_k; the bit-string conversions are units
    ex = Exec(prog, policy=lambda e, f, d: f.name == "hmac_compat" or (f.module is fi.module and f.name not in ("bits2int", "bits2octets", "bit_length", "generate_k") and d < 3))
    res = ex.run(fi)
    p_order, p_sec, p_hash, p_data = [mk("param", x) for x in fi.params[:4]]
    p_extra = mk("param", fi.params[5])
    # ---- replay the HMAC objects
    objs = {}  # uid of hmac.new result -> [key, [parts]]
    dig = {}  # uid of digest result -> ("H", key_nf, parts_nf)

    def nf(t):
        t = unsnap(t)
        if t.uid in dig:
            return dig[t.uid]
        if t.op == "bin" and t.args[0] == "Add":
            a, b = nf(t.args[1]), nf(t.args[2])
            return ("cat",) + (a[1:] if isinstance(a, tuple) and a[0] == "cat" else (a,)) + (b[1:] if isinstance(b, tuple) and b[0] == "cat" else (b,))
        return t

    order_ok = True
    for e in res.events:
        if e.kind == "extcall" and e.d["name"] == "hmac.new":
            a = list(e.d["args"])
            kw = e.d["kwargs"]
            key = a[0]
            msg = a[1] if len(a) > 1 else kw.get("msg")
            dm = a[2] if len(a) > 2 else kw.get("digestmod")
            if dm is None or unsnap(dm) is not p_hash:
                order_ok = False
            objs[unsnap(e.d["result"]).uid] = [nf(key), [nf(msg)] if msg is not None and unsnap(msg) is not NONE else []]
        elif e.kind == "mcall" and e.d["name"] in ("update", "digest"):
            r = unsnap(e.d["recv"])
            if r.uid not in objs:
                continue
            if e.d["name"] == "update":
                objs[r.uid][1].append(nf(e.d["args"][0]))
            else:
                k_, parts = objs[r.uid]
                flat = []
                for p_ in parts:
                    flat.extend(p_[1:] if isinstance(p_, tuple) and p_ and p_[0] == "cat" else [p_])
                dig[unsnap(e.d["result"]).uid] = ("H", k_, tuple(flat))
    # ---- the script
    holen = None
    for e in res.events:
        if e.kind == "extcall" and e.d["name"] == "hmac.new":
            k0 = unsnap(e.d["args"][0])
            if k0.op == "bin" and k0.args[0] == "Mult":
                holen = [unsnap(x) for x in (k0.args[1], k0.args[2]) if not is_const(x)][0]
            break
    ok = holen is not None and holen.op == "attr" and holen.args[1] == "digest_size" and unsnap(holen.args[0]).op == "call" and unsnap(unsnap(holen.args[0]).args[0]) is p_hash and order_ok
    why = "hash length is not hash_func().digest_size, or an HMAC is made with another hash"
    steps = {}
    if ok:
        def rep(byte):
            for cand in (mk("bin", "Mult", C(bytes([byte])), holen), mk("bin", "Mult", holen, C(bytes([byte])))):
                yield cand
        V0s, K0s = list(rep(1)), list(rep(0))
        x_oct = None
        h_oct = None
        for e in res.events:
            if e.kind == "call" and e.d["callee"].name == "number_to_string" and [unsnap(a) for a in e.d["args"]] == [p_sec, p_order]:
                x_oct = unsnap(e.d["result"])
            if e.kind == "call" and e.d["callee"].name == "bits2octets" and [unsnap(a) for a in e.d["args"]] == [p_data, p_order]:
                h_oct = unsnap(e.d["result"])
        ok = x_oct is not None and h_oct is not None
        why = "int2octets(x) = number_to_string(secexp, order) or bits2octets(data, order) is missing"
    if ok:
        lr_outer = [l for l in ex.loops.values() if l.kind == "while" and "k" in l.init and "v" in l.init]
        ok = len(lr_outer) == 1
        why = "no retry loop carrying K and V"
    if ok:
        lo = lr_outer[0]
        K2, V2 = nf(lo.init["k"]), nf(lo.init["v"])

        def is_H(t, key_pred, parts_pred):
            return isinstance(t, tuple) and t[0] == "H" and key_pred(t[1]) and parts_pred(t[2])

        eqt = lambda a, b: (a is b) if isinstance(a, Term) and isinstance(b, Term) else a == b
        inl = lambda a, cands: any(eqt(a, c) for c in cands)
        # G: V2 = HMAC(K2)[V1];  E: V1 = HMAC(K1)[V0];  F: K2 = HMAC(K1)[V1 01 x h extra];  D: K1 = HMAC(K0)[V0 00 x h extra]
        tail = lambda ps, marker, V: len(ps) == 5 and (inl(ps[0], V) if isinstance(V, list) else eqt(ps[0], V)) and is_const(ps[1]) and cval(ps[1]) == marker and ps[2] is x_oct and ps[3] is h_oct and ps[4] is p_extra
        okG = is_H(V2, lambda k: eqt(k, K2), lambda ps: len(ps) == 1)
        V1 = V2[2][0] if okG else None
        okF = okG and is_H(K2, lambda k: True, lambda ps: tail(ps, b"\x01", V1))
        K1 = K2[1] if okF else None
        okE = okF and is_H(V1, lambda k: eqt(k, K1), lambda ps: len(ps) == 1 and inl(ps[0], V0s))
        okD = okE and is_H(K1, lambda k: inl(k, K0s), lambda ps: tail(ps, b"\x00", V0s))
        ok = okD
        why = "steps %s of RFC 6979 3.2 are not K = HMAC_K(V || 00/01 || int2octets(x) || bits2octets(h1) [|| extra]), V = HMAC_K(V) starting from V = 01.., K = 00.." % "".join(n for n, o in (("D", okD), ("E", okE), ("F", okF), ("G", okG)) if not o)
    if ok:
        # H2: inner loop  while len(T) < rolen: V = HMAC_K(V); T = T || V      rolen = (qlen + 7) // 8, qlen = bit_length(order)
        li = [l for l in ex.loops.values() if l.kind == "while" and "t" in l.init and l is not lo]
        ok = len(li) == 1 and is_const(li[0].init["t"]) and cval(li[0].init["t"]) == b""
        why = "step H1/H2: no inner loop starting from an empty T"
    if ok:
        inner = li[0]
        lk, lv, lt = mk("loopvar", lo.id, "k"), mk("loopvar", inner.id, "v"), mk("loopvar", inner.id, "t")
        nv = nf(inner.next["v"])
        ntt = unsnap(inner.next["t"])
        ok = isinstance(nv, tuple) and nv[0] == "H" and eqt(nv[1], lk) and len(nv[2]) == 1 and eqt(nv[2][0], lv)
        ok = ok and ntt.op == "bin" and ntt.args[0] == "Add" and unsnap(ntt.args[1]) is lt and nf(ntt.args[2]) == nv
        why = "step H2 is not V = HMAC_K(V); T = T || V"
        if ok:
            conds = [unsnap(e.d["cond"]) for e in res.events if e.kind == "loopcond" and e.d.get("lid") == inner.id] if False else []
            test = inner.node.test
            import ast as _ast

            txt = _ast.unparse(test)
            qlen_calls = [unsnap(e.d["result"]) for e in res.events if e.kind == "call" and e.d["callee"].name == "bit_length" and unsnap(e.d["args"][0]) is p_order]
            ok = bool(qlen_calls)
            why = "qlen is not bit_length(order)"
            if ok:
                qlen = qlen_calls[0]
                want = [mk("bin", "FloorDiv", mk("bin", "Add", qlen, C(7)), C(8)), mk("bin", "FloorDiv", mk("bin", "Add", C(7), qlen), C(8))]
                bound = None
                for e in res.events:
                    if e.kind == "op" and e.d["op"] == "Lt" and any(f[0] == "loop" and f[1] == inner.id for f in e.ctx):
                        l_, r_ = [unsnap(x) for x in e.d["args"]]
                        if l_.op == "len":
                            bound = r_
                ok = bound is not None and any(bound is w for w in want)
                why = "step H2 runs until len(T) >= %s, RFC 6979 requires rolen = (qlen + 7) // 8 octets" % (show(bound, 5) if bound is not None else "?")
    if ok:
        # H3: k = bits2int(T, qlen); accept iff 1 <= k < q; otherwise K = HMAC_K(V || 00), V = HMAC_K(V)
        b2i = [e for e in res.events if e.kind == "call" and e.d["callee"].name == "bits2int" and any(f[0] == "loop" and f[1] == lo.id for f in e.ctx)]
        ok = len(b2i) == 1 and unsnap(b2i[0].d["args"][1]) is qlen and unsnap(b2i[0].d["args"][0]).op == "loopexit"
        why = "step H3 is not bits2int(T, qlen)"
        if ok:
            secret = unsnap(b2i[0].d["result"])
            rets = [e for e in res.events if e.kind == "return" and e.stack == (fi.qualname,)]
            ok = len(rets) == 1 and unsnap(rets[0].d["value"]) is secret
            why = "the value returned is not the candidate k"
            if ok:
                rs = []
                for f in rets[0].ctx:
                    if f[0] == "if":
                        r = rel(f[1], f[2])
                        rs.extend(r[1] if r[0] == "and" else [r])
                txt = "; ".join(show_rel(a, 4) for a in rs)
                lower = any(a[0] == "rel" and a[1] == "LtE" and is_const(a[2]) and cval(a[2]) == 1 and unsnap(a[3]) is secret for a in rs) or any(a[0] == "rel" and a[1] == "Lt" and is_const(a[2]) and cval(a[2]) == 0 and unsnap(a[3]) is secret for a in rs)
                upper = any(a[0] == "rel" and a[1] == "Lt" and unsnap(a[2]) is secret and unsnap(a[3]) is p_order for a in rs)
                ok = lower and upper
                why = "a candidate is accepted under (%s), RFC 6979 requires 1 <= k < q" % txt[:120]
        if ok:
            nk, nv2 = nf(lo.next["k"]), nf(lo.next["v"])
            vexit = mk("loopexit", inner.id, "v")
            okk = isinstance(nk, tuple) and nk[0] == "H" and eqt(nk[1], lk) and len(nk[2]) == 2 and eqt(nk[2][0], vexit) and is_const(nk[2][1]) and cval(nk[2][1]) == b"\x00"
            okv = isinstance(nv2, tuple) and nv2[0] == "H" and nv2[1] == nk and len(nv2[2]) == 1 and eqt(nv2[2][0], vexit)
            ok = okk and okv
            why = "on rejection K, V are not updated as K = HMAC_K(V || 00), V = HMAC_K(V)"
    chk.require(ok, P("rfc6979-script"), fi.qualname, "steps B-H of RFC 6979 3.2 replayed as HMAC terms", where,
                "V = 01.., K = 00..; K = HMAC_K(V||00||x||h1||extra); V = HMAC_K(V); K = HMAC_K(V||01||x||h1||extra); V = HMAC_K(V); repeat T = T||HMAC_K(V) until rolen = ceil(qlen/8) octets; k = bits2int(T, qlen) accepted iff 1 <= k < q, else K = HMAC_K(V||00), V = HMAC_K(V)", why)
    # ---- bits2int / bits2octets: the returned value, as a term over (x = int(hexlify(data), 16), len(data), qlen) resp. (z1 = bits2int(...), order), is compared
    # with the RFC's definition on a grid of values by the checker's own arithmetic -- whichever way the one conditional step is spelled
    from bfsa.evalterm import NoEval, eval_function_result, eval_term
    from bfsa.terms import subterms as _subterms

    fb = prog.func(E + "rfc6979.bits2int")
    exb = Exec(prog, policy=lambda e, f, d: False)
    rb = exb.run(fb)
    okb, whyb = rb.ret is not None, "bits2int has no return value"
    if okb:
        ret = unsnap(rb.ret)
        allret = [unsnap(e.d["value"]) for e in rb.events if e.kind == "return" and e.stack == (fb.qualname,)] + [unsnap(f[1]) for e in rb.events if e.kind == "return" for f in e.ctx if f[0] == "if"]
        ret = mk("tuple", tuple(allret))
        xs = [t for t in _subterms(ret) if t.op == "call" and "int" == getattr(unsnap(t.args[0]), "args", ("",))[0] and len(t.args[1]) == 2 and "hexlify" in show(t.args[1][0], 4) and is_const(t.args[1][1]) and cval(t.args[1][1]) == 16]
        lens = [t for t in _subterms(ret) if t.op == "len" and unsnap(t.args[0]).op == "param" and unsnap(t.args[0]).args[0] == fb.params[0]]
        q_ = mk("param", fb.params[1])
        okb = len({t.uid for t in xs}) == 1 and len({t.uid for t in lens}) == 1 and "hexlify" in show(xs[0], 5) and unsnap(unsnap(xs[0].args[1][0]).args[1][0]).op == "param"
        whyb = "bits2int does not start from int(hexlify(data), 16) and len(data)"
        if okb:
            try:
                for nbytes in (1, 2, 20, 32, 66):
                    for qlen in (1, 7, 8, 9, 15, 16, 17, 160, 255, 256, 257, 521, 528, 529):
                        for xv in (0, 1, (1 << (8 * nbytes)) - 1, (0xA5C3 << (8 * nbytes)) >> 16, 1 << (8 * nbytes - 1)):
                            got = eval_function_result(rb, fb.qualname, {xs[0].uid: xv, lens[0].uid: nbytes, q_.uid: qlen})
                            want = xv >> (8 * nbytes - qlen) if 8 * nbytes > qlen else xv
                            if got != want:
                                okb, whyb = False, "for %d input bytes and qlen = %d bits2int gives %#x, the leftmost qlen bits are %#x" % (nbytes, qlen, got, want)
                                raise StopIteration
            except StopIteration:
                pass
            except NoEval as e_:
                raise AnalysisError("bits2int is not arithmetic over (int(hexlify(data), 16), len(data), qlen): %s" % e_)
    chk.require(okb, P("rfc6979-bits2int"), fb.qualname, "x = int(hexlify(data), 16); x >> (8*len(data) - qlen) if 8*len(data) > qlen else x", "%s:%d" % (fb.file, fb.lineno), "bits2int keeps the leftmost qlen bits (RFC 6979 2.3.2); compared on a grid of lengths, qlen and values", whyb)
    fo = prog.func(E + "rfc6979.bits2octets")
    exo = Exec(prog, policy=lambda e, f, d: False)
    ro = exo.run(fo)
    v = unsnap(ro.ret) if ro.ret is not None else None
    oko = v is not None and v.op == "call" and "number_to_string_crop" in show(v.args[0], 3)
    whyo = "bits2octets does not end in number_to_string_crop(z2, order)"
    if oko:
        a0, a1 = [unsnap(x) for x in v.args[1][:2]]
        order_p = mk("param", fo.params[1])
        z1s = [t for t in _subterms(a0) if t.op == "call" and "bits2int" in show(t.args[0], 3)]
        oko = a1 is order_p and len({t.uid for t in z1s}) == 1
        whyo = "bits2octets does not convert bits2int(data, qlen) reduced by the order"
        if oko:
            z1 = z1s[0]
            b2 = [unsnap(x) for x in z1.args[1]]
            oko = len(b2) == 2 and b2[0].op == "param" and b2[0].args[0] == fo.params[0] and "bit_length" in show(b2[1], 4) and any(t is order_p for t in _subterms(b2[1]))
            whyo = "bits2octets does not take bits2int(data, bit_length(order))"
        if oko:
            try:
                # further quantities the reduction may look at: len(data) and bit_length(order) -- both are given every consistent value (a hash shorter than,
                # exactly as long as, and longer than the order)
                data_p = mk("param", fo.params[0])
                len_ts = [t for t in _subterms(a0) if t.op == "len" and unsnap(t.args[0]) is data_p]
                bl_ts = [t for t in _subterms(a0) if t.op == "call" and "bit_length" in show(t.args[0], 3) and len(t.args[1]) == 1 and unsnap(t.args[1][0]) is order_p]
                bl_ts += [t for t in _subterms(a0) if t.op == "call" and isinstance(t.args[0], Term) and t.args[0].op == "meth" and t.args[0].args[1] == "bit_length" and unsnap(t.args[0].args[0]) is order_p]
                for q in (2, 3, 251, 257, 0xE95E4A5F737059DC60DFC7AD95B3D8139515620F, (1 << 160) + 7, 0xA9FB57DBA1EEA9BC3E660A909D838D718C397AA3B561A6F7901E0E82974856A7, (1 << 521) - 1):
                    qlen_ = q.bit_length()
                    qbytes = (qlen_ + 7) // 8
                    for nbytes in sorted({max(1, qbytes - 1), qbytes, qbytes + 1, qbytes + 16}) if len_ts else (None,):
                        for zv in (0, 1, q - 1, q, q + 1, 2 * q - 1, (1 << qlen_) - 1):
                            if zv >= 2 * q or zv.bit_length() > qlen_ or (nbytes is not None and zv.bit_length() > 8 * nbytes):
                                continue  # bits2int returns at most min(8 * len(data), bit_length(q)) bits, so z1 < 2q
                            env_ = {z1.uid: zv, order_p.uid: q}
                            for t_ in len_ts:
                                env_[t_.uid] = nbytes
                            for t_ in bl_ts:
                                env_[t_.uid] = qlen_
                            got = eval_term(a0, env_)
                            if got != zv % q:
                                oko, whyo = False, "for z1 = %#x and order %#x%s the value converted is %#x, z1 mod q is %#x" % (zv, q, (" (%d input bytes)" % nbytes) if nbytes is not None else "", got, zv % q)
                                raise StopIteration
            except StopIteration:
                pass
            except NoEval as e_:
                raise AnalysisError("bits2octets is not arithmetic over (bits2int(...), order): %s" % e_)
    chk.require(oko, P("rfc6979-bits2octets"), fo.qualname, "z1 = bits2int(data, qlen); z2 = z1 - q; int2octets(z2 if z2 >= 0 else z1)", "%s:%d" % (fo.file, fo.lineno), "bits2octets reduces once modulo q (RFC 6979 2.3.4); compared on a grid of values", whyo)


def hash_consistency_rules(prog, chk, pid):
    """one hash function per signature: the function that hashes the message is the one handed to the RFC 6979 nonce derivation
    (sign_deterministic -> sign_digest_deterministic -> generate_k), selected as `hashfunc or self.default_hashfunc`"""
    P = lambda s: "%s.%s" % (pid, s)
    K = E + "keys."

    def run(q):
        fi = prog.func(K + q)
        ex = Exec(prog, policy=lambda e, f, d: False)
        return fi, ex, ex.run(fi)

    def is_sel(t, fi):
        """hashfunc or self.default_hashfunc"""
        t = unsnap(t)
        txt = show(t, 5)
        return t.op in ("or", "phi") and "hashfunc" in txt and "default_hashfunc" in txt

    def hash_calls(res_, fi):
        """calls of the selected hash function: either one call of the `a or b` term, or (the interpreter's dispatch of such a call)
        one call per alternative under a common choice frame"""
        direct = [e for e in res_.events if e.kind == "dyncall" and is_sel(e.d["fnterm"], fi)]
        if direct:
            return direct
        alts = [e for e in res_.events if e.kind in ("dyncall", "mcall", "call") and any(f[0] == "choice" for f in e.ctx) and (e.kind != "mcall" or e.d.get("name") == "default_hashfunc")]
        names = " | ".join(show(e.d.get("fnterm"), 4) if e.kind == "dyncall" else str(e.d.get("name") or e.d.get("callee")) for e in alts)
        if len(alts) == 2 and "default_hashfunc" in names and any(e.kind == "dyncall" and unsnap(e.d["fnterm"]).op == "param" and unsnap(e.d["fnterm"]).args[0] == "hashfunc" for e in alts):
            return alts
        return []

    # sign_deterministic: hashes with h = hashfunc or default; passes hashfunc=h on
    fi, ex, res = run("SigningKey.sign_deterministic")
    where = "%s:%d" % (fi.file, fi.lineno)
    hcalls = hash_calls(res, fi)
    nxt = [e for e in res.events if e.kind == "call" and e.d["callee"].name == "sign_digest_deterministic"]
    ok = len(hcalls) >= 1 and len(nxt) == 1
    why = "message is not hashed with (hashfunc or self.default_hashfunc), or sign_digest_deterministic is not called exactly once"
    if ok:
        passed = nxt[0].d["kwargs"].get("hashfunc")
        if passed is None:
            names = nxt[0].d["callee"].params
            a = nxt[0].d["args"]
            if "hashfunc" in names and names.index("hashfunc") < len(a):
                passed = a[names.index("hashfunc")]
        ok = passed is not None and is_sel(passed, fi)
        why = "the hash function that hashed the message (hashfunc or self.default_hashfunc) is not the one passed to the nonce derivation (%s)" % (show(passed, 4)[:50] if passed is not None else "none: the key's default is used")
        if ok:
            dg = unsnap(nxt[0].d["args"][1])
            mc = meth_call(dg)
            ok = mc is not None and mc[1] == "digest" and "hashfunc" in show(mc[0], 5)
            why = "the digest signed is not hashfunc(data).digest()"
    chk.require(ok, P("deterministic-one-hash"), fi.qualname, "h = hashfunc or default; sign_digest_deterministic(h(data).digest(), hashfunc=h, ...)", where,
                "the message digest and the RFC 6979 HMAC use the same hash function", why)
    # sign_digest_deterministic: generate_k(order, secexp, hashfunc or default, digest, retry_gen, extra_entropy)
    fi, ex, res = run("SigningKey.sign_digest_deterministic")
    where = "%s:%d" % (fi.file, fi.lineno)
    gk = [e for e in res.events if e.kind == "call" and e.d["callee"].name == "generate_k"]
    sd = [e for e in res.events if e.kind == "call" and e.d["callee"].name == "sign_digest"]
    ok = len(gk) == 1 and len(sd) == 1
    why = "generate_k / sign_digest are not each called at one site"
    if ok:
        a = [unsnap(x) for x in gk[0].d["args"]]
        kw = gk[0].d["kwargs"]
        okorder = len(a) >= 4 and "order" in show(a[0], 4) and "generator" in show(a[0], 5)
        oksec = "secret_multiplier" in show(a[1], 4)
        okh = is_sel(a[2], fi)
        dterm = a[3]
        okd = "digest" in show(dterm, 5) and unsnap(sd[0].d["args"][1]) is dterm
        okk = unsnap(sd[0].d["kwargs"].get("k", NONE)) is unsnap(gk[0].d["result"])
        okretry = "retry_gen" in kw and _is_retry_counter(ex, kw["retry_gen"])
        okextra = "extra_entropy" in kw and "extra_entropy" in show(kw["extra_entropy"], 5)
        ok = okorder and oksec and okh and okd and okk and okretry and okextra
        why = "generate_k arguments (order, secret, hash, digest = signed digest, k handed to sign_digest, retry counter, extra entropy) ok: %s" % ((okorder, oksec, okh, okd, okk, okretry, okextra),)
    chk.require(ok, P("deterministic-nonce-inputs"), fi.qualname, "k = generate_k(generator.order(), secret, hashfunc or default, digest, retry_gen, extra_entropy); sign_digest(digest, k=k)", where,
                "the nonce is derived from the curve order, the private scalar, the selected hash, the very digest that is signed, the retry counter and the extra entropy", why)
    # sign / verify: the digest handed on is (hashfunc or default)(data).digest()
    for q, nxtname in (("SigningKey.sign", "sign_digest"), ("VerifyingKey.verify", "verify_digest")):
        fi, ex, res = run(q)
        hcalls = hash_calls(res, fi)
        nxt = [e for e in res.events if e.kind == "call" and e.d["callee"].name == nxtname]
        ok = len(hcalls) >= 1 and len(nxt) >= 1
        if ok:
            for e in nxt:
                dargs = [unsnap(x) for x in e.d["args"]]
                ok = ok and any(meth_call(x) is not None and meth_call(x)[1] == "digest" and "hashfunc" in show(meth_call(x)[0], 5) for x in dargs)
        chk.require(ok, P("message-hash-selected"), fi.qualname, "%s((hashfunc or self.default_hashfunc)(data).digest(), ...)" % nxtname, "%s:%d" % (fi.file, fi.lineno),
                    "the message is hashed with the function given, else the key's default, and that digest is what is signed / verified", "the digest handed to %s is not (hashfunc or default)(data).digest()" % nxtname)


def sig_codec_scenarios(prog, chk, pid, tier):
    """signature encodings, encoder against decoder: raw `string` / `strings` forms with SYMBOLIC r, s (fixed-width
    number_to_string / string_to_number as mutually inverse term constructors, licensed by C09.number-to-string-fixed-width),
    and the DER form on enumerated (r, s) across the sign-bit boundaries; curve orders P-256, P-521 (odd byte length), secp160r1"""
    from bfsa.exprs import sbytes
    from rules import stackrt as R
    import rules.stackrt as RR

    P = lambda s_: "%s.%s" % (pid, s_)
    U = E + "util"

    def h_n2s(ex, fi, args, kwargs, st, node):
        num, order = args[0], args[1]
        if is_const(num) or not is_const(order):
            return None
        l = (1 + len("%x" % cval(order))) // 2
        return sbytes([mk("byteof", num, l, i) for i in range(l)])

    def h_s2n(ex, fi, args, kwargs, st, node):
        its = ex.iter_items(args[0], st)
        if not its:
            return None
        x0 = unsnap(its[0])
        if x0.op == "byteof" and x0.args[1] == len(its) and all(unsnap(x).op == "byteof" and unsnap(x).args[0] is x0.args[0] and unsnap(x).args[1] == len(its) and unsnap(x).args[2] == i for i, x in enumerate(its)):
            return x0.args[0]
        return None

    hooks = {U + ".number_to_string": h_n2s, U + ".string_to_number": h_s2n}
    stk = R.Stack(prog, extra_hooks=hooks)

    def run(src, args):
        saved = RR.INLINE
        RR.INLINE = tuple(saved) + (E + "der", E + "_compat", U)
        try:
            return stk.run(U, src, args)
        finally:
            RR.INLINE = saved

    orders = {"P-256": 0xFFFFFFFF00000000FFFFFFFFFFFFFFFFBCE6FAADA7179E84F3B9CAC2FC632551, "P-521": (1 << 521) - 5, "secp160r1": 0x0100000000000000000001F4C8F927AED3CA752257}
    r_, s_ = mk("param", "r"), mk("param", "s")
    fe = prog.func(U + ".sigencode_string")
    bad = None
    for nm, n in orders.items():
        l = (1 + len("%x" % n)) // 2
        for form, enc, dec in (("string", "sigencode_string(r, s, %d)" % n, "sigdecode_string(e, %d)" % n), ("strings", "sigencode_strings(r, s, %d)" % n, "sigdecode_strings(e, %d)" % n)):
            ex, res = run("def drv(r, s):\n    e = %s\n    return (e, %s)\n" % (enc, dec), {"r": r_, "s": s_})
            if res.dead or res.ret is None or unsnap(res.ret).op != "tuple":
                bad = bad or ((nm, form), "raises (%s)" % (ex._dead[1] if ex._dead else "?"))
                continue
            e_, d_ = unsnap(res.ret).args[0]
            got = R.flat(ex, res, e_)
            want = [mk("byteof", r_, l, i) for i in range(l)] + [mk("byteof", s_, l, i) for i in range(l)]
            back = ex.unpack_to(d_, 2, res.state, None)
            okl = got is not None and len(got) == 2 * l and all(a is b for a, b in zip(got, want))
            okb = unsnap(back[0]) is r_ and unsnap(back[1]) is s_
            if not (okl and okb):
                bad = bad or ((nm, form), "encoding is r || s at %d bytes each: %s; decoder returns (r, s): %s" % (l, okl, okb))
    chk.require(bad is None, P("sig-codec-raw"), fe.qualname, "string / strings forms, 3 curve orders, symbolic r and s", "%s:%d" % (fe.file, fe.lineno),
                "the raw signature is r and s each encoded big-endian at the byte length of the order, and the decoder returns exactly (r, s)", "%s: %s" % bad if bad else "")
    # a raw signature of the wrong total length is refused
    n = orders["P-256"]
    ex, res = run("def drv(x):\n    return sigdecode_string(x, %d)\n" % n, {"x": sbytes(R.syms("x", 63))})
    ex2, res2 = run("def drv(x):\n    return sigdecode_string(x, %d)\n" % n, {"x": sbytes(R.syms("x", 65))})
    chk.require(res.dead and res2.dead, P("sig-codec-raw-length"), U + ".sigdecode_string", "63- and 65-byte signatures for a 32-byte order", "", "raw signatures of the wrong length are refused", "a raw signature of the wrong length is decoded")
    # DER form on enumerated values
    fd = prog.func(U + ".sigencode_der")
    vals = [1, 0x7F, 0x80, 0xFF, 0x100, (1 << 255) - 19, 1 << 255, n - 1]
    bad = None
    for rv in vals:
        for sv in (vals[1], vals[2], vals[-1]):
            ex, res = run("def drv():\n    e = sigencode_der(%d, %d, %d)\n    return (e, sigdecode_der(e, %d))\n" % (rv, sv, n, n), {})
            if res.dead or res.ret is None:
                bad = bad or ((hex(rv), hex(sv)), "raises")
                continue
            t = unsnap(res.ret)
            e_, d_ = (t.args[0] if t.op == "tuple" else [C(x) for x in cval(t)])
            got = R.flat(ex, res, e_)

            def di(v):
                m = v.to_bytes(max(1, (v.bit_length() + 7) // 8), "big")
                if m[0] & 0x80:
                    m = b"\x00" + m
                return b"\x02" + bytes([len(m)]) + m

            body = di(rv) + di(sv)
            want = b"\x30" + (bytes([len(body)]) if len(body) < 0x80 else b"\x81" + bytes([len(body)])) + body
            back = cval(d_) if is_const(d_) else tuple(cval(x) if is_const(x) else None for x in ex.unpack_to(d_, 2, res.state, None))
            if got is None or bytes(cval(x) for x in got) != want or tuple(back) != (rv, sv):
                bad = bad or ((hex(rv), hex(sv)), "encoding %s..., decoded %s" % (bytes(cval(x) for x in got).hex()[:24] if got else None, back))
    chk.require(bad is None, P("sig-codec-der"), fd.qualname, "%d (r, s) pairs across the sign-bit boundaries" % (len(vals) * 3), "%s:%d" % (fd.file, fd.lineno),
                "the DER signature is SEQUENCE { INTEGER r, INTEGER s } in minimal form and sigdecode_der returns (r, s)", "(r, s) = %s: %s" % bad if bad else "")


def run(prog, chk, tier):
    from rules import state as _state

    _state.shared_state_rules(prog, chk, "C18", _state.ECDSA_MODULES)
    chk.explanation = ("Only the structural part of the statement is decided: the range guards on r and s (normal forms Lt(x, 1), Lt(n-1, x), returning False) dominate the modular "
                       "inversion; the verification verdict is the ECDSA equation as a data-flow fact; signing never returns r = 0 or s = 0 and the deterministic variant "
                       "retries only on that condition with an incremented counter; the three signature decoders enforce exact lengths / no trailing data, can only raise their "
                       "two documented errors (same escape analysis as C19), and verify_digest converts these to BadSignatureError and raises it on a False verdict; "
                       "canonical encoders flip a high s. Everything numeric -- that honest signatures verify, that tampering is rejected, OpenSSL interop, RFC 6979 vectors -- "
                       "is not decided by static analysis.")
    verify_rules(prog, chk, "C18")
    sign_rules(prog, chk, "C18")
    decoder_rules(prog, chk, "C18")
    conversion_rules(prog, chk, "C18")
    canon_rules(prog, chk, "C18")
    digest_rules(prog, chk, "C18")
    rfc6979_rules(prog, chk, "C18")
    stackrt.guarded(chk, "C18.rfc6979-walk", rfc6979_walk_rule, prog, chk, "C18")
    # the script rule reads one way of writing the steps (local K, V, T and two nested loops); the walk decides the same clause on the function's behaviour
    chk.shape_fallback("rfc6979-script", ["rfc6979-walk"], "HMAC chain replayed on concrete control")
    hash_consistency_rules(prog, chk, "C18")
    # the verdict is computed by PointJacobi.mul_add: its digit selection, fallbacks and the addition dispatcher (both encodings of infinity occur among the
    # precomputed sums when the public point is +-G or a small multiple) are necessary conditions of "a signature verifies under the matching key"
    from rules import c17

    c17.sibling_rules(prog, chk, "C18")
    c17.mul_add_rules(prog, chk, "C18")
    # verification of a key whose point carries a table goes through the table walk (mul_add falls back to self * a + other * b when both points have one)
    c17.mul_rules(prog, chk, "C18")
    c17.affine_coordinate_rules(prog, chk, "C18")
    c17.two_torsion_rules(prog, chk, "C18")
    # the DER signature decoder's primitives accept exactly their identifier octets (a flipped class bit in 30 / 02 must not go unnoticed)
    from rules import c19

    c19.der_tag_rules(prog, chk, "C18", only={"remove_sequence", "remove_integer"})
    stackrt.guarded(chk, "C18.sig-codec-scenarios", sig_codec_scenarios, prog, chk, "C18", tier)
    chk.assume("group orders are >= 2, so fixed-length signature fields are at least one byte long")
    chk.assume("numeric correctness of ECDSA (group-law formulas: C17 clauses; hash functions; RFC 6979 HMAC-DRBG) is outside this check")
