"""C06 -- encrypted components are stored only as ciphertext and decrypt to the original.

Decided statically: encrypt-on-write path rule (PATH+FLOW); configuration always built encrypted with the documented tags;
decrypt-on-read selected by a type-consistent ENC comparison (TYPE); no plaintext fallback (EXC/PATH, registered and
unregistered crypto); secrecy taint of four secrets to the written bytes (TAINT); zero padding (LEN)."""
from __future__ import annotations

import ast

from bfsa.guard import unsnap
from bfsa.layout import Writer, builtin_call, is_call_named, meth_call
from bfsa.load import AnalysisError, NotConst
from bfsa.symexec import Exec
from bfsa.terms import C, NONE, Term, cval, is_const, mk, show, subterms

from rules import adapter, bf3
from rules.bf3 import BF3, _flag_frame, _flag_known, _self_attr
from rules import stackrt

LEVEL = "other"
BEC2 = "bec2format.bec2file"


# ------------------------------------------------------------------------------------------------ taint
def taint_path(t: Term, is_source, is_sanitizer, _seen=None, stores=None):
    """first unsanitised source reachable from t (dataflow through term structure and through values stored
    into mutable buffers that are reached unsanitised), or None"""
    if _seen is None:
        _seen = set()
    t = unsnap(t)
    if t.uid in _seen:
        return None
    _seen.add(t.uid)
    if is_source(t):
        return t
    if is_sanitizer(t):
        return None
    if stores and t.uid in stores:
        for v in stores[t.uid]:
            r = taint_path(v, is_source, is_sanitizer, _seen, stores)
            if r is not None:
                return r
    for a in t.args:
        xs = a if isinstance(a, tuple) else (a,)
        for x in xs:
            if isinstance(x, Term):
                r = taint_path(x, is_source, is_sanitizer, _seen, stores)
                if r is not None:
                    return r
            elif isinstance(x, tuple):
                for y in x:
                    if isinstance(y, Term):
                        r = taint_path(y, is_source, is_sanitizer, _seen, stores)
                        if r is not None:
                            return r
    return None


def std_sanitizer(t: Term) -> bool:
    if t.op == "len":
        return True
    mc = meth_call(t)
    if mc and mc[1] in ("encrypt", "mac", "digest", "hexdigest", "compute_dh_secret"):
        return True
    if is_call_named(t, "cmac", "create_AES128", "select_encryptor"):
        return True
    if t.op == "call" and isinstance(t.args[0], Term) and t.args[0].op == "ext" and t.args[0].args[0].startswith("hashlib."):
        return True
    return False


# ------------------------------------------------------------------------------------------------ rules
def encrypt_on_write(prog, chk, pid):
    P = lambda s: "%s.%s" % (pid, s)
    fi = prog.method(BF3 + ".Bf3Component", "get_raw_data")
    ex = Exec(prog, policy=lambda e, f, d: False)
    res = ex.run(fi)
    where = "%s:%d" % (fi.file, fi.lineno)
    rets = [e for e in res.events if e.kind == "return" and e.stack == (fi.qualname,)]
    enc_rets = [r for r in rets if _flag_known(r) is not False]
    ok, why = bool(enc_rets), "no return on the encrypt_by_session_key arm"
    for r in enc_rets:
        v = unsnap(r.d["value"])
        mc = meth_call(v)
        good = bool(mc) and mc[1] == "encrypt" and is_call_named(unsnap(mc[0]), "create_AES128") and len(mc[2]) == 1
        if good:
            c = unsnap(mc[0])
            good = len(c.args[1]) == 1 and unsnap(c.args[1][0]).op == "param" and unsnap(c.args[1][0]).args[0] == "session_key" and not c.args[2]
            p = unsnap(mc[2][0])
            good = good and is_call_named(p, "pad") and len(p.args[1]) == 1 and _self_attr(p.args[1][0], "blob")
        if not good:
            ok, why = False, "on the encryption arm the returned value is %s, documented create_AES128(session_key).encrypt(pad(self.blob))" % show(v, 5)
        # must be under the flag (truthy) -- i.e. never returned for unflagged components is fine, but flagged ones never take the plain return
    plain = [r for r in rets if _flag_known(r) is False]
    for r in rets:
        if r not in plain and r not in enc_rets:
            ok, why = False, "a return is not conditioned on the encryption flag"
    # blob reaches a flagged return only through encrypt
    for r in enc_rets:
        leak = taint_path(r.d["value"], lambda t: _self_attr(t, "blob"), std_sanitizer)
        if leak is not None:
            ok, why = False, "self.blob reaches the stored bytes of an encrypted component without passing the cipher"
    chk.require(ok, P("encrypt-on-write"), fi.qualname, "flag set -> create_AES128(session_key).encrypt(pad(self.blob))", where,
                "a component marked for session-key encryption is stored only as AES-128-CBC ciphertext (default zero IV) of its zero-padded content under the caller's key", why)
    adapter.pad_rule(prog, chk, pid)


def config_component(prog, chk, pid):
    P = lambda s: "%s.%s" % (pid, s)
    fi = prog.method(BF3 + ".Bf3File", "set_config")
    ex = Exec(prog, policy=lambda e, f, d: f.name in ("_get_config_ndx",) or f.qualname.endswith("Bf3Component.__init__"))
    res = ex.run(fi)
    where = "%s:%d" % (fi.file, fi.lineno)
    news = [e for e in res.events if e.kind == "new" and e.d["cls"].name == "Bf3Component"]
    ok, why = len(news) == 1, "set_config does not build exactly one component"
    if ok:
        params = prog.method(BF3 + ".Bf3Component", "__init__").params[1:]
        a = dict(zip(params, news[0].d["args"]))
        a.update(news[0].d["kwargs"])
        flag = a.get("encrypt_by_session_key")
        if not (flag is not None and is_const(flag) and cval(flag) is True):
            ok, why = False, "the configuration component is not created with encrypt_by_session_key=True"
        desc = a.get("description")
        o = ex.obj(res.state, desc) if desc is not None else None
        want = {0xC3: b"\x03", 0xC2: b"\x02", 0xC1: b"\x03", 0xC5: b"\x01"}
        got = {}
        if o is not None and o.kind == "dict" and o.exact:
            for k, v in o.kv.items():
                got[k] = cval(v) if is_const(v) else show(v, 3)
        if ok and got != want:
            ok, why = False, "configuration tags are %r, documented TYPE=03 ENC=02 FMT=03 REBOOT=01 (one byte each)" % (got,)
        # appended to the component list
        app = [e for e in res.events if (e.kind == "mutate" and e.d["how"] == "append" and unsnap(e.d["value"]) is unsnap(news[0].d["result"])) or (e.kind == "mcall" and e.d["name"] == "append" and _self_attr(e.d["recv"], "components") and e.d["args"] and unsnap(e.d["args"][0]) is unsnap(news[0].d["result"]))]
        if ok and not app:
            ok, why = False, "the component is not appended to self.components"
    chk.require(ok, P("config-always-encrypted"), fi.qualname, "Bf3Component({TYPE:03, ENC:02, FMT:03, REBOOT:01}, blob, len(blob), encrypt_by_session_key=True)", where,
                "every configuration component is created marked for session-key encryption with the documented one-byte tags", why)


def no_plaintext_fallback(prog, chk, pid):
    P = lambda s: "%s.%s" % (pid, s)
    base = prog.cls("bec2format.crypto.AES128")
    for name in ("encrypt", "decrypt", "mac"):
        m = base.methods.get(name)
        ok = m is not None
        if ok:
            body = [s for s in m.node.body if not (isinstance(s, ast.Expr) and isinstance(s.value, ast.Constant))]
            ok = len(body) == 1 and isinstance(body[0], ast.Raise)
        chk.require(ok, P("unregistered-cipher-raises"), base.qualname + "." + name, "raise NotImplementedError()", "%s:%d" % (base.module.relpath, m.node.lineno if m else 0),
                    "without a registered cipher every crypto operation raises instead of returning data", "base AES128.%s can return normally (plaintext fallback)" % name)
    # unregistered configuration: the encryption arm of get_raw_data has no normal exit
    fi = prog.method(BF3 + ".Bf3Component", "get_raw_data")
    ex = Exec(prog, policy=lambda e, f, d: f.module.name.startswith("bec2format") and d < 8, registered=False)
    res = ex.run(fi)
    rets = [e for e in res.events if e.kind == "return" and e.stack == (fi.qualname,)]
    enc = [r for r in rets if _flag_known(r) is not False]
    raises = [e for e in res.events if e.kind == "raise" and "NotImplementedError" in str(e.d.get("exc"))]
    chk.require(not enc and bool(raises), P("unregistered-write-fails"), fi.qualname, "unregistered crypto: encryption arm only raises NotImplementedError", "%s:%d" % (fi.file, fi.lineno),
                "with no cipher registered, writing a flagged component has no normal path (it raises NotImplementedError)", "with no cipher registered the encryption arm can still return bytes")
    # no swallowing handler between the cipher and the written bytes
    for q in (BF3 + ".Bf3Component.get_raw_data", BF3 + ".Bf3File.dir_to_binary", BF3 + ".Bf3File.to_binary", BF3 + ".Bf3File.write_file", BEC2 + ".Bec2File.to_binary", BEC2 + ".Bec2File.write_file", BEC2 + ".Bec2File.pack_auth_blocks", "bec2format.crypto.create_AES128", "bec2format.crypto.pad", BF3 + ".cmac"):
        f = prog.func(q)
        handlers = [n for n in ast.walk(f.node) if isinstance(n, ast.ExceptHandler)]
        swallowing = []
        for h in handlers:
            last = h.body[-1] if h.body else None
            if not isinstance(last, ast.Raise):
                swallowing.append(h)
        chk.require(not swallowing, P("no-swallowing-handler"), q, "no except-handler that completes normally", "%s:%d" % (f.file, (swallowing[0].lineno if swallowing else f.lineno)),
                    "a cipher failure cannot be converted into a normal return on the write path", "an exception handler on the write path can complete normally (failure of the cipher would be hidden)")
    fw = prog.func(BF3 + ".Bf3File.write_bf3_format")
    handlers = [n for n in ast.walk(fw.node) if isinstance(n, ast.ExceptHandler)]
    chk.require(not handlers, P("no-swallowing-handler"), fw.qualname, "try/finally only", "%s:%d" % (fw.file, fw.lineno), "the text writer has no exception handler", "text writer catches exceptions")


def secrecy_taint(prog, chk, pid):
    P = lambda s: "%s.%s" % (pid, s)
    # (sink function, secret sources)
    def attr_src(*names):
        return lambda t: t.op == "attr" and t.args[1] in names and unsnap(t.args[0]).op == "param" and unsnap(t.args[0]).args[0] == "self"

    def param_src(*names):
        return lambda t: t.op == "param" and t.args[0] in names

    pol_b = lambda e, f, d: f.module.name.startswith("bec2format") and f.name not in ("cmac", "create_AES128", "select_encryptor", "crc8404B", "generate_private_ecc_key", "create_public_ecc_key_from_der_fmt") and d < 8
    sinks = [
        (BF3 + ".Bf3File.to_binary", None, param_src("session_key"), "session key"),
        (BEC2 + ".Bec2File.to_binary", None, attr_src("session_key"), "session key"),
        (BEC2 + ".Bec2File.pack_auth_blocks", None, attr_src("session_key"), "session key"),
        (BEC2 + ".InitCustKeyAuthBlock.pack", None, param_src("session_key"), "session key"),
        (BEC2 + ".InitEccAuthBlock.pack", None, param_src("session_key"), "session key"),
        (BEC2 + ".UpdateAuthBlock.pack", None, lambda t: param_src("session_key")(t) or attr_src("config_security_code")(t), "session key / security code"),
        (BEC2 + ".EccEncryptor.encrypt", None, param_src("plaintext"), "wrapped plaintext"),
        (BEC2 + ".AesEncryptorMixin.encrypt", None, param_src("plaintext"), "wrapped plaintext"),
        (BEC2 + ".SoftwareCustKeyEncryptor.encrypt", BEC2 + ".SoftwareCustKeyEncryptor", lambda t: param_src("plaintext")(t) or attr_src("customer_key", "crypto_key")(t), "plaintext / customer key / crypto key"),
    ]
    for q, scls, src, what in sinks:
        fi = prog.func(q)
        ex = Exec(prog, policy=pol_b)
        res = ex.run(fi, self_cls=prog.cls(scls) if scls else None)
        rets = [e for e in res.events if e.kind == "return" and e.stack == (fi.qualname,)]
        leak = None
        for r in rets:
            # mutable buffers (bytearray) carry what was stored into them
            stores = {}
            for e in res.events:
                if e.kind in ("setslice", "setitem"):
                    stores.setdefault(unsnap(e.d["base"]).uid, []).append(e.d["value"])

            def is_src(t, _s=src, _st=stores):
                if _s(t):
                    return True
                return False

            leak = taint_path(r.d["value"], is_src, lambda t: std_sanitizer(t) or (meth_call(t) is not None and meth_call(t)[1] in ("pack", "get_raw_data", "to_binary", "to_raw_bin_fmt")), stores=stores)
            if leak is not None:
                break
        chk.require(leak is None, P("no-secret-in-output"), q, "%s -> returned bytes only through encrypt / mac / sha256 / key position" % what, "%s:%d" % (fi.file, fi.lineno),
                    "the %s reaches the returned bytes only through the cipher, the MAC or the hash" % what, "%s flows into the written bytes in clear (%s)" % (what, show(leak, 4) if leak is not None else ""))
    # comments: derive_comments_from_config stores only identifier strings / constants
    fi = prog.method(BF3 + ".Bf3File", "derive_comments_from_config")
    ex = Exec(prog, policy=lambda e, f, d: False)
    res = ex.run(fi)
    bad = None
    for e in res.events:
        if e.kind == "setitem" and _self_attr(unsnap(e.d["base"]), "comments"):
            def clean(v):
                """the stored text is a constant, str(<identifier object>) or a choice between such values (what is chosen may depend on the configuration, the text may not)"""
                v = unsnap(v)
                if is_const(v):
                    return True
                if v.op == "phi":
                    return clean(v.args[1]) and clean(v.args[2])
                if v.op == "call" and isinstance(v.args[0], Term) and v.args[0].op == "builtin" and v.args[0].args[0] == "str" and len(v.args[1]) == 1:
                    inner = unsnap(v.args[1][0])
                    alts = [inner] if inner.op != "phi" else [unsnap(inner.args[1]), unsnap(inner.args[2])]
                    return all(is_const(x) or is_call_named(x, "create_from_prj_settings", "create_from_dev_settings") for x in alts)
                if v.op == "call" and isinstance(v.args[0], Term) and v.args[0].op in ("func", "bound") and str(v.args[0].args[0]).endswith("ConfigId.__str__") and len(v.args[1]) <= 1:
                    # str() of an identifier OBJECT (the factory was interpreted, e.g. because it now lives in a mixin): its text form, which C12 decides
                    return True
                return False

            if not clean(e.d["value"]):
                bad = e
    chk.require(bad is None, P("no-secret-in-comments"), fi.qualname, "comments[...] = str(ConfigId) | constant", bad.where if bad else "%s:%d" % (fi.file, fi.lineno),
                "configuration-derived comments are identifier strings or constants, never raw configuration values", "a comment is derived from raw configuration content (%s)" % (show(bad.d["value"], 4) if bad else ""))
    # write_file passes exactly self.comments / the binary
    for q, commentsrc in ((BEC2 + ".Bec2File.write_file", "bf3file"),):
        fi = prog.func(q)
        ex = Exec(prog, policy=lambda e, f, d: False)
        res = ex.run(fi)
        calls = [e for e in res.events if e.kind in ("call", "mcall", "dyncall") and (e.d.get("name") == "write_bf3_format" or (e.kind == "call" and e.d["callee"].name == "write_bf3_format"))]
        ok = len(calls) == 1
        if ok:
            a = [x for x in calls[0].d["args"]]
            cm = unsnap(a[-2])
            ok = cm.op == "attr" and cm.args[1] == "comments" and is_call_named(unsnap(a[-1]), "to_binary")
        chk.require(ok, P("no-secret-in-comments"), q, "write_bf3_format(file, self.bf3file.comments, self.to_binary(...))", "%s:%d" % (fi.file, fi.lineno), "only the comments mapping and the serialised binary are written", "text writer receives something other than the comments mapping and to_binary()")


def stack_component_rules(prog, chk, pid, tier):
    """component encryption through the real stack for enumerated content lengths (every length mod 16), symbolic content and key"""
    from bfsa.exprs import sbytes
    from rules import stackrt as R

    P = lambda s: "%s.%s" % (pid, s)
    BF3Q = "bec2format.bf3file"
    stk = R.Stack(prog)
    sk = mk("param", "sk")
    fg = prog.method(BF3Q + ".Bf3Component", "get_raw_data")
    where = "%s:%d" % (fg.file, fg.lineno)
    src = ("def drv(sk, blob, n):\n    c = Bf3Component({}, blob, None, True)\n    raw = c.get_raw_data(sk)\n    back = Bf3Component.from_encrypted_raw_data({}, raw, n, sk)\n"
           "    return (raw, back.blob, back.actual_len, back.encrypt_by_session_key, c.actual_len)\n")
    lengths = list(range(1, 50)) + [63, 64, 65, 127, 128, 129, 255, 256]
    if tier == "thorough":
        lengths = list(range(1, 300)) + [511, 512, 513, 1023, 1024, 1025]
    bad_ct = bad_rt = None
    for L in lengths:
        blob = R.syms("b", L)
        ex, res = stk.run(BF3Q, src, {"sk": sk, "blob": sbytes(blob), "n": C(L)})
        if res.dead or res.ret is None or unsnap(res.ret).op != "tuple":
            bad_ct = bad_ct or (L, "raises")
            break
        raw, back, alen, flag, alen0 = unsnap(res.ret).args[0]
        rb = R.flat(ex, res, raw)
        plain = R.cbc_plain_blocks(rb, sk) if rb is not None else None
        want = blob + [C(0)] * (-L % 16)
        if plain is None or len(plain) != len(want) or any(a is not b for a, b in zip(plain, want)):
            bad_ct = bad_ct or (L, "stored bytes are not AES-128-CBC(zero IV, session key) of the content zero-padded to %d bytes" % len(want))
        bb = R.flat(ex, res, back)
        if bb is None or len(bb) < L or any(a is not b for a, b in zip(bb[:L], blob)) or any(not (is_const(x) and cval(x) == 0) for x in bb[L:]) or not (is_const(alen) and cval(alen) == L) or not (is_const(flag) and cval(flag) is True) or not (is_const(alen0) and cval(alen0) == L):
            bad_rt = bad_rt or (L, "read-back content / declared length / encryption flag differ")
    chk.require(bad_ct is None, P("stack-ciphertext-only"), fg.qualname, "%d content lengths (all residues mod 16), symbolic content and session key" % len(lengths), where,
                "the stored bytes are exactly CBC_sessionkey(zero IV) of the content zero-padded to a whole number of blocks (recovered from the ciphertext terms through the registered adapter and pyaes)",
                "content length %s: %s" % bad_ct if bad_ct else "")
    fr = prog.method(BF3Q + ".Bf3Component", "from_encrypted_raw_data")
    chk.require(bad_rt is None, P("stack-read-back"), fr.qualname, "from_encrypted_raw_data(get_raw_data(...)) for %d content lengths" % len(lengths), "%s:%d" % (fr.file, fr.lineno),
                "decrypting the stored bytes with the session key gives the content followed only by zero bytes, with the declared length and the encrypt-on-write flag kept", "content length %s: %s" % bad_rt if bad_rt else "")
    # history: a component written once and then given new content must be stored as the ciphertext of the NEW content
    blob1, blob2 = R.syms("o", 19), R.syms("n", 30)
    src_h = ("def drv(sk, b1, b2):\n    c = Bf3Component({}, b1, None, True)\n    r1 = c.get_raw_data(sk)\n    r1b = c.get_raw_data(sk)\n    c.blob = b2\n    c.actual_len = len(b2)\n    r2 = c.get_raw_data(sk)\n    return (r1, r1b, r2)\n")
    ex, res = stk.run(BF3Q, src_h, {"sk": sk, "b1": sbytes(blob1), "b2": sbytes(blob2)})
    okh, whyh = not res.dead and res.ret is not None, "raises"
    if okh:
        r1, r1b, r2 = [R.flat(ex, res, x) for x in unsnap(res.ret).args[0]]
        p1, p1b, p2 = [R.cbc_plain_blocks(x, sk) if x is not None else None for x in (r1, r1b, r2)]
        w1, w2 = blob1 + [C(0)] * (-len(blob1) % 16), blob2 + [C(0)] * (-len(blob2) % 16)
        okh = p1 is not None and p1b is not None and p2 is not None and len(p1) == len(w1) and all(a is b for a, b in zip(p1, w1)) and all(a is b for a, b in zip(p1b, w1)) and len(p2) == len(w2) and all(a is b for a, b in zip(p2, w2))
        whyh = "after the content was replaced the stored bytes are not the ciphertext of the current content"
    chk.require(okh, P("stack-history-independent"), fg.qualname, "get_raw_data twice, replace blob, get_raw_data again", where, "the stored bytes depend only on the component's current content and the key, not on earlier calls", whyh)
    # a component not marked for encryption is stored as is
    ex, res = stk.run(BF3Q, "def drv(sk, blob):\n    return Bf3Component({}, blob).get_raw_data(sk)\n", {"sk": sk, "blob": sbytes(R.syms("b", 21))})
    okp = not res.dead and res.ret is not None and unsnap(res.ret).op == "sbytes" and len(unsnap(res.ret).args[0]) == 21
    chk.require(okp, P("stack-plain-unchanged"), fg.qualname, "unencrypted component, 21 bytes", where, "a component not marked for encryption is stored byte for byte", "plain component is not stored unchanged")
    chk.info["stack_scenarios"] = stk.runs


def run(prog, chk, tier):
    from rules import state as _state

    _state.library_state_rules(prog, chk, "C06")
    chk.explanation = ("get_raw_data's encryption arm must return create_AES128(session_key).encrypt(pad(self.blob)) and the blob may reach the stored bytes only through "
                       "that call; set_config builds its component flagged for encryption with the documented tags; the reader's ENC comparison is type consistent and equal "
                       "to the writer's encoding (otherwise ciphertext is handed back); with no cipher registered the arm has no normal exit and no handler on the write path "
                       "can complete normally; a source/sink taint analysis over the term DAG shows session key, security code, customer key and wrapped plaintext reach the "
                       "written bytes only through encrypt / mac / sha256 / key positions. Ciphertext correctness is C16's clause.")
    encrypt_on_write(prog, chk, "C06")
    config_component(prog, chk, "C06")
    m = bf3.model(prog)
    if m.rb is not None:
        bf3.tag_compare_rules(m, chk, "C06")
    # the ciphertext must sit where the directory says: addresses advance by the stored (padded) length, not by the content length
    if bf3.rule_writer_layout(m, chk, "C06"):
        bf3.writer_rules(m, chk, "C06", want={"absolute-addresses", "length-prefix"})
    # ... and the whole of it must reach the file: the hex lines of the text envelope cover all of the image (a last byte that is not written is a ciphertext
    # that does not decrypt to the original)
    bf3.envelope_writer_rules(m, chk, "C06")
    no_plaintext_fallback(prog, chk, "C06")
    secrecy_taint(prog, chk, "C06")
    adapter.adapter_rules(prog, chk, "C06", want={"encrypt", "decrypt", "fresh-mode"})
    stackrt.guarded(chk, "C06.stack-component", stack_component_rules, prog, chk, "C06", tier)
    chk.assume("AES-128-CBC itself (block function, modes) is decided under C16; MAC and SHA-256 outputs do not reveal their inputs")
