"""C02 -- BEC2 write-then-read recovers key, auth blocks and content for every key."""
from __future__ import annotations

from rules import adapter, bec2, bf3
from rules import stackbec2
from rules import stackrt

LEVEL = "other"


def run(prog, chk, tier):
    chk.explanation = ("Header writer and reader are extracted as byte layout / consumption grammar and compared; every auth-block kind's pack and unpack are structural "
                       "inverses (segment order and widths, selector/version/security-code flows into the attributes pack reads); the session key unwrapped is the key "
                       "the body is verified and decrypted with; the registered cipher's decrypt is length preserving (the static fact behind 'keys ending in 0x00'); "
                       "the ENC tag comparison is type consistent so that the encrypted configuration component is decrypted on read. Value equality of an executed round "
                       "trip is not decided.")
    from rules import state as _state

    _state.library_state_rules(prog, chk, "C02")
    from rules import iteronce as _iteronce
    from rules.state import LIB_MODULES as _LIB

    _iteronce.iterable_rules(prog, chk, "C02", _LIB)
    bec2.header_writer_rules(prog, chk, "C02")
    hdr = bec2.header_reader_rules(prog, chk, "C02")
    bec2.key_flow_rules(prog, chk, "C02", hdr)
    bec2.block_rules(prog, chk, "C02")
    bec2.ecies_rules(prog, chk, "C02")
    adapter.adapter_rules(prog, chk, "C02", want={"decrypt", "encrypt", "fresh-mode"})
    m = bf3.model(prog)
    if m.rb is not None:
        bf3.tag_compare_rules(m, chk, "C02")
    # the BEC2 image goes through the same text envelope as a BF3 image: its hex lines must cover all of it
    bf3.envelope_writer_rules(m, chk, "C02")
    from rules import c08

    c08.frame_builder_rules(prog, chk, "C02")
    c08.frame_parser_rules(prog, chk, "C02")
    bec2.selector_rules(prog, chk, "C02")
    stackrt.guarded(chk, "C02.stack-bec2", stackbec2.bec2_file_rules, prog, chk, "C02", tier, want=("roundtrip", "same-key"))
    chk.assume("session keys are KEY_SIZE = 16 bytes (Bec2File draws random_bytes(16)); BF3 body clauses are decided under C01/C03/C05")
