"""C01 -- BF3 write-then-read returns the same file.

Decided statically: the reader is the structural inverse of the writer (both equal the documented layout; slot ->
attribute -> slot identity; MAC agreement; text envelope agreement; tag-value encodings compared type-consistently;
exact reads).  Not decided: equality of arbitrary payload values after an executed round trip."""
from __future__ import annotations

from rules import bf3
from rules.exactread import rule_exact_reads
from rules import stackfile
from rules import stackrt

LEVEL = "other"


def run(prog, chk, tier):
    m = bf3.model(prog)
    chk.explanation = ("Writer layout (to_binary/dir_to_binary) and reader grammar (read_file/from_binary/dir_from_binary) are extracted by abstract interpretation and "
                       "both matched to the same layout table; then field by field: the value the writer puts in a slot comes from the attribute the reader's value "
                       "for that slot is stored into (description, blob, actual_len); MAC coverage/IV/key agree on both sides; the text envelope written by "
                       "write_bf3_format is the one parse_bf3_file/hex2bin undo (format string vs split/strip, separator line, character class, newline modes).")
    from rules import state as _state

    _state.library_state_rules(prog, chk, "C01")
    okw = bf3.rule_writer_layout(m, chk, "C01")
    okr = bf3.rule_reader_layout(m, chk, "C01")
    if okw:
        bf3.writer_rules(m, chk, "C01", want={"length-prefix", "declared-from-component", "mac-coverage-iv", "directory-order", "absolute-addresses"})
        bf3.slot_source_rules(m, chk, "C01")
    if okr:
        bf3.reader_rules(m, chk, "C01", want={"fields->object", "entry-mac", "payload-mac", "address==position", "signature-guard", "stored>=declared"})
        bf3.tag_compare_rules(m, chk, "C01")
    bf3.envelope_writer_rules(m, chk, "C01")
    bf3.envelope_reader_rules(m, chk, "C01")
    stackrt.guarded(chk, "C01.stack-bf3", stackfile.bf3_file_rules, prog, chk, "C01", tier, want=("roundtrip",))
    rule_exact_reads(prog, chk, "C01")
