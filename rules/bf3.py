"""Shared static model of the BF3 container code: reader grammar, writer layout, bindings to the documented
layout (spec/layout.json).  Used by C01, C03, C04, C05 (and C02/C06 for the embedded BF3 body)."""
from __future__ import annotations

import json
import os
from typing import Any, Dict, List, Optional

from bfsa.fmtspec import Binding, Mismatch, match_reader, match_writer, _match_seq
from bfsa.guard import atoms, disjuncts, dominates, guards_of, mentions, raise_rel, rel, show_rel, swallowing_tries, unsnap
from bfsa.heap import Unsupported
from bfsa.layout import RField, RLoop, RTell, Reader, Writer, extract_readers, is_call_named, meth_call, builtin_call, show_reader, show_segs
from bfsa.load import AnalysisError, NotConst
from bfsa.symexec import Exec
from bfsa.terms import C, NONE, Term, cval, is_const, mk, show, subterms

VERIF = os.path.dirname(os.path.dirname(os.path.abspath(__file__)))
SPEC = json.load(open(os.path.join(VERIF, "spec", "layout.json")))

BF3 = "bec2format.bf3file"
OPAQUE_FUNCS = {"cmac", "create_AES128", "hex2bin", "pad"}


def policy(ex, fi, depth):
    if fi.name in OPAQUE_FUNCS and fi.module.name.startswith("bec2format"):
        return False
    return fi.module.name.startswith("bec2format") and depth < 10


class Bf3Model:
    """everything extracted once per run"""

    def __init__(self, prog):
        self.prog = prog
        self.errors: List[str] = []
        # ---------------- reader: Bf3File.read_file
        self.exr = Exec(prog, policy=policy)
        self.fi_read = prog.func(BF3 + ".Bf3File.read_file")
        self.res_read = self.exr.run(self.fi_read)
        self.readers = extract_readers(self.exr, self.res_read.events)
        self.top = self._top_reader(self.readers)
        self.swallow = swallowing_tries(self.res_read.events)
        # ---------------- writer: dir_to_binary / to_binary / write_file
        self.exw = Exec(prog, policy=policy)
        self.fi_dir = prog.func(BF3 + ".Bf3File.dir_to_binary")
        self.res_dir = self.exw.run(self.fi_dir)
        self.exb = Exec(prog, policy=lambda e, f, d: policy(e, f, d) and f.name != "dir_to_binary")
        self.fi_tobin = prog.func(BF3 + ".Bf3File.to_binary")
        self.res_tobin = self.exb.run(self.fi_tobin)
        self.exfull = Exec(prog, policy=policy)
        self.res_full = self.exfull.run(self.fi_tobin)
        self.writer = Writer(self.exfull)
        self.rb: Optional[Binding] = None
        self.wb: Optional[Binding] = None
        self.reader_mismatch: Optional[Mismatch] = None
        self.writer_mismatch: Optional[Mismatch] = None
        self._bind()

    def _top_reader(self, readers) -> Reader:
        tops = [r for r in readers.values() if r.parent_field is None and r.fields()]
        # the reader built from the decoded hex text
        cands = [r for r in tops if r.raw is not None and is_call_named(r.raw, "hex2bin")]
        if len(cands) != 1:
            raise AnalysisError("cannot identify the file-level reader in Bf3File.read_file (%d candidates)" % len(cands))
        return cands[0]

    def _bind(self):
        # reader: first item is the signature read, the rest is the documented body
        items = list(self.top.items)
        self.sig_field = items[0] if items and isinstance(items[0], RField) else None
        try:
            b = Binding()
            _match_seq(self.exr, SPEC["body"], items[1:], self.top, b, "file")
            self.rb = b
        except Mismatch as m:
            self.reader_mismatch = m
        try:
            segs = self.writer.flatten(self.res_full.ret)
            self.wsegs = segs
            self.wb = match_writer(self.exfull, self.writer, SPEC["body"], segs)
        except Mismatch as m:
            self.writer_mismatch = m
        except Unsupported as u:
            raise AnalysisError("writer layout of Bf3File.to_binary not interpretable: %s" % u)

    # ------------------------------------------------------------------ helpers
    def rfield(self, name, k=0) -> RField:
        return self.rb.fields[name][k]

    def rint(self, name, k=0) -> Term:
        return self.rfield(name, k).int_views[0]

    def guards(self):
        return [e for e in self.res_read.events if e.kind == "guard"]

    def accept_return(self):
        rets = [e for e in self.res_read.events if e.kind == "return" and e.stack == (self.fi_read.qualname,)]
        return rets


def strip_elem(t: Term) -> Term:
    t = unsnap(t)
    while t.op == "elem":
        t = unsnap(t.args[0])
    return t


_model_cache: Dict[int, Bf3Model] = {}


def model(prog) -> Bf3Model:
    m = _model_cache.get(id(prog))
    if m is None:
        m = Bf3Model(prog)
        _model_cache[id(prog)] = m
    return m


# ===================================================================================== rules
def rule_reader_layout(m: Bf3Model, chk, pid, rid="reader-grammar==documented-layout"):
    fn = m.fi_read.qualname
    if m.reader_mismatch is not None:
        chk.fail("%s.%s" % (pid, rid), BF3 + ".Bf3File.dir_from_binary/from_binary", m.reader_mismatch.msg, m.reader_mismatch.where, "extracted grammar: " + show_reader(m.top))
        return False
    chk.ok("%s.%s" % (pid, rid), BF3 + ".Bf3File.dir_from_binary/from_binary", show_reader(m.top), "%s:%d" % (m.fi_read.file, m.fi_read.lineno),
           "consumption grammar extracted from the reads of read_file -> from_binary -> dir_from_binary equals the documented layout table field by field (widths, big-endian, nesting, loop forms, region ends)")
    chk.info["reader_grammar"] = show_reader(m.top)
    return True


def rule_writer_layout(m: Bf3Model, chk, pid, rid="writer-layout==documented-layout"):
    if m.writer_mismatch is not None:
        chk.fail("%s.%s" % (pid, rid), BF3 + ".Bf3File.to_binary/dir_to_binary", m.writer_mismatch.msg, "%s:%d" % (m.fi_dir.file, m.fi_dir.lineno), "extracted layout: " + show_segs(getattr(m, "wsegs", []), 3))
        return False
    chk.ok("%s.%s" % (pid, rid), BF3 + ".Bf3File.to_binary/dir_to_binary", show_segs(m.wsegs, 2), "%s:%d" % (m.fi_dir.file, m.fi_dir.lineno),
           "byte layout of the value returned by to_binary (dir_to_binary inlined) equals the documented layout table segment by segment")
    chk.info["writer_layout"] = show_segs(m.wsegs, 3)
    return True


# ===================================================================================== helpers for semantic rules
def canon(t, depth=40) -> str:
    from bfsa.report import norm_construct
    import re

    s = show(t, depth) if isinstance(t, Term) else str(t)
    s = re.sub(r"\s+", " ", s)
    s = re.sub(r"#\d+", "", s)
    s = re.sub(r"&(\w+?)\d+\b", r"&\1", s)
    s = re.sub(r"@(exit)?L\d+", "@L", s)
    s = re.sub(r"\?(\w+?)\d+\b", r"?\1", s)
    return s


def seg_len_expr(segs) -> str:
    """canonical symbolic length of a segment list (event/loop ids erased)"""
    parts = []
    n = 0
    for s in segs:
        k = s[0]
        if k == "const":
            n += len(s[1])
        elif k == "int":
            n += s[1]
        elif k == "mac":
            n += 16
        elif k == "opaque":
            parts.append("len(%s)" % canon(s[1]))
        elif k == "zeros":
            parts.append("(%s)" % canon(s[1]))
        elif k == "repeat":
            parts.append("sum[%s](%s)" % (canon(s[3]) if s[3] is not None else "?", seg_len_expr(s[2])))
        elif k == "region":
            parts.append(seg_len_expr(s[1]))
        else:
            parts.append("?%s" % k)
    return "+".join([str(n)] + sorted(parts))


def find_guards(events, pred, swallow=None, allow_extra=False):
    """guards one of whose terminating disjuncts satisfies pred(op, a, b).  A disjunct that is a conjunction
    `A and B` matches when one conjunct satisfies pred; the other conjuncts are extra path conditions of the
    guard (recorded in g.d["extra"]) and are only tolerated when allow_extra is set (caller validates them)."""
    out = []
    for g in events:
        if g.kind != "guard" or g.d.get("term") not in ("raise",):
            continue
        r = raise_rel(g)
        for d in disjuncts(r):
            if d[0] == "rel" and pred(d[1], d[2], d[3]):
                g.d["extra"] = []
                out.append(g)
                break
            if d[0] == "and" and allow_extra:
                hit = [c for c in d[1] if c[0] == "rel" and pred(c[1], c[2], c[3])]
                if hit:
                    g.d["extra"] = [c for c in d[1] if c is not hit[0]]
                    out.append(g)
                    break
    return out


def only_cond_frames(g, allowed_conds, ex) -> bool:
    """all `if` frames enclosing g are tests of one of the allowed condition terms (true polarity)"""
    for x in g.d.get("extra", []):
        if not (x[0] == "rel" and x[1] == "Truthy" and any(unsnap(x[2]) is a for a in allowed_conds)):
            return False
    for f in g.ctx:
        if f[0] == "if":
            c = f[1]
            base = c.args[0] if c.op == "truthy" else c
            if not any(unsnap(base) is a for a in allowed_conds):
                # loop-condition frames are fine
                if any(lr.cond is c for lr in ex.loops.values()):
                    continue
                return False
            if not f[2]:
                return False
    return True


def is_len_of(t: Term, x: Term) -> bool:
    t = unsnap(t)
    return t.op == "len" and unsnap(t.args[0]) is unsnap(x)


def mac_args(call: Term):
    """(data, key, iv) of an opaque cmac(...) call term"""
    args = list(call.args[1])
    kw = dict(call.args[2])
    data = args[0] if args else kw.get("data")
    key = args[1] if len(args) > 1 else kw.get("key")
    iv = args[2] if len(args) > 2 else kw.get("iv", NONE)
    return data, key, iv


def int_to_bytes_of(t: Term):
    """(value, width, order) if t is <value>.to_bytes(width, order)"""
    mc = meth_call(t)
    if mc and mc[1] == "to_bytes" and mc[2] and is_const(mc[2][0]):
        order = mc[2][1] if len(mc[2]) > 1 else dict(mc[3]).get("byteorder", C("big"))
        return mc[0], cval(mc[2][0]), (cval(order) if is_const(order) else "?")
    return None


# ===================================================================================== reader-side semantic rules
def _field_term(f: RField) -> Term:
    return unsnap(f.result)


def _is_int_of(f: RField, t: Term) -> bool:
    t = strip_elem(t)
    return any(t is v for v in f.int_views)


def _is_bytes_of(f: RField, t: Term) -> bool:
    return strip_elem(t) is _field_term(f)


def reader_rules(m: Bf3Model, chk, pid, want=None):
    """C05.R1..R12 (shared with C04/C01).  `want` restricts to a subset of rule suffixes."""
    if m.rb is None:
        return
    ex, ev, rb = m.exr, m.res_read.events, m.rb
    fn_dir = BF3 + ".Bf3File.dir_from_binary"
    fn_bin = BF3 + ".Bf3File.from_binary"
    fn_read = m.fi_read.qualname
    rets = m.accept_return()
    P = lambda s: "%s.%s" % (pid, s)
    W = lambda s: want is None or s in want
    sw = m.swallow

    def dominating(gs, targets):
        return [g for g in gs if all(dominates(g, t, sw) for t in targets)]

    # ---- R1 signature
    if W("signature-guard"):
        sig = m.sig_field
        try:
            sigconst = m.prog.fold_name(m.prog.module(BF3), "BF3_FILE_SIG")
        except NotConst:
            sigconst = None
        want_sig = bytes.fromhex(SPEC["bf3_signature_hex"])
        ok_const = sigconst == want_sig
        gs = find_guards(ev, lambda op, a, b: op == "NotEq" and sig is not None and ((_is_bytes_of(sig, a) and is_const(b) and cval(b) == want_sig) or (_is_bytes_of(sig, b) and is_const(a) and cval(a) == want_sig)))
        gs = dominating(gs, rets)
        size_ok = sig is not None and is_const(sig.size) and cval(sig.size) == len(want_sig)
        chk.require(bool(gs) and ok_const and size_ok, P("signature-guard"), fn_read, "read(len(BF3_FILE_SIG)) != BF3_FILE_SIG -> raise", gs[0].where if gs else "%s:%d" % (m.fi_read.file, m.fi_read.lineno),
                    "first 5 bytes are compared with the documented signature 'BF3\\0\\0'; mismatch raises on every accepting path",
                    "no dominating guard rejects a wrong signature (or signature constant/size differs from 'BF3\\0\\0')")
    # ---- R2 declared <= stored
    if W("stored>=declared"):
        st, de = rb.field("stored"), rb.field("declared")
        gs = find_guards(ev, lambda op, a, b: (op == "Lt" and _is_int_of(st, a) and _is_int_of(de, b)))
        appends = [e for e in ev if e.kind == "mutate" and e.d["how"] == "append" and any(f[0] == "loop" and f[1] == rb.loops["entry"] for f in e.ctx)]
        gs = dominating(gs, appends) if appends else []
        chk.require(bool(gs), P("stored>=declared"), fn_dir, "stored < declared -> raise", gs[0].where if gs else st.ev.where,
                    "guard with normal form Lt(stored, declared) raises before the entry is accepted",
                    "no guard `stored < declared -> raise` dominates acceptance of a directory entry (missing, flipped, or <=)")
    # ---- R3 duplicate tag
    if W("duplicate-tag"):
        tid = rb.field("tag_id")
        stores = [e for e in ev if e.kind == "setitem" and _is_int_of(tid, e.d["index"])]
        ok = False
        where = tid.ev.where
        detail = ""
        if len(stores) == 1:
            d = unsnap(stores[0].d["base"])
            gs = find_guards(ev, lambda op, a, b: op == "In" and _is_int_of(tid, a) and unsnap(b) is d)
            gs = dominating(gs, stores)
            ok = bool(gs)
            where = gs[0].where if gs else stores[0].where
            tv = rb.field("tag_value")
            if ok and not _is_bytes_of(tv, stores[0].d["value"]):
                ok = False
                detail = "the value stored under the tag id is not the tag value read"
        chk.require(ok, P("duplicate-tag"), fn_dir, "tag_id in description -> raise, before description[tag_id] = tag_value", where,
                    "membership guard on the very dictionary being filled dominates the store of (tag_id -> tag_value)",
                    detail or "a repeated description tag is not rejected before being stored")
    # ---- R4..R6, R11 region ends
    for region, rule in (("desc", "description-fully-consumed"), ("entry", "entry-fully-consumed"), ("directory", "directory-fully-consumed"), ("file", "nothing-after-last-payload")):
        if not W(rule):
            continue
        end = rb.ends.get(region)
        if end is None:
            chk.fail(P(rule), fn_dir if region != "file" else fn_bin, "region %s end check" % region, "", "region can end with unread bytes")
            continue
        kind, it = end
        if kind == "ensure":
            g = it.guard
            # must dominate acceptance: for per-record regions, the next iteration / loop exit; for the file, the return
            tgt = rets
            good = all(dominates(g, t, sw, allow=[f for f in g.ctx if f[0] == "loop" or (f[0] == "if" and any(lr.cond is f[1] for lr in ex.loops.values()))]) for t in tgt)
            chk.require(good, P(rule), fn_dir if region != "file" else fn_bin, "ensure_eof(%s)" % region, g.where,
                        "position == length of region '%s' is enforced (raise otherwise) on every accepting path" % region,
                        "end-of-data check of region '%s' does not dominate acceptance" % region)
        else:
            chk.ok(P(rule), fn_dir, "loop-until-eof(%s)" % region, "", "region '%s' is consumed by a loop whose only exit is position == length (an additional ensure_eof would be redundant)" % region)
    # ---- R7 entry MAC
    if W("entry-mac"):
        em, en = rb.field("emac"), rb.field("entry")
        lid = rb.loops["entry"]
        found, why = None, "no guard compares the stored entry MAC with a MAC computed over the entry prefix"

        def pred(op, a, b):
            nonlocal found, why
            if op != "NotEq":
                return False
            for x, y in ((a, b), (b, a)):
                if _is_bytes_of(em, x) and is_call_named(unsnap(y), "cmac"):
                    data, key, iv = mac_args(unsnap(y))
                    d = unsnap(data)
                    cov = d.op == "slice" and unsnap(d.args[0]) is _field_term(en) and d.args[1] is NONE and is_const(d.args[2]) and cval(d.args[2]) == -16 and d.args[3] is NONE
                    if not cov:
                        why = "entry MAC is computed over %s, documented coverage is the whole entry before the MAC (entry[:-16])" % show(d, 4)
                        return False
                    tb = int_to_bytes_of(unsnap(iv)) if iv is not None and iv is not NONE else None
                    if not tb or tb[1] != 16 or tb[2] != "big":
                        why = "entry MAC IV is not a 16-byte big-endian integer (%s)" % (show(iv, 4) if iv is not None else None)
                        return False
                    v = unsnap(tb[0])
                    lr = ex.loops[lid]
                    one_based = v.op == "loopvar" and v.args[0] == lid and is_const(lr.init.get(v.args[1], C(None))) and cval(lr.init[v.args[1]]) == 1 and _is_incr(lr.next.get(v.args[1]), v, 1)
                    zero_plus = v.op == "bin" and v.args[0] == "Add" and _loop_counter_plus(ex, lid, v, 1)
                    if not (one_based or zero_plus):
                        why = "entry MAC IV is not the 1-based index of the entry (%s)" % show(v, 4)
                        return False
                    if unsnap(key).op != "param" or unsnap(key).args[0] != "session_key":
                        why = "entry MAC key is not the session key parameter"
                        return False
                    return True
            return False

        gs = find_guards(ev, pred, allow_extra=True)
        appends = [e for e in ev if e.kind == "mutate" and e.d["how"] == "append" and any(f[0] == "loop" and f[1] == lid for f in e.ctx)]
        cc = _check_cmac_term(m)
        good = [g for g in gs if only_cond_frames(g, [cc], ex) and all(dominates(g, a, sw, allow=[f for f in g.ctx if f[0] == "if" and unsnap(f[1].args[0] if f[1].op == "truthy" else f[1]) is cc]) for a in appends)]
        if gs and not good:
            why = "entry MAC verification is skipped on some path other than check_cmac=False, or does not precede acceptance of the entry"
        # emac must be the last field of the entry (so that entry[:-16] is exactly what precedes it)
        last_ok = rb.ends.get("entry") is not None and is_const(em.size) and cval(em.size) == 16
        chk.require(bool(good) and last_ok and bool(appends), P("entry-mac"), fn_dir, "stored_cmac != cmac(entry[:-16], session_key, iv(index)) -> raise", (good or gs)[0].where if (good or gs) else em.ev.where,
                    "MAC over the entry prefix, keyed with the session key, IV = 1-based entry index as 16-byte big-endian; mismatch raises whenever check_cmac is true", why)
    # ---- R8 address
    if W("address==position"):
        adr, pay = rb.field("adr"), rb.field("payload")
        top = m.top

        def pred8(op, a, b):
            if op != "NotEq":
                return False
            for x, y in ((a, b), (b, a)):
                mc = meth_call(unsnap(y))
                if _is_int_of(adr, x) and mc and mc[1] == "tell" and unsnap(mc[0]) is top.term:
                    return True
            return False

        gs = find_guards(ev, pred8)
        gs = [g for g in gs if dominates(g, pay.ev, sw)]
        # the tell() must be taken after the previous payload read and before this one: same iteration, no read between
        ok = False
        for g in gs:
            between = [e for e in ev if g.uid < e.uid < pay.ev.uid and e.kind == "mcall" and e.d["name"] in ("read", "seek") and unsnap(e.d["recv"]) is top.term]
            tells = [e for e in ev if e.kind == "mcall" and e.d["name"] == "tell" and mentions(g.d["cond"], e.d["result"])]
            between2 = [e for e in ev if tells and tells[0].uid < e.uid < pay.ev.uid and e.kind == "mcall" and e.d["name"] in ("read", "seek") and unsnap(e.d["recv"]) is top.term]
            if not between and not between2:
                ok = True
        chk.require(ok, P("address==position"), fn_bin, "adr != tell() -> raise, before the payload read", gs[0].where if gs else pay.ev.where,
                    "each entry's absolute address is compared with the current absolute position of the file reader immediately before its payload is read (contiguity)",
                    "payload address is not compared with the reader position before the payload is read")
    # ---- R9 payload MAC
    if W("payload-mac"):
        pm, pay = rb.field("pmac"), rb.field("payload")
        why9 = "no guard compares the stored payload MAC with a MAC over the stored payload bytes"

        def pred9(op, a, b):
            nonlocal why9
            if op != "NotEq":
                return False
            for x, y in ((a, b), (b, a)):
                if _is_bytes_of(pm, x) and is_call_named(unsnap(y), "cmac"):
                    data, key, iv = mac_args(unsnap(y))
                    if unsnap(data) is not _field_term(pay):
                        why9 = "payload MAC is computed over %s, not over the stored payload bytes" % show(data, 4)
                        return False
                    if iv is not None and iv is not NONE:
                        why9 = "payload MAC uses a non-default IV"
                        return False
                    if unsnap(key).op != "param" or unsnap(key).args[0] != "session_key":
                        why9 = "payload MAC key is not the session key parameter"
                        return False
                    return True
            return False

        gs = find_guards(ev, pred9, allow_extra=True)
        cc = _check_cmac_term(m)
        news = [e for e in ev if e.kind == "new" and e.d["cls"].name == "Bf3Component"]
        good = [g for g in gs if only_cond_frames(g, [cc], ex) and all(dominates(g, nw, sw, allow=[f for f in g.ctx if f[0] == "if" and unsnap(f[1].args[0] if f[1].op == "truthy" else f[1]) is cc]) for nw in news)]
        if gs and not good:
            why9 = "payload MAC verification is skipped on some path other than check_cmac=False, or follows the use of the payload"
        chk.require(bool(good) and bool(news), P("payload-mac"), fn_bin, "cmac(payload, session_key) != pmac -> raise", (good or gs)[0].where if (good or gs) else pay.ev.where,
                    "MAC over exactly the stored payload bytes with the session key (IV default) is compared with the directory's payload MAC; mismatch raises whenever check_cmac is true", why9)
    # ---- R12 flows into the returned object
    if W("fields->object"):
        news = [e for e in ev if e.kind == "new" and e.d["cls"].name == "Bf3Component"]
        de, pay = rb.field("declared"), rb.field("payload")
        tid = rb.field("tag_id")
        stores = [e for e in ev if e.kind == "setitem" and _is_int_of(tid, e.d["index"])]
        ddict = unsnap(stores[0].d["base"]) if stores else None
        comp_cls = m.prog.cls(BF3 + ".Bf3Component")
        params = m.prog.method(BF3 + ".Bf3Component", "__init__").params[1:]
        ok_all = bool(news)
        bad = ""
        for nw in news:
            a = dict(zip(params, nw.d["args"]))
            a.update(nw.d["kwargs"])
            desc, blob, alen = a.get("description"), a.get("blob"), a.get("actual_len")
            if desc is None or strip_elem(desc) is not ddict:
                ok_all, bad = False, "description passed to Bf3Component is not the tag dictionary parsed for the entry"
            if alen is None or not _is_int_of(de, alen):
                ok_all, bad = False, "actual_len passed to Bf3Component is not the declared-length field"
            b = unsnap(blob) if blob is not None else None
            if b is not None and b.op == "call" and meth_call(b) and meth_call(b)[1] == "decrypt":
                b = unsnap(meth_call(b)[2][0]) if meth_call(b)[2] else None
            if b is None or not _is_bytes_of(pay, b):
                ok_all, bad = False, "blob passed to Bf3Component is not (the decryption of) the payload read for the entry"
        # components appended in order and returned
        chk.require(ok_all, P("fields->object"), fn_bin, "Bf3Component(description, payload, declared)", news[0].where if news else "",
                    "constructor arguments of every returned component originate from the slots tag-list / payload / declared-length of its own entry", bad or "no component is constructed")
        # constructor stores parameters into the attributes the writer reads
        exi = Exec(m.prog, policy=lambda e, f, d: False)
        ri = exi.run(m.prog.method(BF3 + ".Bf3Component", "__init__"))
        sets = {e.d["name"]: e.d["value"] for e in ri.events if e.kind == "setattr"}
        okc = all(k in sets for k in ("description", "blob", "actual_len"))
        okc = okc and sets["description"].op == "param" and sets["description"].args[0] == "description" and sets["blob"].op == "param" and sets["blob"].args[0] == "blob"
        al = sets.get("actual_len")
        ok_al = al is not None and ((al.op == "param" and al.args[0] == "actual_len") or (al.op == "or" and al.args[0][0].op == "param" and al.args[0][0].args[0] == "actual_len" and is_len_of(al.args[0][1], mk("param", "blob"))))
        chk.require(okc and ok_al, P("fields->object"), BF3 + ".Bf3Component.__init__", "self.description/blob/actual_len = parameters", "%s:%d" % (ri.fi.file, ri.fi.lineno),
                    "constructor stores its parameters unchanged (actual_len falls back to len(blob) only when falsy)", "constructor does not store description/blob/actual_len parameters unchanged")


def _check_cmac_term(m: Bf3Model) -> Term:
    return m.res_read.params.get("check_cmac", mk("param", "check_cmac"))


def _is_incr(nxt: Optional[Term], var: Term, k: int) -> bool:
    if nxt is None:
        return False
    nxt = unsnap(nxt)
    if nxt.op == "bin" and nxt.args[0] == "Add":
        a, b = unsnap(nxt.args[1]), unsnap(nxt.args[2])
        return (a is var and is_const(b) and cval(b) == k) or (b is var and is_const(a) and cval(a) == k)
    return False


def _loop_counter_plus(ex, lid, v: Term, k: int) -> bool:
    """v == index(loop)+k  or  (0-based counter loopvar)+k"""
    a, b = unsnap(v.args[1]), unsnap(v.args[2])
    for x, y in ((a, b), (b, a)):
        if is_const(y) and cval(y) == k:
            if x.op == "index" and x.args[0] == lid:
                return True
            if x.op == "loopvar" and x.args[0] == lid:
                lr = ex.loops[lid]
                if is_const(lr.init.get(x.args[1], C(None))) and cval(lr.init[x.args[1]]) == 0 and _is_incr(lr.next.get(x.args[1]), x, 1):
                    return True
    return False
