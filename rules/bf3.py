"""Shared static model of the BF3 container code: reader grammar, writer layout, bindings to the documented
layout (spec/layout.json).  Used by C01, C03, C04, C05 (and C02/C06 for the embedded BF3 body)."""
from __future__ import annotations

import json
import os
from typing import Any, Dict, List, Optional

from bfsa.fmtspec import Binding, Mismatch, match_reader, match_writer, _match_seq
from bfsa.guard import atoms, disjuncts, dominates, guards_of, mentions, raise_rel, rel, show_rel, swallowing_tries, unsnap
from bfsa.heap import Unsupported
from bfsa.layout import RField, RLoop, RTell, Reader, Writer, extract_readers, is_call_named, meth_call, builtin_call, show_reader, show_segs
from bfsa.load import AnalysisError, NotConst
from bfsa.symexec import Exec
from bfsa.terms import C, NONE, Term, cval, is_const, mk, show, subterms

VERIF = os.path.dirname(os.path.dirname(os.path.abspath(__file__)))
SPEC = json.load(open(os.path.join(VERIF, "spec", "layout.json")))

BF3 = "bec2format.bf3file"
OPAQUE_FUNCS = {"cmac", "create_AES128", "hex2bin", "pad"}


def policy(ex, fi, depth):
    if fi.name in OPAQUE_FUNCS and fi.module.name.startswith("bec2format"):
        return False
    return fi.module.name.startswith("bec2format") and depth < 10


class Bf3Model:
    """everything extracted once per run"""

    def __init__(self, prog):
        self.prog = prog
        self.errors: List[str] = []
        # ---------------- reader: Bf3File.read_file
        self.exr = Exec(prog, policy=policy)
        self.fi_read = prog.func(BF3 + ".Bf3File.read_file")
        self.res_read = self.exr.run(self.fi_read)
        self.readers = extract_readers(self.exr, self.res_read.events)
        self.top = self._top_reader(self.readers)
        self.swallow = swallowing_tries(self.res_read.events)
        # ---------------- writer: dir_to_binary / to_binary / write_file
        self.exw = Exec(prog, policy=policy)
        self.fi_dir = prog.func(BF3 + ".Bf3File.dir_to_binary")
        self.res_dir = self.exw.run(self.fi_dir)
        self.exb = Exec(prog, policy=lambda e, f, d: policy(e, f, d) and f.name != "dir_to_binary")
        self.fi_tobin = prog.func(BF3 + ".Bf3File.to_binary")
        self.res_tobin = self.exb.run(self.fi_tobin)
        self.exfull = Exec(prog, policy=policy)
        self.res_full = self.exfull.run(self.fi_tobin)
        self.writer = Writer(self.exfull)
        self.rb: Optional[Binding] = None
        self.wb: Optional[Binding] = None
        self.reader_mismatch: Optional[Mismatch] = None
        self.writer_mismatch: Optional[Mismatch] = None
        self._bind()

    def _top_reader(self, readers) -> Reader:
        tops = [r for r in readers.values() if r.parent_field is None and r.fields()]
        # the reader built from the decoded hex text
        cands = [r for r in tops if r.raw is not None and is_call_named(r.raw, "hex2bin")]
        if len(cands) != 1:
            raise AnalysisError("cannot identify the file-level reader in Bf3File.read_file (%d candidates)" % len(cands))
        return cands[0]

    def _bind(self):
        # reader: first item is the signature read, the rest is the documented body
        items = list(self.top.items)
        self.sig_field = items[0] if items and isinstance(items[0], RField) else None
        try:
            b = Binding()
            _match_seq(self.exr, SPEC["body"], items[1:], self.top, b, "file")
            self.rb = b
        except Mismatch as m:
            self.reader_mismatch = m
        try:
            segs = self.writer.flatten(self.res_full.ret)
            self.wsegs = segs
            self.wb = match_writer(self.exfull, self.writer, SPEC["body"], segs)
        except Mismatch as m:
            self.writer_mismatch = m
        except Unsupported as u:
            raise AnalysisError("writer layout of Bf3File.to_binary not interpretable: %s" % u)

    # ------------------------------------------------------------------ helpers
    def rfield(self, name, k=0) -> RField:
        return self.rb.fields[name][k]

    def rint(self, name, k=0) -> Term:
        return self.rfield(name, k).int_views[0]

    def guards(self):
        return [e for e in self.res_read.events if e.kind == "guard"]

    def accept_return(self):
        rets = [e for e in self.res_read.events if e.kind == "return" and e.stack == (self.fi_read.qualname,)]
        return rets


def strip_elem(t: Term) -> Term:
    t = unsnap(t)
    while t.op == "elem":
        t = unsnap(t.args[0])
    return t


_model_cache: Dict[int, Bf3Model] = {}


def model(prog) -> Bf3Model:
    m = _model_cache.get(id(prog))
    if m is None:
        m = Bf3Model(prog)
        _model_cache[id(prog)] = m
    return m


# ===================================================================================== rules
def rule_reader_layout(m: Bf3Model, chk, pid, rid="reader-grammar==documented-layout"):
    fn = m.fi_read.qualname
    if m.reader_mismatch is not None:
        chk.fail("%s.%s" % (pid, rid), BF3 + ".Bf3File.dir_from_binary/from_binary", m.reader_mismatch.msg, m.reader_mismatch.where, "extracted grammar: " + show_reader(m.top))
        return False
    chk.ok("%s.%s" % (pid, rid), BF3 + ".Bf3File.dir_from_binary/from_binary", show_reader(m.top), "%s:%d" % (m.fi_read.file, m.fi_read.lineno),
           "consumption grammar extracted from the reads of read_file -> from_binary -> dir_from_binary equals the documented layout table field by field (widths, big-endian, nesting, loop forms, region ends)")
    chk.info["reader_grammar"] = show_reader(m.top)
    # the MAC switch selects whether the MACs are COMPARED, never what is consumed: a read that happens only on one side of a test of check_cmac gives the
    # two modes different grammars (and the end-of-region checks reject, with the switch off, what the writer emits)
    cm = _check_cmac_term(m)
    bad = []
    for r in m.readers.values():
        for f in r.flat:
            ev = getattr(f, "ev", None)
            if ev is None or not isinstance(f, RField):
                continue
            for fr in ev.ctx:
                if fr[0] == "if" and any(x is cm for x in subterms(unsnap(fr[1]))):
                    bad.append((f, ev))
                    break
    where = "%s:%d" % (m.fi_read.file, m.fi_read.lineno)
    if bad:
        f, ev = bad[0]
        chk.fail("%s.%s" % (pid, "reads-independent-of-mac-switch"), BF3 + ".Bf3File.dir_from_binary/from_binary", "read of %s byte(s) under a test of check_cmac" % show(f.size, 3),
                 "%s:%s" % (m.fi_read.file, getattr(ev.node, "lineno", "?")), "with MAC checking off this field is not consumed: the two modes read different grammars")
        return False
    chk.ok("%s.%s" % (pid, "reads-independent-of-mac-switch"), BF3 + ".Bf3File.dir_from_binary/from_binary", "%d reads, none under a test of check_cmac" % sum(len(r.flat) for r in m.readers.values()), where,
           "MAC checking on and off consume the same fields; the switch only selects the comparisons")
    return True


def rule_writer_layout(m: Bf3Model, chk, pid, rid="writer-layout==documented-layout"):
    if m.writer_mismatch is not None:
        chk.fail("%s.%s" % (pid, rid), BF3 + ".Bf3File.to_binary/dir_to_binary", m.writer_mismatch.msg, "%s:%d" % (m.fi_dir.file, m.fi_dir.lineno), "extracted layout: " + show_segs(getattr(m, "wsegs", []), 3))
        return False
    chk.ok("%s.%s" % (pid, rid), BF3 + ".Bf3File.to_binary/dir_to_binary", show_segs(m.wsegs, 2), "%s:%d" % (m.fi_dir.file, m.fi_dir.lineno),
           "byte layout of the value returned by to_binary (dir_to_binary inlined) equals the documented layout table segment by segment")
    chk.info["writer_layout"] = show_segs(m.wsegs, 3)
    return True


# ===================================================================================== helpers for semantic rules
def canon(t, depth=40) -> str:
    from bfsa.report import norm_construct
    import re

    s = show(t, depth) if isinstance(t, Term) else str(t)
    s = re.sub(r"\s+", " ", s)
    s = re.sub(r"#\d+", "", s)
    s = re.sub(r"&(\w+?)\d+\b", r"&\1", s)
    s = re.sub(r"@(exit)?L\d+", "@L", s)
    s = re.sub(r"\?(\w+?)\d+\b", r"?\1", s)
    return s


def seg_len_expr(segs) -> str:
    """canonical symbolic length of a segment list (event/loop ids erased)"""
    parts = []
    n = 0
    for s in segs:
        k = s[0]
        if k == "const":
            n += len(s[1])
        elif k == "int":
            n += s[1]
        elif k == "mac":
            n += 16
        elif k == "opaque":
            parts.append("len(%s)" % canon(s[1]))
        elif k == "zeros":
            parts.append("(%s)" % canon(s[1]))
        elif k == "repeat":
            parts.append("sum[%s](%s)" % (canon(s[3]) if s[3] is not None else "?", seg_len_expr(s[2])))
        elif k == "region":
            parts.append(seg_len_expr(s[1]))
        else:
            parts.append("?%s" % k)
    return "+".join([str(n)] + sorted(parts))


def _is_all_but_last_16(stop: Term, field) -> bool:
    """slice bound that keeps everything but the last 16 bytes of the field: -16, or (size read | len(field)) - 16.  The reader returns exactly
    the size asked for or raises, and the 16-byte MAC was read from within the field, so the size is at least 16 and both spellings agree"""
    stop = unsnap(stop)
    if is_const(stop):
        return cval(stop) == -16 and not isinstance(cval(stop), bool)
    if stop.op == "bin" and stop.args[0] == "Sub" and is_const(unsnap(stop.args[2])) and cval(unsnap(stop.args[2])) == 16:
        a = unsnap(stop.args[1])
        if field.size is not None and a is unsnap(field.size):
            return True
        if a.op == "len" and unsnap(a.args[0]) is _field_term(field):
            return True
    return False


def find_guards(events, pred, swallow=None, allow_extra=False):
    """guards one of whose terminating disjuncts satisfies pred(op, a, b).  A disjunct that is a conjunction
    `A and B` matches when one conjunct satisfies pred; the other conjuncts are extra path conditions of the
    guard (recorded in g.d["extra"]) and are only tolerated when allow_extra is set (caller validates them)."""
    out = []
    for g in events:
        if g.kind != "guard" or g.d.get("term") not in ("raise",):
            continue
        r = raise_rel(g)
        for d in disjuncts(r):
            if d[0] == "rel" and pred(d[1], d[2], d[3]):
                g.d["extra"] = []
                out.append(g)
                break
            if d[0] == "and" and allow_extra:
                hit = [c for c in d[1] if c[0] == "rel" and pred(c[1], c[2], c[3])]
                if hit:
                    g.d["extra"] = [c for c in d[1] if c is not hit[0]]
                    out.append(g)
                    break
    return out


def accepted_only_when_not(x, pred) -> bool:
    """event x lies in a branch that is only entered when the condition pred describes is false: `if a == b: <x>` protects x against a != b just as
    `if a != b: raise` before x does"""
    for f in x.ctx:
        if f[0] != "if":
            continue
        neg = rel(f[1], not f[2])
        for d in disjuncts(neg):
            if d[0] == "rel" and pred(d[1], d[2], d[3]):
                return True
    return False


def only_cond_frames(g, allowed_conds, ex, protected=()) -> bool:
    """all `if` frames enclosing g are tests of one of the allowed condition terms (true polarity); a frame that also encloses every protected event
    (the whole reading happens under it, e.g. `if signature == SIG: return from_binary(...)`) does not let anything skip the guard"""
    for x in g.d.get("extra", []):
        if not (x[0] == "rel" and x[1] == "Truthy" and any(unsnap(x[2]) is a for a in allowed_conds)):
            return False
    protected = list(protected)
    for f in g.ctx:
        if f[0] == "if" and protected and all(f in p_.ctx for p_ in protected):
            continue
        if f[0] == "if":
            c = f[1]
            base = c.args[0] if c.op == "truthy" else c
            if not any(unsnap(base) is a for a in allowed_conds):
                # loop-condition frames are fine
                if any(lr.cond is c for lr in ex.loops.values()):
                    continue
                return False
            if not f[2]:
                return False
    return True


def is_len_of(t: Term, x: Term) -> bool:
    t = unsnap(t)
    return t.op == "len" and unsnap(t.args[0]) is unsnap(x)


def mac_args(call: Term):
    """(data, key, iv) of an opaque cmac(...) call term"""
    args = list(call.args[1])
    kw = dict(call.args[2])
    data = args[0] if args else kw.get("data")
    key = args[1] if len(args) > 1 else kw.get("key")
    iv = args[2] if len(args) > 2 else kw.get("iv", NONE)
    return data, key, iv


def int_to_bytes_of(t: Term):
    """(value, width, order) if t is <value>.to_bytes(width, order)"""
    mc = meth_call(t)
    if mc and mc[1] == "to_bytes" and mc[2] and is_const(mc[2][0]):
        order = mc[2][1] if len(mc[2]) > 1 else dict(mc[3]).get("byteorder", C("big"))
        return mc[0], cval(mc[2][0]), (cval(order) if is_const(order) else "?")
    # bytes((value,)) / bytes([value]): one byte holding the value (raises outside 0..255, like to_bytes(1, ...))
    bc = builtin_call(unsnap(t))
    if bc and bc[0] == "bytes" and len(bc[1]) == 1 and not bc[2]:
        a_ = unsnap(bc[1][0])
        if a_.op == "tuple" and len(a_.args[0]) == 1:
            return a_.args[0][0], 1, "big"
    return None


# ===================================================================================== reader-side semantic rules
def _field_term(f: RField) -> Term:
    return unsnap(f.result)


def _is_int_of(f: RField, t: Term) -> bool:
    t = strip_elem(t)
    return any(t is v for v in f.int_views)


def _is_bytes_of(f: RField, t: Term) -> bool:
    return strip_elem(t) is _field_term(f)


def reader_rules(m: Bf3Model, chk, pid, want=None):
    """C05.R1..R12 (shared with C04/C01).  `want` restricts to a subset of rule suffixes."""
    if m.rb is None:
        return
    ex, ev, rb = m.exr, m.res_read.events, m.rb
    fn_dir = BF3 + ".Bf3File.dir_from_binary"
    fn_bin = BF3 + ".Bf3File.from_binary"
    fn_read = m.fi_read.qualname
    rets = m.accept_return()
    P = lambda s: "%s.%s" % (pid, s)
    W = lambda s: want is None or s in want
    sw = m.swallow

    def dominating(gs, targets):
        return [g for g in gs if all(dominates(g, t, sw) for t in targets)]

    # ---- R1 signature
    if W("signature-guard"):
        sig = m.sig_field
        try:
            sigconst = m.prog.fold_name(m.prog.module(BF3), "BF3_FILE_SIG")
        except NotConst:
            sigconst = None
        want_sig = bytes.fromhex(SPEC["bf3_signature_hex"])
        ok_const = sigconst == want_sig
        gs = find_guards(ev, lambda op, a, b: op == "NotEq" and sig is not None and ((_is_bytes_of(sig, a) and is_const(b) and cval(b) == want_sig) or (_is_bytes_of(sig, b) and is_const(a) and cval(a) == want_sig)))
        gs = dominating(gs, rets)
        if not gs and rets:
            # `if read(n) == SIG: return <parsed file>` followed by the raise: acceptance happens only under the equality
            sig_pred = lambda op, a, b: op == "NotEq" and sig is not None and ((_is_bytes_of(sig, a) and is_const(b) and cval(b) == want_sig) or (_is_bytes_of(sig, b) and is_const(a) and cval(a) == want_sig))
            if all(accepted_only_when_not(r_, sig_pred) for r_ in rets):
                gs = list(rets)
        size_ok = sig is not None and is_const(sig.size) and cval(sig.size) == len(want_sig)
        chk.require(bool(gs) and ok_const and size_ok, P("signature-guard"), fn_read, "read(len(BF3_FILE_SIG)) != BF3_FILE_SIG -> raise", gs[0].where if gs else "%s:%d" % (m.fi_read.file, m.fi_read.lineno),
                    "first 5 bytes are compared with the documented signature 'BF3\\0\\0'; mismatch raises on every accepting path",
                    "no dominating guard rejects a wrong signature (or signature constant/size differs from 'BF3\\0\\0')")
    # ---- R2 declared <= stored
    if W("stored>=declared"):
        st, de = rb.field("stored"), rb.field("declared")
        gs = find_guards(ev, lambda op, a, b: (op == "Lt" and _is_int_of(st, a) and _is_int_of(de, b)))
        appends = [e for e in ev if e.kind == "mutate" and e.d["how"] == "append" and any(f[0] == "loop" and f[1] == rb.loops["entry"] for f in e.ctx)]
        gs = dominating(gs, appends) if appends else []
        chk.require(bool(gs), P("stored>=declared"), fn_dir, "stored < declared -> raise", gs[0].where if gs else st.ev.where,
                    "guard with normal form Lt(stored, declared) raises before the entry is accepted",
                    "no guard `stored < declared -> raise` dominates acceptance of a directory entry (missing, flipped, or <=)")
    # ---- R3 duplicate tag
    if W("duplicate-tag"):
        tid = rb.field("tag_id")
        stores = [e for e in ev if e.kind == "setitem" and _is_int_of(tid, e.d["index"])]
        ok = False
        where = tid.ev.where
        detail = ""
        if len(stores) == 1:
            d = unsnap(stores[0].d["base"])
            gs = find_guards(ev, lambda op, a, b: op == "In" and _is_int_of(tid, a) and unsnap(b) is d)
            gs = dominating(gs, stores)
            ok = bool(gs)
            where = gs[0].where if gs else stores[0].where
            if not ok:
                # the same test spelled with the lookup itself:  try: d[k]  except KeyError: d[k] = v  else: raise
                # (the store happens exactly when the lookup of the very key in the very dictionary fails; a successful lookup raises the format error)
                st_ = stores[0]
                exf = [f for f in st_.ctx if f[0] == "except" and "KeyError" in f[3]]
                if exf:
                    tid_ = exf[-1][1]
                    in_try = [e for e in ev if any(f[0] == "try" and f[1] == tid_ for f in e.ctx) and e.kind in ("subscript", "call", "mcall", "dyncall", "setitem", "raise")]
                    lookups = [e for e in in_try if e.kind == "subscript" and unsnap(e.d["base"]) is d and _is_int_of(tid, e.d["index"])]
                    in_else = [e for e in ev if e.kind == "raise" and any(f[0] == "tryelse" and f[1] == tid_ for f in e.ctx)]
                    else_cond = [f for e in in_else for f in e.ctx if f[0] == "if" and e.ctx.index(f) > [g_[0:2] for g_ in e.ctx].index(("tryelse", tid_))]
                    if len(in_try) == 1 and len(lookups) == 1 and len(in_else) == 1 and not else_cond and "FormatError" in str(in_else[0].d.get("exc")):
                        ok = True
                        where = lookups[0].where
            tv = rb.field("tag_value")
            if ok and not _is_bytes_of(tv, stores[0].d["value"]):
                ok = False
                detail = "the value stored under the tag id is not the tag value read"
        chk.require(ok, P("duplicate-tag"), fn_dir, "tag_id in description -> raise, before description[tag_id] = tag_value", where,
                    "membership guard on the very dictionary being filled dominates the store of (tag_id -> tag_value)",
                    detail or "a repeated description tag is not rejected before being stored")
    # ---- R4..R6, R11 region ends
    for region, rule in (("desc", "description-fully-consumed"), ("entry", "entry-fully-consumed"), ("directory", "directory-fully-consumed"), ("file", "nothing-after-last-payload")):
        if not W(rule):
            continue
        end = rb.ends.get(region)
        if end is None:
            chk.fail(P(rule), fn_dir if region != "file" else fn_bin, "region %s end check" % region, "", "region can end with unread bytes")
            continue
        kind, it = end
        if kind == "ensure":
            g = it.guard
            # must dominate acceptance: for per-record regions, the next iteration / loop exit; for the file, the return
            tgt = rets
            good = all(dominates(g, t, sw, allow=[f for f in g.ctx if f[0] == "loop" or (f[0] == "if" and any(lr.cond is f[1] for lr in ex.loops.values()))]) for t in tgt)
            chk.require(good, P(rule), fn_dir if region != "file" else fn_bin, "ensure_eof(%s)" % region, g.where,
                        "position == length of region '%s' is enforced (raise otherwise) on every accepting path" % region,
                        "end-of-data check of region '%s' does not dominate acceptance" % region)
        else:
            chk.ok(P(rule), fn_dir, "loop-until-eof(%s)" % region, "", "region '%s' is consumed by a loop whose only exit is position == length (an additional ensure_eof would be redundant)" % region)
    # ---- R7 entry MAC
    if W("entry-mac"):
        em, en = rb.field("emac"), rb.field("entry")
        lid = rb.loops["entry"]
        found, why = None, "no guard compares the stored entry MAC with a MAC computed over the entry prefix"

        def pred(op, a, b):
            nonlocal found, why
            if op != "NotEq":
                return False
            for x, y in ((a, b), (b, a)):
                if _is_bytes_of(em, x) and is_call_named(unsnap(y), "cmac"):
                    data, key, iv = mac_args(unsnap(y))
                    d = unsnap(data)
                    cov = d.op == "slice" and unsnap(d.args[0]) is _field_term(en) and d.args[1] is NONE and d.args[3] is NONE and _is_all_but_last_16(d.args[2], en)
                    if not cov:
                        why = "entry MAC is computed over %s, documented coverage is the whole entry before the MAC (entry[:-16])" % show(d, 4)
                        return False
                    tb = int_to_bytes_of(unsnap(iv)) if iv is not None and iv is not NONE else None
                    if not tb or tb[1] != 16 or tb[2] != "big":
                        why = "entry MAC IV is not a 16-byte big-endian integer (%s)" % (show(iv, 4) if iv is not None else None)
                        return False
                    v = unsnap(tb[0])
                    lr = ex.loops[lid]
                    one_based = v.op == "loopvar" and v.args[0] == lid and is_const(lr.init.get(v.args[1], C(None))) and cval(lr.init[v.args[1]]) == 1 and _is_incr(lr.next.get(v.args[1]), v, 1)
                    zero_plus = v.op == "bin" and v.args[0] == "Add" and _loop_counter_plus(ex, lid, v, 1)
                    if not (one_based or zero_plus):
                        why = "entry MAC IV is not the 1-based index of the entry (%s)" % show(v, 4)
                        return False
                    if unsnap(key).op != "param" or unsnap(key).args[0] != "session_key":
                        why = "entry MAC key is not the session key parameter"
                        return False
                    return True
            return False

        gs = find_guards(ev, pred, allow_extra=True)
        appends = [e for e in ev if e.kind == "mutate" and e.d["how"] == "append" and any(f[0] == "loop" and f[1] == lid for f in e.ctx)]
        cc = _check_cmac_term(m)
        good = [g for g in gs if only_cond_frames(g, [cc], ex, protected=appends) and all(dominates(g, a, sw, allow=[f for f in g.ctx if f[0] == "if" and unsnap(f[1].args[0] if f[1].op == "truthy" else f[1]) is cc]) for a in appends)]
        if gs and not good:
            why = "entry MAC verification is skipped on some path other than check_cmac=False, or does not precede acceptance of the entry"
        # emac must be the last field of the entry (so that entry[:-16] is exactly what precedes it)
        last_ok = rb.ends.get("entry") is not None and is_const(em.size) and cval(em.size) == 16
        chk.require(bool(good) and last_ok and bool(appends), P("entry-mac"), fn_dir, "stored_cmac != cmac(entry[:-16], session_key, iv(index)) -> raise", (good or gs)[0].where if (good or gs) else em.ev.where,
                    "MAC over the entry prefix, keyed with the session key, IV = 1-based entry index as 16-byte big-endian; mismatch raises whenever check_cmac is true", why)
    # ---- R8 address
    if W("address==position"):
        adr, pay = rb.field("adr"), rb.field("payload")
        top = m.top

        def pred8(op, a, b):
            if op != "NotEq":
                return False
            for x, y in ((a, b), (b, a)):
                mc = meth_call(unsnap(y))
                if _is_int_of(adr, x) and mc and mc[1] == "tell" and unsnap(mc[0]) is top.term:
                    return True
            return False

        def running_position(y):
            """y is a loop-carried variable that equals the reader position at the head of every iteration: it starts as tell() taken with no read before the
            loop, and every iteration adds exactly the size of its only read (an exact read returns that many bytes or raises)"""
            y = unsnap(y)
            if y.op != "loopvar":
                return False
            lr_ = ex.loops.get(y.args[0])
            if lr_ is None or not any(f[0] == "loop" and f[1] == y.args[0] for f in pay.ev.ctx):
                return False
            init, nxt = lr_.init.get(y.args[1]), lr_.next.get(y.args[1])
            mi = meth_call(unsnap(init)) if init is not None else None
            if not (mi and mi[1] == "tell" and unsnap(mi[0]) is top.term) or nxt is None:
                return False
            t_ev = [e for e in ev if e.kind == "mcall" and e.d["name"] == "tell" and unsnap(e.d["result"]) is unsnap(init)]
            moves = [e for e in ev if e.kind == "mcall" and e.d["name"] in ("read", "seek", "read_int") and unsnap(e.d["recv"]) is top.term and t_ev and e.uid > t_ev[0].uid]
            moves += [e for e in ev if e.kind == "call" and e.d["callee"].name in ("read", "seek", "read_int") and e.d.get("recv") is not None and unsnap(e.d["recv"]) is top.term and t_ev and e.uid > t_ev[0].uid
                      and e.uid != pay.ev.uid]
            in_loop = [e for e in moves if any(f[0] == "loop" and f[1] == y.args[0] for f in e.ctx)]
            if [e for e in moves if e not in in_loop and e.uid < pay.ev.uid] or [e for e in in_loop if e.uid != pay.ev.uid and unsnap(e.d.get("result")) is not unsnap(pay.ev.d.get("result"))]:
                return False
            n_ = unsnap(nxt)
            if not (n_.op == "bin" and n_.args[0] == "Add"):
                return False
            a_, b_ = unsnap(n_.args[1]), unsnap(n_.args[2])
            if (a_ is y and b_ is unsnap(pay.size)) or (b_ is y and a_ is unsnap(pay.size)):
                return True
            # the same sum written with the length of what was read (an exact read returns as many bytes as were asked for)
            from bfsa.length import lin as _lin

            ln_, ly_, ls_ = _lin(n_), _lin(y), _lin(pay.size)
            if ln_ is None or ly_ is None or ls_ is None:
                return False
            want_ = dict(ly_)
            for k_, v_ in ls_.items():
                want_[k_] = want_.get(k_, 0) + v_
            nz = lambda d_: {k_: v_ for k_, v_ in d_.items() if v_ != 0}
            return nz(ln_) == nz(want_)

        def pred8b(op, a, b):
            if op != "NotEq":
                return False
            return any(_is_int_of(adr, x) and running_position(y) for x, y in ((a, b), (b, a)))

        gs = find_guards(ev, pred8)
        gs = [g for g in gs if dominates(g, pay.ev, sw)]
        gsb = [g for g in find_guards(ev, pred8b) if dominates(g, pay.ev, sw)]
        # the tell() must be taken after the previous payload read and before this one: same iteration, no read between
        ok = bool(gsb)
        if gsb and not gs:
            gs = gsb
        for g in gs:
            between = [e for e in ev if g.uid < e.uid < pay.ev.uid and e.kind == "mcall" and e.d["name"] in ("read", "seek") and unsnap(e.d["recv"]) is top.term]
            tells = [e for e in ev if e.kind == "mcall" and e.d["name"] == "tell" and mentions(g.d["cond"], e.d["result"])]
            between2 = [e for e in ev if tells and tells[0].uid < e.uid < pay.ev.uid and e.kind == "mcall" and e.d["name"] in ("read", "seek") and unsnap(e.d["recv"]) is top.term]
            if not between and not between2:
                ok = True
        chk.require(ok, P("address==position"), fn_bin, "adr != tell() -> raise, before the payload read", gs[0].where if gs else pay.ev.where,
                    "each entry's absolute address is compared with the current absolute position of the file reader immediately before its payload is read (contiguity)",
                    "payload address is not compared with the reader position before the payload is read")
    # ---- R9 payload MAC
    if W("payload-mac"):
        pm, pay = rb.field("pmac"), rb.field("payload")
        why9 = "no guard compares the stored payload MAC with a MAC over the stored payload bytes"

        def pred9(op, a, b):
            nonlocal why9
            if op != "NotEq":
                return False
            for x, y in ((a, b), (b, a)):
                if _is_bytes_of(pm, x) and is_call_named(unsnap(y), "cmac"):
                    data, key, iv = mac_args(unsnap(y))
                    if unsnap(data) is not _field_term(pay):
                        why9 = "payload MAC is computed over %s, not over the stored payload bytes" % show(data, 4)
                        return False
                    if iv is not None and iv is not NONE:
                        why9 = "payload MAC uses a non-default IV"
                        return False
                    if unsnap(key).op != "param" or unsnap(key).args[0] != "session_key":
                        why9 = "payload MAC key is not the session key parameter"
                        return False
                    return True
            return False

        gs = find_guards(ev, pred9, allow_extra=True)
        cc = _check_cmac_term(m)
        news = [e for e in ev if e.kind == "new" and e.d["cls"].name == "Bf3Component"]
        good = [g for g in gs if only_cond_frames(g, [cc], ex, protected=news) and all(dominates(g, nw, sw, allow=[f for f in g.ctx if f[0] == "if" and unsnap(f[1].args[0] if f[1].op == "truthy" else f[1]) is cc]) for nw in news)]
        if gs and not good:
            why9 = "payload MAC verification is skipped on some path other than check_cmac=False, or follows the use of the payload"
        chk.require(bool(good) and bool(news), P("payload-mac"), fn_bin, "cmac(payload, session_key) != pmac -> raise", (good or gs)[0].where if (good or gs) else pay.ev.where,
                    "MAC over exactly the stored payload bytes with the session key (IV default) is compared with the directory's payload MAC; mismatch raises whenever check_cmac is true", why9)
    # ---- R12 flows into the returned object
    if W("fields->object"):
        news = split_conditional_news([e for e in ev if e.kind == "new" and e.d["cls"].name == "Bf3Component"])
        de, pay = rb.field("declared"), rb.field("payload")
        tid = rb.field("tag_id")
        stores = [e for e in ev if e.kind == "setitem" and _is_int_of(tid, e.d["index"])]
        ddict = unsnap(stores[0].d["base"]) if stores else None
        comp_cls = m.prog.cls(BF3 + ".Bf3Component")
        params = m.prog.method(BF3 + ".Bf3Component", "__init__").params[1:]
        ok_all = bool(news)
        bad = ""
        for nw in news:
            a = dict(zip(params, nw.d["args"]))
            a.update(nw.d["kwargs"])
            desc, blob, alen = a.get("description"), a.get("blob"), a.get("actual_len")
            if desc is None or strip_elem(desc) is not ddict:
                ok_all, bad = False, "description passed to Bf3Component is not the tag dictionary parsed for the entry"
            if alen is None or not _is_int_of(de, alen):
                ok_all, bad = False, "actual_len passed to Bf3Component is not the declared-length field"
            b = unsnap(blob) if blob is not None else None
            if b is not None and b.op == "call" and meth_call(b) and meth_call(b)[1] == "decrypt":
                b = unsnap(meth_call(b)[2][0]) if meth_call(b)[2] else None
            if b is None or not _is_bytes_of(pay, b):
                ok_all, bad = False, "blob passed to Bf3Component is not (the decryption of) the payload read for the entry"
        # components appended in order and returned
        chk.require(ok_all, P("fields->object"), fn_bin, "Bf3Component(description, payload, declared)", news[0].where if news else "",
                    "constructor arguments of every returned component originate from the slots tag-list / payload / declared-length of its own entry", bad or "no component is constructed")
        # constructor stores parameters into the attributes the writer reads
        exi = Exec(m.prog, policy=lambda e, f, d: False)
        ri = exi.run(m.prog.method(BF3 + ".Bf3Component", "__init__"))
        sets = {e.d["name"]: e.d["value"] for e in ri.events if e.kind == "setattr"}
        okc = all(k in sets for k in ("description", "blob", "actual_len"))
        okc = okc and sets["description"].op == "param" and sets["description"].args[0] == "description" and sets["blob"].op == "param" and sets["blob"].args[0] == "blob"
        al = sets.get("actual_len")
        ok_al = al is not None and ((al.op == "param" and al.args[0] == "actual_len") or (al.op == "or" and al.args[0][0].op == "param" and al.args[0][0].args[0] == "actual_len" and is_len_of(al.args[0][1], mk("param", "blob"))))
        if al is not None and not ok_al and unsnap(al).op == "phi":
            # `actual_len if actual_len else len(blob)` is `actual_len or len(blob)`
            c_, a_, b_ = unsnap(al).args
            rc = rel(c_, True)
            p_al = mk("param", "actual_len")
            if rc[0] == "rel" and rc[1] == "Truthy" and unsnap(rc[2]) is p_al and unsnap(a_) is p_al and is_len_of(b_, mk("param", "blob")):
                ok_al = True
            rn = rel(c_, False)
            if rn[0] == "rel" and rn[1] == "Truthy" and unsnap(rn[2]) is p_al and unsnap(b_) is p_al and is_len_of(a_, mk("param", "blob")):
                ok_al = True
        chk.require(okc and ok_al, P("fields->object"), BF3 + ".Bf3Component.__init__", "self.description/blob/actual_len = parameters", "%s:%d" % (ri.fi.file, ri.fi.lineno),
                    "constructor stores its parameters unchanged (actual_len falls back to len(blob) only when falsy)", "constructor does not store description/blob/actual_len parameters unchanged")


class _ArmEvent:
    """one arm of a construction whose arguments are conditional values under one condition: the construction as it happens when the condition is
    true (false), with that condition among the enclosing tests"""
    def __init__(self, e, cond, pol):
        self.kind, self.uid, self.where, self.fn, self.node, self.stack = e.kind, e.uid, e.where, e.fn, e.node, e.stack
        self.ctx = tuple(e.ctx) + (("if", cond, pol, -e.uid),)
        self.facts = tuple(getattr(e, "facts", ()) or ()) + ((cond, pol),)

        def pick(t):
            u = unsnap(t)
            if u.op == "phi" and unsnap(u.args[0]) is unsnap(cond):
                return u.args[1] if pol else u.args[2]
            if u is unsnap(cond) or (u.op == "truthy" and unsnap(u.args[0]) is unsnap(cond)):
                return C(bool(pol))
            return t

        self.d = dict(e.d)
        self.d["args"] = tuple(pick(a) for a in e.d["args"])
        self.d["kwargs"] = {k: pick(v) for k, v in e.d["kwargs"].items()}
        self.origin = e


def split_conditional_news(news):
    """Bf3Component(d, decrypt(p) if c else p, n, encrypt_by_session_key=c) is the two constructions of `if c: ...(d, decrypt(p), n, True) else: ...(d, p, n, False)`"""
    out = []
    for e in news:
        conds = [unsnap(a).args[0] for a in list(e.d["args"]) + list(e.d["kwargs"].values()) if unsnap(a).op == "phi"]
        conds = [c for i, c in enumerate(conds) if all(unsnap(c) is not unsnap(c2) for c2 in conds[:i])]
        if len(conds) == 1 and conds[0].op in ("cmp", "truthy", "un", "and", "or", "isinst"):
            out.extend([_ArmEvent(e, conds[0], True), _ArmEvent(e, conds[0], False)])
        else:
            out.append(e)
    return out


def _check_cmac_term(m: Bf3Model) -> Term:
    return m.res_read.params.get("check_cmac", mk("param", "check_cmac"))


def _is_incr(nxt: Optional[Term], var: Term, k: int) -> bool:
    if nxt is None:
        return False
    nxt = unsnap(nxt)
    if nxt.op == "bin" and nxt.args[0] == "Add":
        a, b = unsnap(nxt.args[1]), unsnap(nxt.args[2])
        return (a is var and is_const(b) and cval(b) == k) or (b is var and is_const(a) and cval(a) == k)
    return False


def _loop_counter_plus(ex, lid, v: Term, k: int) -> bool:
    """v == index(loop)+k  or  (0-based counter loopvar)+k"""
    a, b = unsnap(v.args[1]), unsnap(v.args[2])
    for x, y in ((a, b), (b, a)):
        if is_const(y) and cval(y) == k:
            if x.op == "index" and x.args[0] == lid:
                return True
            if x.op == "loopvar" and x.args[0] == lid:
                lr = ex.loops[lid]
                if is_const(lr.init.get(x.args[1], C(None))) and cval(lr.init[x.args[1]]) == 0 and _is_incr(lr.next.get(x.args[1]), x, 1):
                    return True
            if x.op == "len" and unsnap(x.args[0]).op == "ref" and _one_append_per_iteration(ex, lid, unsnap(x.args[0])):
                # len(L) of a list that is empty before the loop and gets exactly one element per completed iteration: the 0-based iteration count
                return True
    return False


def _one_append_per_iteration(ex, lid, lst: Term) -> bool:
    made = [e for e in ex.trace if e.kind in ("new", "newlist", "literal") and unsnap(e.d.get("result", NONE)) is lst]
    producers = [e for e in ex.trace if e.kind == "mutate" and unsnap(e.d["obj"]) is lst]
    if len(producers) != 1 or producers[0].d["how"] != "append":
        return False
    e = producers[0]
    loops = [f[1] for f in e.ctx if f[0] == "loop"]
    if not loops or loops[-1] != lid:
        return False
    lr = ex.loops[lid]
    ctx = list(e.ctx)
    k = next(i for i, f in enumerate(ctx) if f[0] == "loop" and f[1] == lid)
    inner = [f for f in ctx[k + 1:] if f[0] in ("if", "loop", "try", "except") and not (f[0] == "if" and lr.cond is not None and f[1] is lr.cond)]
    if inner:
        return False
    # nothing is in the list when the loop starts: the heap object was created empty (its recorded history starts with this append)
    o = getattr(ex, "last_heap", {}).get(lst.args[0])
    if o is None or o.exact:
        return o is not None and o.exact and len(o.items) == 0
    return all(how != "init" for _, _, how in o.items)


# ===================================================================================== writer-side semantic rules
def canon_segs(segs) -> str:
    return canon(show_segs(segs, 40))


def _region(wb: Binding, name):
    r = wb.fields[name][0]
    assert r[0] == "region"
    return list(r[1])


def _self_attr(t: Term, attr: str) -> bool:
    t = unsnap(t)
    return t.op == "attr" and t.args[1] == attr and unsnap(t.args[0]).op == "param" and unsnap(t.args[0]).args[0] == "self"


def _iter_source(t: Optional[Term]) -> Optional[Term]:
    """strip enumerate() from an iteration source"""
    if t is None:
        return None
    t = unsnap(t)
    if t.op == "iterview" and t.args[0] == "enumerate":
        return unsnap(t.args[1])
    return t


def writer_rules(m: Bf3Model, chk, pid, want=None):
    if m.wb is None:
        return
    wb, ex = m.wb, m.exfull
    w = m.writer
    fn_dir = BF3 + ".Bf3File.dir_to_binary"
    fn_bin = BF3 + ".Bf3File.to_binary"
    where_dir = "%s:%d" % (m.fi_dir.file, m.fi_dir.lineno)
    where_bin = "%s:%d" % (m.fi_tobin.file, m.fi_tobin.lineno)
    P = lambda s: "%s.%s" % (pid, s)
    W = lambda s: want is None or s in want
    # ---- length prefixes denote the real size of what follows
    if W("length-prefix"):
        for lenname, regname in (("dir_size", "directory"), ("entry_len", "entry"), ("desc_len", "desc")):
            seg = wb.field(lenname)
            v = unsnap(seg[2])
            ok = v.op == "len"
            detail = ""
            if ok:
                try:
                    got = canon_segs(w.flatten(v.args[0]))
                except Unsupported as u:
                    got = "<%s>" % u
                want_s = canon_segs(_region(wb, regname))
                ok = got == want_s
                detail = "" if ok else "prefix counts %s but the region emitted is %s" % (got[:160], want_s[:160])
            else:
                detail = "value %s is not the length of the emitted region" % show(v, 4)
            chk.require(ok, P("length-prefix"), fn_dir, "%s = len(%s)" % (lenname, regname), where_dir,
                        "the %s field is len() of exactly the byte string emitted as region '%s'" % (lenname, regname), detail)
        tl, tv = wb.field("tag_len"), wb.field("tag_value")
        v = unsnap(tl[2])
        chk.require(v.op == "len" and unsnap(v.args[0]) is unsnap(tv[1]), P("length-prefix"), fn_dir, "tag_len = len(tag_value)", where_dir,
                    "tag length byte is len() of the tag value emitted next", "tag length %s is not len() of the emitted tag value %s" % (show(v, 4), show(tv[1], 4)))
        st, pm, pay = wb.field("stored"), wb.field("pmac"), wb.field("payload")
        v = unsnap(st[2])
        data, key, iv = mac_args(pm[1])
        ok = v.op == "len" and unsnap(v.args[0]) is unsnap(data) and canon(unsnap(data)) == canon(unsnap(pay[1]))
        chk.require(ok, P("length-prefix"), fn_dir, "stored = len(raw payload) = MACed bytes = bytes in payload area", where_dir,
                    "the stored-length field, the payload MAC input and the bytes written to the payload area are the same expression (component.get_raw_data(session_key))",
                    "stored=%s, pmac over %s, payload area %s are not the same bytes" % (show(v, 4), show(data, 4), show(pay[1], 4)))
    # ---- declared length
    if W("declared-from-component"):
        de = wb.field("declared")
        v = unsnap(de[2])
        src = _iter_source(wb.field("entry#iter"))
        ok = v.op == "attr" and v.args[1] == "actual_len" and unsnap(v.args[0]).op == "elem" and src is not None and _self_attr(src, "components")
        chk.require(ok, P("declared-from-component"), fn_dir, "declared = component.actual_len", where_dir, "declared-length field is the component's actual_len", "declared-length field is %s" % show(v, 4))
    # ---- absolute, contiguous addresses
    if W("absolute-addresses"):
        adr = wb.field("adr")
        v = unsnap(adr[2])
        lid = wb.loops["entry"]
        lr = ex.loops[lid]
        ok, why = False, "address field is not a running offset carried by the entry loop"
        if v.op == "loopvar" and v.args[0] == lid:
            nm = v.args[1]
            init, nxt = unsnap(lr.init.get(nm, C(None))), unsnap(lr.next.get(nm, C(None)))
            st = unsnap(wb.field("stored")[2])
            step_ok = nxt.op == "bin" and nxt.args[0] == "Add" and any(unsnap(a) is v and unsnap(b) is st for a, b in ((nxt.args[1], nxt.args[2]), (nxt.args[2], nxt.args[1])))
            if not step_ok:
                why = "address does not advance by exactly the stored length of each payload (next = %s)" % show(nxt, 5)
            # init = offset + len(<size-pass directory>)
            init_ok = False
            if init.op == "bin" and init.args[0] == "Add":
                for a, b in ((unsnap(init.args[1]), unsnap(init.args[2])), (unsnap(init.args[2]), unsnap(init.args[1]))):
                    if a.op == "param" and a.args[0] == "offset" and b.op == "len":
                        try:
                            pass1 = w.flatten(b.args[0])
                            dir_part = [s for s in m.wsegs[: len(m.wsegs) - 1]]
                            init_ok = seg_len_expr(pass1) == seg_len_expr(dir_part)
                            if not init_ok:
                                why = "size pass yields %s bytes, real directory %s" % (seg_len_expr(pass1)[:120], seg_len_expr(dir_part)[:120])
                        except Unsupported as u:
                            why = "size pass not interpretable: %s" % u
            if not init_ok and step_ok and "size pass" not in why:
                why = "first address is not offset + total size of (size field + directory) (init = %s)" % show(init, 5)
            ok = step_ok and init_ok
        chk.require(ok, P("absolute-addresses"), fn_bin, "adr_0 = offset + len(dir bytes); adr_{i+1} = adr_i + stored_i", where_bin,
                    "addresses are absolute file offsets: start at offset + size of the size field and directory (size pass has the same symbolic length as the real pass) and advance by the stored length", why)
    # ---- MACs
    if W("mac-coverage-iv"):
        em, pm = wb.field("emac"), wb.field("pmac")
        data, key, iv = mac_args(em[1])
        entry = _region(wb, "entry")
        try:
            got = canon_segs(w.flatten(data))
        except Unsupported as u:
            got = "<%s>" % u
        want_s = canon_segs(entry[:-1])
        lid = wb.loops["entry"]
        tb = int_to_bytes_of(unsnap(iv)) if iv is not None and iv is not NONE else None
        iv_ok = bool(tb) and tb[1] == 16 and tb[2] == "big" and unsnap(tb[0]).op == "bin" and unsnap(tb[0]).args[0] == "Add" and _loop_counter_plus(ex, lid, unsnap(tb[0]), 1)
        if tb and not iv_ok:
            v = unsnap(tb[0])
            lr = ex.loops[lid]
            iv_ok = tb[1] == 16 and tb[2] == "big" and v.op == "loopvar" and v.args[0] == lid and is_const(lr.init.get(v.args[1], C(None))) and cval(lr.init[v.args[1]]) == 1 and _is_incr(lr.next.get(v.args[1]), v, 1)
        key_ok = unsnap(key).op == "param" and unsnap(key).args[0] == "session_key"
        chk.require(got == want_s and entry[-1] is em, P("mac-coverage-iv"), fn_dir, "emac = MAC(all of the entry before emac)", where_dir,
                    "entry MAC input is exactly the concatenation of the entry's earlier fields", "entry MAC covers %s, entry prefix is %s" % (got[:160], want_s[:160]))
        chk.require(iv_ok, P("mac-coverage-iv"), fn_dir, "emac IV = U128be(1 + entry index)", where_dir, "IV is the 1-based entry index as 16-byte big-endian integer", "entry MAC IV is %s" % (show(iv, 5) if iv is not None else None))
        pdata, pkey, piv = mac_args(pm[1])
        pkey_ok = unsnap(pkey).op == "param" and unsnap(pkey).args[0] == "session_key"
        chk.require(key_ok and pkey_ok and (piv is None or piv is NONE), P("mac-coverage-iv"), fn_dir, "MAC key = session_key; payload MAC IV = default", where_dir,
                    "both MACs are keyed with the session key parameter; the payload MAC uses the default (zero) IV", "MAC key/IV arguments deviate (key %s / %s, payload iv %s)" % (show(key, 3), show(pkey, 3), show(piv, 3) if piv is not None else None))
    # ---- iteration order
    if W("directory-order"):
        e_src = _iter_source(wb.field("entry#iter"))
        p_src = _iter_source(wb.field("payloads#iter"))
        ok = e_src is not None and p_src is not None and _self_attr(e_src, "components") and _self_attr(p_src, "components")
        chk.require(ok, P("directory-order"), fn_bin, "entries and payloads both iterate self.components in order", where_bin,
                    "directory entries and the payload area are both produced by iterating self.components front to back",
                    "entries iterate %s, payloads iterate %s" % (show(wb.field("entry#iter"), 4), show(wb.field("payloads#iter"), 4)))
        pay = unsnap(wb.field("payload")[1])
        mc = meth_call(pay)
        k_ok = bool(mc) and mc[1] == "get_raw_data" and mc[2] and unsnap(mc[2][0]).op == "param" and unsnap(mc[2][0]).args[0] == "session_key"
        chk.require(k_ok, P("directory-order"), fn_bin, "payload = component.get_raw_data(session_key)", where_bin, "payload bytes are produced with the caller's session key", "payload bytes are %s" % show(pay, 4))


def envelope_writer_rules(m: Bf3Model, chk, pid):
    """write_file: signature + offset; write_bf3_format: comment lines, blank line, 40-byte upper-case hex lines"""
    prog = m.prog
    P = lambda s: "%s.%s" % (pid, s)
    # ---- write_file
    fi = prog.func(BF3 + ".Bf3File.write_file")
    ex = Exec(prog, policy=lambda e, f, d: False)
    res = ex.run(fi)
    wfmt = prog.func(BF3 + ".Bf3File.write_bf3_format")  # (through the class: the method may be bound there to a module-level function)
    calls = [e for e in res.events if e.kind == "call" and (e.d["callee"].name == "write_bf3_format" or e.d["callee"] is wfmt) and len(e.stack) == 1]
    where = "%s:%d" % (fi.file, fi.lineno)
    want_sig = bytes.fromhex(SPEC["bf3_signature_hex"])
    ok, why = False, "write_file does not call write_bf3_format exactly once"
    if len(calls) == 1:
        args = calls[0].d["args"]
        raw = unsnap(args[-1]) if args else None
        cm = unsnap(args[-2]) if len(args) >= 2 else None
        why = "binary passed to the text writer is not signature + to_binary(len(signature), session_key)"
        if raw is not None and raw.op == "bin" and raw.args[0] == "Add" and is_const(raw.args[1]) and cval(raw.args[1]) == want_sig and is_call_named(unsnap(raw.args[2]), "to_binary"):
            tb = unsnap(raw.args[2])
            a = list(tb.args[1])
            a = a[1:] if a and unsnap(a[0]).op in ("ref",) else a
            kw = dict(tb.args[2])
            off = a[0] if a else kw.get("offset")
            key = a[1] if len(a) > 1 else kw.get("session_key")
            ok = off is not None and is_const(off) and cval(off) == len(want_sig) and key is not None and unsnap(key).op == "param" and unsnap(key).args[0] == "session_key"
            if not ok:
                why = "to_binary is called with offset %s / key %s (documented: offset = signature length 5, caller's key)" % (show(off, 3) if off is not None else None, show(key, 3) if key is not None else None)
        if ok and not (cm is not None and _self_attr(cm, "comments")):
            ok, why = False, "comments passed to the text writer are not self.comments"
    chk.require(ok, P("signature+offset"), fi.qualname, "BF3_FILE_SIG + to_binary(len(BF3_FILE_SIG), session_key)", where,
                "file starts with 'BF3\\0\\0' and the body is serialised with start offset 5", why)
    # ---- write_bf3_format
    fi = prog.func(BF3 + ".Bf3File.write_bf3_format")
    ex = Exec(prog, policy=lambda e, f, d: f.name == "<lambda>" or f.parent is not None)
    res = ex.run(fi)
    where = "%s:%d" % (fi.file, fi.lineno)
    writes = [e for e in res.events if e.kind == "mcall" and e.d["name"] == "write"]
    T = SPEC["text"]
    def envelope_group(writes):
        ok, why = len(writes) == 3, "expected three write sites (comments, blank line, hex lines), found %d" % len(writes)
        if ok:
            w_comments, w_blank, w_hex = writes
            loops_c = [f for f in w_comments.ctx if f[0] == "loop"]
            loops_h = [f for f in w_hex.ctx if f[0] == "loop"]
            if not loops_h or [f for f in w_blank.ctx if f[0] == "loop"]:
                ok, why = False, "comment block / separator / hex lines are not written in that order"
        if ok:
            sep = unsnap(w_blank.d["args"][0])
            if not (is_const(sep) and cval(sep) == T["separator"]):
                ok, why = False, "separator between comments and data is %s, documented one empty line" % show(sep, 3)
        if ok:
            # comment lines: "".join(map(lambda tup: FORMAT.format(*tup), comments.items()))
            t = unsnap(w_comments.d["args"][0])
            fmt_ok = False
            elt = it = None
            if t.op == "join" and is_const(t.args[0]) and cval(t.args[0]) == "" and unsnap(t.args[1]).op == "comp" and not loops_c:
                cp = unsnap(t.args[1])
                elt, it = unsnap(cp.args[1]), unsnap(cp.args[2])
            elif loops_c:
                # one write per comment inside a for-loop over the mapping's items
                lrc = ex.loops[loops_c[-1][1]]
                elt, it = t, (unsnap(lrc.iter) if lrc.iter is not None else None)
            if elt is not None and it is not None:
                fm = meth_call(elt)
                im = meth_call(it)
                src_ok = bool(im) and im[1] == "items" and unsnap(im[0]).op == "param" and unsnap(im[0]).args[0] == "comments"
                if fm and fm[1] == "format" and is_const(fm[0]) and cval(fm[0]) == T["comment_format"] and src_ok:
                    a = [unsnap(x) for x in fm[2]]
                    if len(a) == 1 and a[0].op == "star" and unsnap(a[0].args[0]).op == "elem":
                        fmt_ok = True
                    elif len(a) == 2 and a[0].op in ("sub", "elem", "key") and a[1].op in ("sub", "elem", "value") and a[0] is not a[1]:
                        fmt_ok = True
            if not fmt_ok:
                ok, why = False, "comment lines are not produced as %r per (key, value) of the comments mapping (%s)" % (T["comment_format"], show(t, 5)[:160])
        if ok:
            lid = loops_h[-1][1]
            lr = ex.loops[lid]
            arg = unsnap(w_hex.d["args"][0])
            # arg == upper(hex(rawdata[pos:pos+K])) + "\n"
            line_ok = False
            while_stop = None
            K = T["hex_bytes_per_line"]
            if arg.op == "bin" and arg.args[0] == "Add" and is_const(arg.args[2]) and cval(arg.args[2]) == "\n":
                up = meth_call(unsnap(arg.args[1]))
                if up and up[1] == "upper":
                    hx = meth_call(unsnap(up[0]))
                    if hx and hx[1] == "hex" and not hx[2]:
                        sl = unsnap(hx[0])
                        if sl.op == "slice" and unsnap(sl.args[0]).op == "param" and unsnap(sl.args[0]).args[0] == "rawdata" and sl.args[3] is NONE:
                            lo, hi = unsnap(sl.args[1]), unsnap(sl.args[2])
                            pos = unsnap(lr.target) if lr.kind == "for" else None
                            if lr.kind == "while" and lr.cond is not None:
                                # while pos < stop: ...; pos += K   -- the same positions as range(0, stop, K)
                                rc = rel(lr.cond, True)
                                if rc[0] == "rel" and rc[1] == "Lt" and unsnap(rc[2]).op == "loopvar" and unsnap(rc[2]).args[0] == lid:
                                    pv = unsnap(rc[2])
                                    if is_const(lr.init.get(pv.args[1], C(None))) and cval(lr.init[pv.args[1]]) == 0 and _is_incr(lr.next.get(pv.args[1]), pv, K):
                                        pos = pv
                                        while_stop = unsnap(rc[3])
                            if pos is not None and lo is pos and hi.op == "bin" and hi.args[0] == "Add" and ((unsnap(hi.args[1]) is pos and is_const(hi.args[2]) and cval(hi.args[2]) == K) or (unsnap(hi.args[2]) is pos and is_const(hi.args[1]) and cval(hi.args[1]) == K)):
                                line_ok = True
            if not line_ok and arg.op == "bin" and arg.args[0] == "Add" and is_const(arg.args[2]) and cval(arg.args[2]) == "\n" and lr.kind == "for":
                # the same line cut out of the hex text of the whole image: rawdata.hex().upper()[2*pos : 2*pos + 2*K] (two digits per byte; upper() and hex() in either order
                # do not apply: hex() comes first).  2*pos may be written pos * 2, pos + pos or pos << 1 -- compared as linear forms
                from bfsa.length import lin as _lin

                sl = unsnap(arg.args[1])
                if sl.op == "slice" and sl.args[3] is NONE:
                    up = meth_call(unsnap(sl.args[0]))
                    hx = meth_call(unsnap(up[0])) if up and up[1] == "upper" and not up[2] else None
                    src = unsnap(hx[0]) if hx and hx[1] == "hex" and not hx[2] else None
                    pos = unsnap(lr.target)
                    if src is not None and src.op == "param" and src.args[0] == "rawdata":
                        lp, llo, lhi = _lin(pos), _lin(unsnap(sl.args[1])), _lin(unsnap(sl.args[2]))
                        if lp is not None and llo is not None and lhi is not None:
                            nz = lambda d_: {k_: v_ for k_, v_ in d_.items() if v_ != 0}
                            want_lo = {k_: 2 * v_ for k_, v_ in lp.items()}
                            want_hi = dict(want_lo)
                            want_hi[1] = want_hi.get(1, 0) + 2 * K
                            if nz(llo) == nz(want_lo) and nz(lhi) == nz(want_hi):
                                line_ok = True
            if not line_ok:
                ok, why = False, "a data line is not upper-case hex of rawdata[pos:pos+%d] followed by a newline (%s)" % (K, show(arg, 6))
            else:
                it = unsnap(lr.iter) if lr.iter is not None else None
                rng_ok = False
                if lr.kind == "while":
                    c = _len_plus_const(while_stop, "rawdata")
                    rng_ok = c is not None and 0 <= c < K
                    it = while_stop
                elif it is not None and it.op == "range" and len(it.args[0]) == 3:
                    a0, a1, a2 = [unsnap(x) for x in it.args[0]]
                    if is_const(a0) and cval(a0) == 0 and is_const(a2) and cval(a2) == K:
                        # stop = len(rawdata) + c with 0 <= c < K
                        c = _len_plus_const(a1, "rawdata")
                        rng_ok = c is not None and 0 <= c < K
                if not rng_ok:
                    ok, why = False, "line loop is not range(0, len(rawdata)+c, %d) with 0 <= c < %d (iterates %s)" % (K, K, show(it, 5) if it is not None else None)

        return ok, why

    # the three writes may sit in a helper that is called once on each of two exclusive arms (path opened here / caller's stream): every arm is checked
    groups = {}
    for e in writes:
        groups.setdefault(tuple(f[1] for f in e.ctx if f[0] == "call"), []).append(e)
    glist = list(groups.values())
    exclusive = True
    for i in range(len(glist)):
        for j in range(i + 1, len(glist)):
            fa = {(unsnap(f[1]).uid, bool(f[2])) for f in glist[i][0].ctx if f[0] == "if"}
            fb = {(unsnap(f[1]).uid, bool(f[2])) for f in glist[j][0].ctx if f[0] == "if"}
            if not any((u, not p_) in fb for (u, p_) in fa):
                exclusive = False
    if len(glist) > 1 and exclusive and all(len(g) == 3 for g in glist):
        ok, why = True, ""
        for g in glist:
            ok_g, why_g = envelope_group(g)
            if not ok_g:
                ok, why = False, why_g
    else:
        ok, why = envelope_group(writes)
    chk.require(ok, P("text-envelope"), fi.qualname, "comments 'k: v' lines, blank line, upper-case hex in 40-byte (80 column) lines covering all of rawdata", where,
                "comment block, one empty line, then every byte of the binary as upper-case hex, 40 bytes per line", why)


def _len_plus_const(t: Term, pname: str) -> Optional[int]:
    """t == len(<param pname>) + c  (c folded from constants) -> c"""
    t = unsnap(t)
    if t.op == "len" and unsnap(t.args[0]).op == "param" and unsnap(t.args[0]).args[0] == pname:
        return 0
    if t.op == "bin" and t.args[0] in ("Add", "Sub"):
        a, b = unsnap(t.args[1]), unsnap(t.args[2])
        ca = _len_plus_const(a, pname)
        if ca is not None and is_const(b) and isinstance(cval(b), int):
            return ca + (cval(b) if t.args[0] == "Add" else -cval(b))
        cb = _len_plus_const(b, pname)
        if cb is not None and is_const(a) and isinstance(cval(a), int) and t.args[0] == "Add":
            return cb + cval(a)
    return None


# ===================================================================================== envelope (text) reader, tag-value typing
def _regex_class_chars(pattern: str):
    """set of characters removed by re.sub(pattern, '') when pattern is a single character class / alternation of classes"""
    import re

    try:
        import re._parser as sre_parse  # py311+
    except ImportError:  # pragma: no cover
        import sre_parse
    tree = sre_parse.parse(pattern)
    chars = set()

    def add_in(items):
        for op, av in items:
            name = str(op)
            if name == "LITERAL":
                chars.add(chr(av))
            elif name == "RANGE":
                for c in range(av[0], av[1] + 1):
                    chars.add(chr(c))
            elif name == "CATEGORY":
                cat = str(av)
                for c in range(0, 128):
                    ch = chr(c)
                    if cat.endswith("CATEGORY_SPACE") and ch.isspace():
                        chars.add(ch)
                    elif cat.endswith("CATEGORY_DIGIT") and ch.isdigit():
                        chars.add(ch)
                    elif cat.endswith("CATEGORY_WORD") and (ch.isalnum() or ch == "_"):
                        chars.add(ch)
                    elif cat.endswith("NOT_SPACE") and not ch.isspace():
                        chars.add(ch)
                    elif cat.endswith("NOT_DIGIT") and not ch.isdigit():
                        chars.add(ch)
                    elif cat.endswith("NOT_WORD") and not (ch.isalnum() or ch == "_"):
                        chars.add(ch)
            elif name == "NEGATE":
                raise ValueError("negated class")
            else:
                raise ValueError("unsupported class item %s" % name)

    for op, av in tree:
        name = str(op)
        if name == "IN":
            add_in(av)
        elif name == "LITERAL":
            chars.add(chr(av))
        else:
            raise ValueError("pattern is not a plain character class (%s)" % name)
    return chars


def envelope_reader_rules(m: Bf3Model, chk, pid):
    prog = m.prog
    P = lambda s: "%s.%s" % (pid, s)
    # ---- hex2bin: removes every non-hex character the writer emits, removes no hex digit
    fi = prog.func(BF3 + ".hex2bin")
    ex = Exec(prog, policy=lambda e, f, d: False)
    res = ex.run(fi)
    where = "%s:%d" % (fi.file, fi.lineno)
    subs = [e for e in res.events if e.kind == "extcall" and e.d["name"] in ("re.sub",)]
    ok, why = len(subs) == 1, "hex2bin does not clean its input with exactly one re.sub"
    if ok:
        a = subs[0].d["args"]
        if not (len(a) >= 3 and is_const(a[0]) and is_const(a[1]) and cval(a[1]) == "" and unsnap(a[2]).op == "param"):
            ok, why = False, "re.sub is not applied as sub(<constant class>, '', <text>)"
        else:
            try:
                removed = _regex_class_chars(cval(a[0]))
                need = set("\n\r")
                hexd = set("0123456789abcdefABCDEF")
                if not need <= removed:
                    ok, why = False, "separator characters %r written between hex lines are not removed before unhexlify" % sorted(need - removed)
                elif removed & hexd:
                    ok, why = False, "hex digits %r are removed from the data" % sorted(removed & hexd)
            except ValueError as e:
                ok, why = False, "cleaning pattern not analysable: %s" % e
    if ok:
        # the cleaned string (possibly fixed up for odd length) is what unhexlify receives
        uh = [e for e in res.events if e.kind == "extcall" and e.d["name"].endswith("unhexlify")]
        ok = len(uh) == 1 and unsnap(res.ret) is unsnap(uh[0].d["result"])
        why = "hex2bin does not return unhexlify(cleaned text)"
    chk.require(ok, P("hex-cleaning"), fi.qualname, "sub(r'[\\s,-/:]', '', text) -> unhexlify", where,
                "the character class stripped before unhexlify contains the line separators the writer emits (\\n, and \\r for path I/O) and no hex digit", why)
    # ---- parse_bf3_file
    fi = prog.func(BF3 + ".Bf3File.parse_bf3_file")
    ex = Exec(prog, policy=lambda e, f, d: False)
    res = ex.run(fi)
    where = "%s:%d" % (fi.file, fi.lineno)
    T = SPEC["text"]
    ok, why = True, ""
    # two spellings of "one readline() per iteration until the separator line":
    #   line = f.readline(); while line != SEP: ...; line = f.readline()        and        for line in iter(f.readline, SEP): ...
    loops = [lr for lr in ex.loops.values() if lr.kind in ("while", "for") and not getattr(lr, "comp_kind", None)]
    lr = loops[0] if len(loops) == 1 else None
    lv = None
    walrus_line = None
    if lr is None:
        ok, why = False, "comment block is not parsed by a single loop"
    elif lr.kind == "for":
        it = unsnap(lr.iter)
        a = it.args[1] if it.op == "call" and isinstance(it.args[0], Term) and it.args[0].op == "builtin" and it.args[0].args[0] == "iter" else ()
        if not (len(a) == 2 and unsnap(a[0]).op == "attr" and unsnap(a[0]).args[1] == "readline" and is_const(a[1]) and cval(a[1]) == T["separator"]):
            ok, why = False, "comment loop is not `for line in iter(<file>.readline, %r)` (iterates %s)" % (T["separator"], show(lr.iter, 4))
        else:
            lv = unsnap(lr.target)
    if ok and lr.kind == "while":
        r = rel(lr.cond, True) if lr.cond is not None else None
        if r and r[0] == "rel" and r[1] == "NotEq":
            for x, y in ((r[2], r[3]), (r[3], r[2])):
                if x.op == "loopvar" and is_const(y) and cval(y) == T["separator"]:
                    lv = x
                elif walrus_line is None and is_const(y) and cval(y) == T["separator"]:
                    # `while (line := f.readline()) != SEP:` -- the line is read in the loop head, once per iteration
                    mc = meth_call(unsnap(x))
                    hd = [e for e in res.events if e.kind == "mcall" and e.d["name"] == "readline" and unsnap(e.d["result"]) is unsnap(x)
                          and e.ctx and e.ctx[-1][0] == "loop" and e.ctx[-1][1] == lr.id]
                    if mc and mc[1] == "readline" and len(hd) == 1:
                        walrus_line = unsnap(x)
        if walrus_line is not None and lv is None:
            lv = walrus_line
            others = [e for e in res.events if e.kind == "mcall" and e.d["name"] in ("readline", "read", "readlines") and any(f[0] == "loop" and f[1] == lr.id for f in e.ctx)]
            if len(others) != 1:
                ok, why = False, "comment loop reads more than one line per iteration"
        elif lv is None:
            ok, why = False, "comment loop does not stop exactly at the empty separator line (condition %s)" % (show(lr.cond, 4) if lr.cond is not None else None)
        else:
            nm = lv.args[1]
            i, n = unsnap(lr.init.get(nm, C(None))), unsnap(lr.next.get(nm, C(None)))
            im, nmx = meth_call(i), meth_call(n)
            if not (im and nmx and im[1] == "readline" and nmx[1] == "readline" and unsnap(im[0]) is unsnap(nmx[0])):
                ok, why = False, "comment loop does not advance line by line with readline()"
    if ok:
        sets = [e for e in res.events if e.kind == "setitem" and any(f[0] == "loop" and f[1] == lr.id for f in e.ctx)]
        if len(sets) != 1:
            ok, why = False, "comment loop does not store exactly one (key, value) per line"
        else:
            k, v = unsnap(sets[0].d["index"]), unsnap(sets[0].d["value"])
            # k = line.split(":", 1)[0] ; v = line.split(":", 1)[1].strip()
            def split_part(t, idx):
                t = unsnap(t)
                if t.op == "sub" and is_const(t.args[1]) and cval(t.args[1]) == idx:
                    mc = meth_call(unsnap(t.args[0]))
                    if mc and mc[1] == "split" and unsnap(mc[0]) is lv and len(mc[2]) == 2 and is_const(mc[2][0]) and cval(mc[2][0]) == ":" and is_const(mc[2][1]) and cval(mc[2][1]) == 1:
                        return True
                return False
            vm = meth_call(v)
            if not split_part(k, 0):
                ok, why = False, "comment key is not the text before the first ':' (%s)" % show(k, 4)
            elif not (vm and vm[1] == "strip" and not vm[2] and split_part(vm[0], 1)):
                ok, why = False, "comment value is not the stripped text after the first ':' (%s)" % show(v, 4)
    if ok:
        rd = [e for e in res.events if e.kind == "mcall" and e.d["name"] == "read" and not e.d["args"]]
        hb = [e for e in res.events if e.kind == "call" and e.d["callee"].name == "hex2bin"]
        ok = len(rd) == 1 and len(hb) == 1 and unsnap(hb[0].d["args"][0]) is unsnap(rd[0].d["result"])
        why = "the remaining text is not decoded as a whole by hex2bin"
    if ok:
        opens = [e for e in res.events if e.kind == "extcall" and e.d["name"] == "open"]
        for o in opens:
            kw = o.d["kwargs"]
            a = o.d["args"]
            mode = a[1] if len(a) > 1 else kw.get("mode", C("r"))
            nl = kw.get("newline", NONE)
            if not (is_const(mode) and cval(mode) in ("r", "rt")) or not (nl is NONE or (is_const(nl) and cval(nl) is None)):
                ok, why = False, "file is not opened in universal-newline text mode for reading (mode %s, newline %s)" % (show(mode, 2), show(nl, 2))
    chk.require(ok, P("text-parse"), fi.qualname, "lines 'key: value' until '\\n'; rest -> hex2bin", where,
                "comment lines are split at the first ':' with the value stripped, the block ends at the empty line, the remainder is hex-decoded; path I/O uses universal newlines", why)
    # writer side open(): newline translation must be undone by the reader's universal-newline mode
    fiw = prog.func(BF3 + ".Bf3File.write_bf3_format")
    exw = Exec(prog, policy=lambda e, f, d: False)
    resw = exw.run(fiw)
    opens = [e for e in resw.events if e.kind == "extcall" and e.d["name"] == "open"]
    okw = True
    whyw = ""
    for o in opens:
        kw = o.d["kwargs"]
        a = o.d["args"]
        mode = a[1] if len(a) > 1 else kw.get("mode", C("r"))
        nl = kw.get("newline", NONE)
        if not (is_const(mode) and cval(mode) in ("w", "wt")):
            okw, whyw = False, "output file is opened with mode %s" % show(mode, 2)
        if not (nl is NONE or (is_const(nl) and cval(nl) in (None, "\r\n", "\n", ""))):
            okw, whyw = False, "output newline translation %s is not undone by universal-newline reading" % show(nl, 2)
    chk.require(okw and len(opens) == 1, P("text-newlines"), fiw.qualname, "open(path, 'w', newline='\\r\\n') <-> open(path, 'r')", "%s:%d" % (fiw.file, fiw.lineno),
                "the writer's newline translation (CRLF) is one that universal-newline reading maps back to '\\n'", whyw or "expected exactly one open() in the text writer")
    # both sides decode / encode the text with the same codec (comments are free text): encoding= and errors= must agree
    def codec(o):
        kw, a = o.d["kwargs"], o.d["args"]
        enc = a[3] if len(a) > 3 else kw.get("encoding", NONE)
        err = a[4] if len(a) > 4 else kw.get("errors", NONE)
        return tuple(("default" if (t is NONE or (is_const(t) and cval(t) is None)) else (_codec_name(cval(t)) if is_const(t) and isinstance(cval(t), str) else show(t, 3))) for t in (enc, err))
    ropens = [e for e in res.events if e.kind == "extcall" and e.d["name"] == "open"]
    codecs_r, codecs_w = sorted({codec(o) for o in ropens}), sorted({codec(o) for o in opens})
    chk.require(len(ropens) == 1 and len(opens) == 1 and codecs_r == codecs_w, P("text-codec-agreement"), fiw.qualname + " <-> " + fi.qualname, "encoding= / errors= of the two open() calls", "%s:%d" % (fiw.file, fiw.lineno),
                "writer and reader open a path with the same text codec, so every comment character written is the one read back",
                "writer opens with (encoding, errors) = %s, reader with %s: non-ASCII comment text does not survive a path round trip" % (codecs_w, codecs_r))


def _codec_name(name: str) -> str:
    import codecs
    try:
        return codecs.lookup(name).name
    except LookupError:
        return name.lower()


def tag_compare_rules(m: Bf3Model, chk, pid):
    """TYPE: comparisons of description tag values must compare bytes with bytes; the ENC comparand must be the
    encoding set_config writes (1-byte big-endian BF3ENC.SESSIONKEY)."""
    from bfsa.types import type_of

    prog = m.prog
    ex, ev, rb = m.exr, m.res_read.events, m.rb
    P = lambda s: "%s.%s" % (pid, s)
    if rb is None:
        return
    tid = rb.field("tag_id")
    stores = [e for e in ev if e.kind == "setitem" and _is_int_of(tid, e.d["index"])]
    if not stores:
        return
    ddict = unsnap(stores[0].d["base"])
    try:
        enc_tag = prog.fold_class_attr(prog.cls(BF3 + ".BF3TAG"), "ENC")
        enc_val = prog.fold_class_attr(prog.cls(BF3 + ".BF3ENC"), "SESSIONKEY")
    except NotConst:
        raise AnalysisError("BF3TAG.ENC / BF3ENC.SESSIONKEY not constant")
    want = enc_val.to_bytes(1, "big")
    found = 0
    for e in ev:
        if e.kind != "op" or e.d["op"] not in ("Eq", "NotEq", "In", "NotIn"):
            continue
        a, b = [unsnap(x) for x in e.d["args"]]
        for look, other in ((a, b), (b, a)):
            key = _desc_lookup(look, ddict)
            if key is None:
                continue
            found += 1
            to = type_of(ex, other)
            is_enc = is_const(key) and cval(key) == enc_tag
            construct = "description[%s] %s %s" % (show(key, 2), e.d["op"], show(other, 3))
            if "?" in to:
                chk.ok(P("tag-compare-types"), e.fn.qualname, construct, e.where, "comparand type not statically known; no verdict", nontrivial=False)
            elif not (to & {"bytes", "bytearray"}) and e.d["op"] in ("Eq", "NotEq"):
                chk.fail(P("tag-compare-types"), e.fn.qualname, construct, e.where,
                         "description tag values are bytes (read from the directory); comparing with %s is always unequal, so the branch is dead: session-key encrypted components are handed back as ciphertext" % "/".join(sorted(to)))
            elif is_enc and e.d["op"] in ("Eq", "NotEq") and not (is_const(other) and cval(other) == want):
                chk.fail(P("tag-compare-types"), e.fn.qualname, construct, e.where, "ENC tag is compared with %s; the writer encodes session-key encryption as %r" % (show(other, 3), want))
            else:
                chk.ok(P("tag-compare-types"), e.fn.qualname, construct, e.where, "bytes compared with bytes" + (", equal to the writer's encoding of SESSIONKEY" if is_enc else ""))
    if not found:
        chk.fail(P("tag-compare-types"), BF3 + ".Bf3File.from_binary", "no comparison on the ENC tag", "", "the reader never inspects the ENC tag: encrypted components cannot be decrypted on read")
    # decrypt-on-read path: from_encrypted_raw_data(description, payload, declared, session_key)
    news = split_conditional_news([e for e in ev if e.kind == "new" and e.d["cls"].name == "Bf3Component"])
    dec = []
    for nw in news:
        args = list(nw.d["args"])
        blob = unsnap(args[1]) if len(args) > 1 else None
        mc = meth_call(blob) if blob is not None else None
        if mc and mc[1] == "decrypt":
            dec.append((nw, mc))
    ok = len(dec) == 1
    why = "no component is built from cipher.decrypt(payload)"
    if ok:
        nw, mc = dec[0]
        ciph = unsnap(mc[0])
        ok = is_call_named(ciph, "create_AES128") and len(ciph.args[1]) == 1 and unsnap(ciph.args[1][0]).op == "param" and unsnap(ciph.args[1][0]).args[0] == "session_key"
        why = "decryption cipher is %s, documented AES-128-CBC under the session key with zero IV" % show(ciph, 4)
        enc_flag = nw.d["kwargs"].get("encrypt_by_session_key")
        if ok and not (enc_flag is not None and is_const(enc_flag) and cval(enc_flag) is True):
            ok, why = False, "component decrypted on read is not marked encrypt_by_session_key (would be written back in clear)"
        if ok:
            # the decrypting arm is taken exactly for the value the writer stores: description[ENC] == b"\x02" as BYTES (a numeric comparison of the decoded
            # value would also accept 00 02, 00 00 02, ...: content that is not marked as encrypted would be "decrypted")
            known = [(f[1], bool(f[2])) for f in nw.ctx if f[0] == "if"] + [(c, bool(p_)) for c, p_ in (getattr(nw, "facts", ()) or ())]
            sel = False
            for c_, p_ in known:
                r_ = rel(c_, p_)
                for a_ in ([r_] if r_[0] == "rel" else r_[1] if r_[0] == "and" else []):
                    if a_[0] == "rel" and a_[1] == "Eq" and a_[3] is not None:
                        for x, y in ((a_[2], a_[3]), (a_[3], a_[2])):
                            k_ = _desc_lookup(x, ddict)
                            if k_ is not None and is_const(k_) and cval(k_) == enc_tag and is_const(unsnap(y)) and cval(unsnap(y)) == want:
                                sel = True
            if not sel:
                ok, why = False, "the decrypting arm is not selected by description[ENC] == %r compared as bytes" % (want,)
        if ok:
            # ... and every other way a component is built by the reader is known NOT to be that case (an arm that hands back the stored bytes of a component
            # marked ENC = SESSIONKEY -- e.g. when MAC checking is switched off -- returns ciphertext as if it were content)
            for other in news:
                if other is dec[0][0]:
                    continue
                known = [(f[1], bool(f[2])) for f in other.ctx if f[0] == "if"] + [(c, bool(p_)) for c, p_ in (getattr(other, "facts", ()) or ())]
                def rules_out(a_):
                    """the relation a_ implies that the entry's ENC tag is not the SESSIONKEY value: it differs from it, or the tag is absent"""
                    if a_[0] == "and":
                        return any(rules_out(b_) for b_ in a_[1])
                    if a_[0] == "or":
                        return bool(a_[1]) and all(rules_out(b_) for b_ in a_[1])
                    if a_[0] != "rel" or a_[3] is None:
                        return False
                    if a_[1] == "NotEq":
                        for x, y in ((a_[2], a_[3]), (a_[3], a_[2])):
                            k_ = _desc_lookup(x, ddict)
                            if k_ is not None and is_const(k_) and cval(k_) == enc_tag and is_const(unsnap(y)) and cval(unsnap(y)) == want:
                                return True
                    if a_[1] == "NotIn" and is_const(unsnap(a_[2])) and cval(unsnap(a_[2])) == enc_tag and strip_elem(a_[3]) is ddict:
                        return True
                    return False

                excluded = any(rules_out(rel(c_, p_)) for c_, p_ in known)
                if not excluded:
                    ok, why = False, "a component is also built from the stored bytes on a path where the ENC tag may say SESSIONKEY (%s): encrypted content would be returned undecrypted" % other.where
    chk.require(ok, P("decrypt-on-read"), BF3 + ".Bf3Component.from_encrypted_raw_data", "create_AES128(session_key).decrypt(payload), flag kept", dec[0][0].where if dec else "",
                "the ENC=SESSIONKEY arm decrypts the stored bytes with the session key (IV default) and keeps the encryption flag", why)


def _desc_lookup(t: Term, ddict: Term):
    """key term if t is description.get(key) / description[key] on (an element view of) the parsed tag dictionary"""
    t = unsnap(t)
    if t.op == "phi":
        # `d[k] if k in d else None` is d.get(k) spelled out
        arms = [unsnap(x) for x in t.args[1:]]
        rest = [x for x in arms if not (x is NONE or (is_const(x) and cval(x) is None))]
        if len(rest) == 1:
            return _desc_lookup(rest[0], ddict)
    mc = meth_call(t)
    if mc and mc[1] == "get" and strip_elem(mc[0]) is ddict and mc[2]:
        return unsnap(mc[2][0])
    if t.op == "sub" and strip_elem(t.args[0]) is ddict:
        return unsnap(t.args[1])
    return None


def slot_source_rules(m: Bf3Model, chk, pid):
    """writer takes tag list from component.description.items(), payload from get_raw_data (== blob when not encrypted)"""
    wb, ex = m.wb, m.exfull
    P = lambda s: "%s.%s" % (pid, s)
    fn_dir = BF3 + ".Bf3File.dir_to_binary"
    where = "%s:%d" % (m.fi_dir.file, m.fi_dir.lineno)
    tid, tv = wb.field("tag_id"), wb.field("tag_value")
    k, v = unsnap(tid[2]), unsnap(tv[1])

    def comes_from_items(t, idx):
        t = unsnap(t)
        if t.op == "sub" and is_const(t.args[1]) and cval(t.args[1]) == idx:
            t = unsnap(t.args[0])
        elif t.op in ("key", "value"):
            return (t.op == "key") == (idx == 0) and _is_desc(t.args[0])
        else:
            return False
        inner = strip_elem(t)
        mc = meth_call(inner)
        return bool(mc) and mc[1] == "items" and _is_desc(mc[0])

    def _is_desc(t):
        t = unsnap(t)
        return t.op == "attr" and t.args[1] == "description" and unsnap(t.args[0]).op == "elem"

    chk.require(comes_from_items(k, 0) and comes_from_items(v, 1), P("tags-from-description"), fn_dir, "for tag_id, tag_value in component.description.items()", where,
                "tag ids and values of the entry are the (key, value) pairs of the component's description", "tag id/value originate from %s / %s" % (show(k, 4), show(v, 4)))
    # get_raw_data: plain arm returns self.blob
    fi = m.prog.method(BF3 + ".Bf3Component", "get_raw_data")
    exg = Exec(m.prog, policy=lambda e, f, d: False)
    res = exg.run(fi)
    rets = [e for e in res.events if e.kind == "return" and e.stack == (fi.qualname,)]
    plain = [r for r in rets if _flag_known(r) is False]
    okp = len(plain) >= 1 and all(_self_attr(r.d["value"], "blob") for r in plain)
    chk.require(okp, P("plain-payload-is-blob"), fi.qualname, "not encrypt_by_session_key -> return self.blob", "%s:%d" % (fi.file, fi.lineno),
                "for components not marked for encryption the stored bytes are the blob itself", "plain arm does not return self.blob unchanged")


def _flag_known(ev):
    """what is known about 'encrypt_by_session_key is truthy' where event `ev` happens: True / False / None -- from the enclosing if-frames and
    from the path facts (code after `if flag: return ...` runs under `not flag` without being inside an if)"""
    for f in ev.ctx:
        if f[0] == "if":
            v = _flag_frame(f)
            if v is not None:
                return v
    for c, pol in (getattr(ev, "facts", ()) or ()):
        v = _flag_frame(("if", c, pol))
        if v is not None:
            return v
    return None


def _flag_frame(f):
    """polarity of 'encrypt_by_session_key is truthy' implied by an if-frame, None if the frame tests something else"""
    c, pol = f[1], f[2]
    r = rel(c, pol)
    if r[0] == "rel" and r[1] in ("Truthy", "Falsy") and _self_attr(r[2], "encrypt_by_session_key"):
        return r[1] == "Truthy"
    return None
