"""BF3 container, whole file: Bf3File.to_binary -> Bf3File.from_binary through the real stack for enumerated file shapes.

Shapes (number of components, content lengths, tag sets, encryption flags, start offset) are enumerated; contents, tag values
and the session key are symbolic.  Two results per shape:
  layout     the written bytes are IDENTICAL to the bytes an independent writer of the documented layout produces in the same
             term algebra (directory size, entries, both MACs as CBC-MAC terms, sentinel, payloads at absolute addresses)
  roundtrip  reading those bytes back (MAC checking on) yields the same components: description, content (zero padded for
             encrypted ones), declared length and encryption flag
"""
from __future__ import annotations

import itertools
from typing import List, Optional, Sequence, Tuple

from bfsa.exprs import sbytes
from bfsa.guard import unsnap
from bfsa.load import AnalysisError, NotConst
from bfsa.terms import C, NONE, Term, cval, is_const, mk, show

from rules import c16stream as S
from rules import stackrt as R

BF3Q = "bec2format.bf3file"


def be(n: int, k: int) -> List[Term]:
    return [C(b) for b in n.to_bytes(k, "big")]


def pad0(items: Sequence[Term]) -> List[Term]:
    return list(items) + [C(0)] * (-len(items) % 16)


def cbc(sk: Term, data: Sequence[Term], iv: Optional[Sequence[Term]] = None) -> List[Term]:
    ref = S.Ref(sk, iv)
    return ref.blocks("cbc", "encrypt", list(data))


def mac(sk: Term, data: Sequence[Term], iv: Optional[Sequence[Term]] = None) -> List[Term]:
    return cbc(sk, pad0(data), iv)[-16:] if data or True else []


class Comp:
    def __init__(self, tags: List[Tuple[int, List[Term]]], blob: List[Term], enc: bool, declared: Optional[int] = None):
        self.tags, self.blob, self.enc = tags, blob, enc
        self.declared = len(blob) if declared is None else declared


def ref_binary(comps: List[Comp], offset: int, sk: Term, defect: Optional[str] = None) -> List[Term]:
    """the documented layout, written independently of the repo's writer.  `defect` builds an image that is consistent (all MACs
    recomputed) except for ONE named rule of the format -- used to test that the reader enforces that rule"""
    stored = [cbc(sk, pad0(c.blob)) if c.enc else list(c.blob) for c in comps]
    tlvs = []
    for ci, c in enumerate(comps):
        t: List[Term] = []
        tags = list(c.tags)
        if defect == "duplicate-tag" and ci == 0 and tags:
            tags = tags + [tags[0]]
        for tag, val in tags:
            t += [C(tag), C(len(val))] + list(val)
        tlvs.append(t)
    entry_len = [4 + 4 + 4 + 16 + 1 + len(t) + 16 for t in tlvs]
    sentinel = [] if defect == "no-sentinel" else [C(0)]
    dir_size = 4 + sum(1 + e for e in entry_len) + len(sentinel)
    adr = offset + dir_size
    if defect == "address-off-by-one":
        adr += 1
    size_field = dir_size - 4 + (1 if defect == "dir-size-too-large" else 0)
    out: List[Term] = be(size_field, 4)
    for i, c in enumerate(comps):
        declared = c.declared + (len(stored[i]) - c.declared + 1 if defect == "declared-exceeds-stored" and i == 0 else 0)
        e: List[Term] = be(adr, 4) + be(len(stored[i]), 4) + be(declared, 4) + mac(sk, stored[i]) + [C(len(tlvs[i]))] + tlvs[i]
        e += mac(sk, e, be(i + 1 + (1 if defect == "entry-index-shifted" else 0), 16))
        out += [C(len(e))] + e
        adr += len(stored[i])
        if defect == "gap-between-payloads" and i == 0:
            adr += 1
    out += sentinel
    for i, s_ in enumerate(stored):
        out += s_
        if defect == "gap-between-payloads" and i == 0 and len(stored) > 1:
            out += [C(0)]
    if defect == "address-off-by-one":
        out = out[:dir_size] + [C(0)] + out[dir_size:]
    return out


def shapes(tier, enc_tag: int, enc_val: int):
    lens = [1, 16, 17] if tier != "thorough" else [1, 15, 16, 17, 33, 48]
    tagsets = [
        [],
        [(0xC1, 1)],
        [(0xC3, 1), (0xC1, 1), (0xC9, 4)],  # insertion order, not sorted
        [(0xC4, 0), (0xC8, 3)],  # an empty tag value
    ]
    out = []
    # single components: every length x tag set x encrypted or not
    for L in lens:
        for ts in tagsets:
            for enc in (False, True):
                out.append(([(L, ts, enc)], 5))
    out.append(([], 0))
    out.append(([], 5))
    # several components: mixed encryption, non-aligned stored lengths before later components
    multi = [
        [(17, tagsets[1], True), (1, tagsets[0], False)],
        [(1, tagsets[2], False), (16, tagsets[1], True), (33, tagsets[3], False)],
        [(15, tagsets[1], True), (17, tagsets[1], True), (16, tagsets[2], True)],
        [(40, tagsets[3], False), (40, tagsets[3], False)],
    ]
    for m in multi:
        for off in (0, 5, 23):
            out.append((m, off))
    if tier == "thorough":
        for a, b, c in itertools.product(lens[:4], repeat=3):
            out.append(([(a, tagsets[1], True), (b, tagsets[2], False), (c, tagsets[3], True)], 7))
    return out


def _rekey(prog, chk, P, stk, sk, enc_tag, enc_val, fw):
    """a file read under one session key and written under another: directory MACs, payload MACs and ciphertext all use the NEW key"""
    sk2 = mk("param", "sk2")
    ta, b0, b1 = R.syms("ka", 2), R.syms("kx", 9), R.syms("ky", 21)
    src = ("def drv(sk, sk2, off, ta, b0, b1):\n    f = Bf3File({}, [Bf3Component({0xC1: ta}, b0), Bf3Component({0xC1: ta, %d: %r}, b1, None, True)])\n"
           "    raw = f.to_binary(off, sk)\n    rdr = BytesReader(bytes(off) + raw)\n    rdr.read(off)\n    g = Bf3File.from_binary(rdr, None, True, sk)\n"
           "    return (g.to_binary(off, sk2), g.to_binary(off, sk), f.to_binary(off, sk2))\n") % (enc_tag, bytes([enc_val]))
    ex, res = stk.run(BF3Q, src, {"sk": sk, "sk2": sk2, "off": C(5), "ta": sbytes(ta), "b0": sbytes(b0), "b1": sbytes(b1)})
    bad = None
    if res.dead or res.ret is None or unsnap(res.ret).op != "tuple":
        bad = "write / read / write under another key raises"
    else:
        encd = (enc_tag, [C(enc_val)])
        read_state = [Comp([(0xC1, ta)], b0, False), Comp([(0xC1, ta), encd], pad0(b1), True, declared=len(b1))]
        orig_state = [Comp([(0xC1, ta)], b0, False), Comp([(0xC1, ta), encd], b1, True)]
        r_new, r_old, r_orig = unsnap(res.ret).args[0]
        for label, r_, st_, k_ in (("the file read under key 1 and written under key 2", r_new, read_state, sk2), ("the file read and written under key 1", r_old, read_state, sk),
                                   ("the original object written under key 2 after it was written under key 1", r_orig, orig_state, sk2)):
            why = S._cmp(R.flat(ex, res, r_), ref_binary(st_, 5, k_), "the documented layout under the key passed to the writer")
            if why:
                bad = "%s: %s" % (label, why)
                break
    chk.require(bad is None, P("stack-bf3-rekey"), fw.qualname, "write(k1), read(k1), write(k2) / write(k1) / original object write(k2)", "%s:%d" % (fw.file, fw.lineno),
                "the key handed to the writer is the one that encrypts the components and makes every MAC, also for objects that were read from a file under another key", bad or "")


def bf3_file_rules(prog, chk, pid, tier, want=("layout", "roundtrip")):
    P = lambda s: "%s.%s" % (pid, s)
    try:
        enc_tag = prog.fold_class_attr(prog.cls(BF3Q + ".BF3TAG"), "ENC")
        enc_val = prog.fold_class_attr(prog.cls(BF3Q + ".BF3ENC"), "SESSIONKEY")
    except NotConst:
        raise AnalysisError("BF3TAG.ENC / BF3ENC.SESSIONKEY are not constants")
    stk = R.Stack(prog)
    sk = mk("param", "sk")
    fw = prog.method(BF3Q + ".Bf3File", "to_binary")
    fr = prog.method(BF3Q + ".Bf3File", "from_binary")
    bad_layout = bad_rt = None
    n = 0
    if "rekey" in want:
        _rekey(prog, chk, P, stk, sk, enc_tag, enc_val, fw)
    for comps_spec, offset in (shapes(tier, enc_tag, enc_val) if "layout" in want or "roundtrip" in want else ()):
        n += 1
        args = {"sk": sk, "off": C(offset)}
        comps: List[Comp] = []
        ctor = []
        for i, (L, ts, enc) in enumerate(comps_spec):
            blob = R.syms("c%db" % i, L)
            args["b%d" % i] = sbytes(blob)
            tags = []
            dsrc = []
            for j, (tag, tl) in enumerate(ts):
                val = R.syms("c%dt%d_" % (i, j), tl)
                args["t%d_%d" % (i, j)] = sbytes(val)
                tags.append((tag, val))
                dsrc.append("%d: t%d_%d" % (tag, i, j))
            if enc:
                tags.append((enc_tag, [C(enc_val)]))
                dsrc.append("%d: %r" % (enc_tag, bytes([enc_val])))
            comps.append(Comp(tags, blob, enc))
            ctor.append("Bf3Component({%s}, b%d, None, %s)" % (", ".join(dsrc), i, enc))
        params = ", ".join(sorted(args))
        src = ("def drv(%s):\n    f = Bf3File({}, [%s])\n    raw = f.to_binary(off, sk)\n    rdr = BytesReader(bytes(off) + raw)\n    rdr.read(off)\n"
               "    g = Bf3File.from_binary(rdr, None, True, sk)\n    return (raw, [(c.description, c.blob, c.actual_len, c.encrypt_by_session_key) for c in g.components])\n") % (params, ", ".join(ctor))
        ex, res = stk.run(BF3Q, src, args)
        label = "%d component(s) %s at offset %d" % (len(comps_spec), [(L, [t for t, _ in ts], "enc" if e else "plain") for L, ts, e in comps_spec], offset)
        if res.dead or res.ret is None or unsnap(res.ret).op != "tuple":
            # reading back failed (or writing did): judge the layout on a write-only scenario
            bad_rt = bad_rt or (label, "reading back the written bytes raises")
            src_w = "def drv(%s):\n    f = Bf3File({}, [%s])\n    return f.to_binary(off, sk)\n" % (params, ", ".join(ctor))
            ex, res = stk.run(BF3Q, src_w, args)
            if res.dead or res.ret is None:
                bad_layout = bad_layout or (label, "writing raises")
            else:
                why = S._cmp(R.flat(ex, res, res.ret), ref_binary(comps, offset, sk), "the documented layout")
                if why and bad_layout is None:
                    bad_layout = (label, why)
            continue
        raw, back = unsnap(res.ret).args[0]
        got = R.flat(ex, res, raw)
        wantb = ref_binary(comps, offset, sk)
        why = S._cmp(got, wantb, "the documented layout")
        if why and bad_layout is None:
            bad_layout = (label, why)
        items = ex.iter_items(back, res.state)
        okb = items is not None and len(items) == len(comps)
        whyb = "read back %s components, wrote %d" % (len(items) if items is not None else "?", len(comps))
        if okb:
            for c, it in zip(comps, items):
                d, blob, alen, flag = ex.unpack_to(it, 4, res.state, None)
                do = ex.obj(res.state, d)
                if do is None or do.kind != "dict" or not do.exact or list(do.kv.keys()) != [t for t, _ in c.tags]:
                    okb, whyb = False, "description keys differ (%s)" % (list(do.kv.keys()) if do is not None and do.kind == "dict" else "?")
                    break
                for (t, v) in c.tags:
                    gv = R.flat(ex, res, do.kv[t])
                    if gv is None or len(gv) != len(v) or any(a is not b for a, b in zip(gv, v)):
                        okb, whyb = False, "value of tag 0x%02X differs" % t
                gb = R.flat(ex, res, blob)
                wb = pad0(c.blob) if c.enc else c.blob
                if gb is None or len(gb) != len(wb) or any(a is not b for a, b in zip(gb, wb)):
                    okb, whyb = False, "content differs (%s bytes read, %d written)" % (len(gb) if gb is not None else "?", len(wb))
                if not (is_const(alen) and cval(alen) == len(c.blob)):
                    okb, whyb = False, "declared length is %s, wrote %d" % (show(alen, 3), len(c.blob))
                if not (is_const(flag) and bool(cval(flag)) == c.enc):
                    okb, whyb = False, "encryption flag is %s" % show(flag, 3)
                if not okb:
                    break
        if not okb and bad_rt is None:
            bad_rt = (label, whyb)
    # ---- history: writing, editing the object, writing again gives the bytes of the CURRENT object (no stale sizes / addresses / ciphertext)
    ta, tb, tc = R.syms("ha", 1), R.syms("hb", 3), R.syms("hc", 2)
    b0, b1, b2 = R.syms("hx", 10), R.syms("hy", 18), R.syms("hz", 5)
    src_h = ("def drv(sk, off, ta, tb, tc, b0, b1, b2):\n    c0 = Bf3Component({0xC1: ta}, b0)\n    c1 = Bf3Component({0xC1: ta, %d: %r}, b1, None, True)\n    f = Bf3File({}, [c0, c1])\n"
             "    r1 = f.to_binary(off, sk)\n    c0.description[0xC3] = tb\n    r2 = f.to_binary(off, sk)\n    c1.blob = b2\n    c1.actual_len = len(b2)\n    f.components[0] = Bf3Component({0xC4: tc}, b0)\n    r3 = f.to_binary(off, sk)\n"
             "    f.components.append(Bf3Component({}, b2))\n    r4 = f.to_binary(off, sk)\n    return (r1, r2, r3, r4)\n") % (enc_tag, bytes([enc_val]))
    ex, res = stk.run(BF3Q, src_h, {"sk": sk, "off": C(5), "ta": sbytes(ta), "tb": sbytes(tb), "tc": sbytes(tc), "b0": sbytes(b0), "b1": sbytes(b1), "b2": sbytes(b2)})
    bad_h = None
    if res.dead or res.ret is None:
        bad_h = "the write / edit / write sequence raises"
    else:
        encd = (enc_tag, [C(enc_val)])
        states = [
            [Comp([(0xC1, ta)], b0, False), Comp([(0xC1, ta), encd], b1, True)],
            [Comp([(0xC1, ta), (0xC3, tb)], b0, False), Comp([(0xC1, ta), encd], b1, True)],
            [Comp([(0xC4, tc)], b0, False), Comp([(0xC1, ta), encd], b2, True)],
            [Comp([(0xC4, tc)], b0, False), Comp([(0xC1, ta), encd], b2, True), Comp([], b2, False)],
        ]
        for k, (r_, st_) in enumerate(zip(unsnap(res.ret).args[0], states)):
            why = S._cmp(R.flat(ex, res, r_), ref_binary(st_, 5, sk), "the documented layout of the current object")
            if why:
                bad_h = "write number %d (after %s): %s" % (k + 1, ["creation", "adding a tag", "replacing a component and a payload", "appending a component"][k], why)
                break
    if "layout" in want or "roundtrip" in want or "rekey" in want:
        chk.require(bad_h is None, P("stack-bf3-rewrite"), fw.qualname, "write, add a tag, write, replace component / payload, write, append, write", "%s:%d" % (fw.file, fw.lineno),
                    "every write produces the documented bytes of the object's current state: nothing computed for an earlier write (directory size, addresses, ciphertext, MACs) is reused after an edit", bad_h or "")
    if "layout" in want:
        chk.require(bad_layout is None, P("stack-bf3-layout"), fw.qualname, "%d file shapes, symbolic contents / tag values / session key" % n, "%s:%d" % (fw.file, fw.lineno),
                    "for every enumerated shape the written bytes equal, term by term, the documented layout (directory size, entries with absolute addresses, stored and declared lengths, payload CBC-MAC, TLVs in insertion order, entry CBC-MAC with IV = entry index, sentinel, payloads back to back; encrypted payloads as CBC of the zero-padded content)",
                    "%s: %s" % bad_layout if bad_layout else "")
    if "roundtrip" in want:
        chk.require(bad_rt is None, P("stack-bf3-roundtrip"), fr.qualname, "from_binary(to_binary(f)) for %d file shapes" % n, "%s:%d" % (fr.file, fr.lineno),
                    "for every enumerated shape reading back the written bytes (MAC checks on) gives the same components: tags and values, content (zero padded when encrypted), declared length, encryption flag",
                    "%s: %s" % bad_rt if bad_rt else "")
    chk.info["stack_file_shapes"] = n
