"""C05 -- the reader accepts a binary exactly when it is well-formed and authentic.

Decided statically: the reader's consumption grammar equals the documented layout; each acceptance condition of
the statement is a guard (identified by data provenance and relational normal form) that dominates acceptance;
reads are exact-length; the returned object's fields flow from the slots read."""
from __future__ import annotations

from rules import bf3
from rules.exactread import rule_exact_reads
from rules import stackrt, stacktamper

LEVEL = "other"


def run(prog, chk, tier):
    m = bf3.model(prog)
    chk.explanation = ("Bf3File.read_file is interpreted symbolically with both halves of the parser inlined; the reads on each BytesReader give a "
                       "consumption grammar that must equal the documented layout table (spec/layout.json); on the bound fields, each acceptance rule of the "
                       "statement must exist as a guard with the right relational normal form, raise on violation, and structurally dominate acceptance.")
    from rules import state as _state

    _state.library_state_rules(prog, chk, "C05")
    if bf3.rule_reader_layout(m, chk, "C05"):
        bf3.reader_rules(m, chk, "C05")
        # "the returned content is what those fields say": a component is decrypted exactly when its ENC tag holds the writer's encoding of SESSIONKEY
        bf3.tag_compare_rules(m, chk, "C05")
    rule_exact_reads(prog, chk, "C05")
    from rules import adapter

    adapter.mac_definition_rules(prog, chk, "C05")
    stackrt.guarded(chk, "C05.tamper-scenarios", stacktamper.tamper_rules, prog, chk, "C05", tier)
    chk.assume("cmac(data, key, iv) is the MAC of the documented layout (decided by C03/C16 clauses)")
