"""C03 -- written bytes have exactly the documented BF3/BEC2 container layout.

Oracle: spec/layout.json, transcribed from the property statement (not from the code).  Both the writer's byte
layout and the reader's consumption grammar must equal it, so symmetric errors are caught."""
from __future__ import annotations

from rules import bf3
from rules import stackfile
from rules import stackrt

LEVEL = "other"


def run(prog, chk, tier):
    from rules import state as _state

    _state.library_state_rules(prog, chk, "C03")
    m = bf3.model(prog)
    chk.explanation = ("The value returned by Bf3File.to_binary (dir_to_binary inlined, both passes) is interpreted in a byte-layout domain "
                       "(constants, fixed-width integers, opaque strings, MAC calls, repetitions) and must equal the independently written layout table; "
                       "so must the reader's consumption grammar. On the bound fields: every length prefix is len() of the region it precedes, addresses are "
                       "absolute and contiguous (size pass and real pass have the same symbolic length), MAC coverage/IV/key are as documented, payloads follow in "
                       "directory order; the text envelope and the BEC2 header framing are checked the same way.")
    if bf3.rule_writer_layout(m, chk, "C03"):
        bf3.writer_rules(m, chk, "C03")
    bf3.rule_reader_layout(m, chk, "C03")
    bf3.envelope_writer_rules(m, chk, "C03")
    from rules import bec2

    bec2.header_writer_rules(prog, chk, "C03")
    from rules import adapter

    adapter.mac_definition_rules(prog, chk, "C03")
    # stored length of an encrypted component = its content zero-padded to the next block boundary (nothing for whole blocks)
    adapter.pad_rule(prog, chk, "C03")
    stackrt.guarded(chk, "C03.stack-bf3", stackfile.bf3_file_rules, prog, chk, "C03", tier, want=("layout",))
    chk.assume("AES-128 block function itself is FIPS-197 (decided by C16's table and round rules)")
