"""Exact-length reads (C04.R3 / C05.R10 / C01.R5): a read that comes up short (or is given a negative size) must not go unnoticed.

The MAC is computed over zero-padded data, so dropping trailing 0x00 bytes of the last payload keeps both MACs valid:
exact reads are a *necessary* condition of "truncated files are rejected" / "length fields match the bytes present"."""
from __future__ import annotations

from bfsa.guard import disjuncts, dominates, raise_rel, rel, unsnap
from bfsa.layout import meth_call
from bfsa.load import FuncInfo
from bfsa.symexec import Exec
from bfsa.terms import Term, is_const, show

RDR = "bec2format.bytes_reader.BytesReader"


def rule_exact_reads(prog, chk, pid):
    cls = prog.cls(RDR)
    rule = "%s.exact-length-reads" % pid
    r = cls.lookup("read")
    where = "%s:%d" % (cls.module.relpath, cls.node.lineno)
    if r is None or not isinstance(r[1], FuncInfo):
        chk.fail(rule, RDR + ".read", "inherited io.BytesIO.read: short reads are not detected", where,
                 "BytesReader does not check the number of bytes read: a file cut inside (or just before) trailing 0x00 bytes of its last payload, or a directory "
                 "without its sentinel, parses as valid (read() returns short data, read_int() of nothing is 0)")
        return False
    fi = r[1]
    ex = Exec(prog, policy=lambda e, f, d: False)
    res = ex.run(fi)
    rets = [e for e in res.events if e.kind == "return" and e.stack == (fi.qualname,)]
    params = fi.params
    size_p = params[1] if len(params) > 1 else None
    ok = bool(rets) and size_p is not None
    why = "read() override has no size parameter or no return"
    if ok:
        for ret in rets:
            val = unsnap(ret.d["value"])
            good = False
            for g in res.events:
                if g.kind != "guard" or g.d.get("term") != "raise" or not dominates(g, ret):
                    continue
                for d in disjuncts(raise_rel(g)):
                    if d[0] != "rel" or d[3] is None:
                        continue
                    op, a, b = d[1], unsnap(d[2]), unsnap(d[3])
                    for x, y in ((a, b), (b, a)):
                        if x.op == "len" and unsnap(x.args[0]) is val and y.op == "param" and y.args[0] == size_p:
                            if op == "NotEq" or (op == "Lt" and x is a):
                                good = True
            # ... or the return itself sits under `if len(result) == size:` (the raise then follows the if)
            known = [(f[1], bool(f[2])) for f in ret.ctx if f[0] == "if"] + [(c, bool(p_)) for c, p_ in (getattr(ret, "facts", ()) or ())]
            for c_, p_ in known:
                r_ = rel(c_, p_)
                for d in ([r_] if r_[0] == "rel" else r_[1] if r_[0] == "and" else []):
                    if d[0] == "rel" and d[1] == "Eq" and d[3] is not None:
                        a, b = unsnap(d[2]), unsnap(d[3])
                        for x, y in ((a, b), (b, a)):
                            if x.op == "len" and unsnap(x.args[0]) is val and y.op == "param" and y.args[0] == size_p:
                                good = True
            if not good:
                ok = False
                why = "a return of read() is neither dominated by a guard `len(result) != size -> raise` nor conditional on `len(result) == size`"
            mc = meth_call(val)
            if not (mc and mc[1] == "read"):
                ok = ok and True
    chk.require(ok, rule, RDR + ".read", "len(data) != size -> raise", "%s:%d" % (fi.file, fi.lineno),
                "every BytesReader.read(n) returns exactly n bytes or raises (short and negative-size reads are rejected)", why)
    # read_int must go through the checked read
    ri = cls.lookup("read_int")
    if ri is not None and isinstance(ri[1], FuncInfo):
        ex2 = Exec(prog, policy=lambda e, f, d: f is fi)
        res2 = ex2.run(ri[1])
        direct = [e for e in res2.events if e.kind == "mcall" and e.d["name"] == "read" and e.stack == (ri[1].qualname,)]
        via = [e for e in res2.events if e.kind == "call" and e.d["callee"] is fi]
        chk.require(bool(via) and not direct, rule, RDR + ".read_int", "read_int -> self.read", "%s:%d" % (ri[1].file, ri[1].lineno),
                    "read_int obtains its bytes through the length-checked read", "read_int bypasses the length-checked read")
    return ok
