"""C13 -- BF2 import preserves firmware bytes and rejects what BF3 cannot represent.

Decided statically: every data line's payload is consumed exactly on every path of the unpack loop (must-use); the three
payload conversions (layout); rejection guards; tag-type tables agree with each other and with the pinned domain table;
instruction -> tag flows; shape guard of the filter formatter.
Not decided: byte preservation for arbitrary images as executed; boolean equivalence of the rendered filter text."""
from __future__ import annotations

import ast
import itertools
import json
import os

from bfsa.guard import atoms, disjuncts, dominates, raise_rel, rel, show_rel, unsnap
from bfsa.heap import Unsupported
from bfsa.layout import RField, Writer, builtin_call, extract_readers, is_call_named, meth_call, show_segs
from bfsa.length import lin, lin_eq
from bfsa.load import AnalysisError, NotConst
from bfsa.symexec import Exec
from bfsa.terms import C, NONE, Term, cval, is_const, mk, show, subterms

from rules.bf3 import BF3, find_guards
from rules import stackrt

LEVEL = "other"
VERIF = os.path.dirname(os.path.dirname(os.path.abspath(__file__)))
TABLE = json.load(open(os.path.join(VERIF, "spec", "bf2_tagtypes.json")))


def pol_rd(ex, fi, depth):
    return fi.module.name == "bec2format.bytes_reader"


# ------------------------------------------------------------------------------------------------ must-use
def mentions_deep(t, P: Term, heap, _seen=None) -> bool:
    if _seen is None:
        _seen = set()
    for x in subterms(t):
        if x is P:
            return True
        if x.op == "ref" and x.args[0] not in _seen:
            _seen.add(x.args[0])
            o = heap.get(x.args[0])
            if o is not None:
                items = o.items if o.exact else [i[0] for i in o.items]
                for it in items:
                    if isinstance(it, Term) and mentions_deep(it, P, heap, _seen):
                        return True
    return False


def select(t: Term, assign) -> Term:
    """resolve phi nodes whose condition is decided by the branch assignment"""
    t = unsnap(t)
    while t.op == "phi" and t.args[0].uid in assign:
        t = unsnap(t.args[1] if assign[t.args[0].uid] else t.args[2])
    return t


def must_use(ex, res, lid: int, P: Term, after_uid: int):
    """assignments of the loop body's branch conditions under which P is never consumed"""
    ev = [e for e in res.events if any(f[0] == "loop" and f[1] == lid for f in e.ctx) and e.uid > after_uid]
    lr = ex.loops[lid]

    def frames_below(e):
        fs = list(e.ctx)
        i = max(k for k, f in enumerate(fs) if f[0] == "loop" and f[1] == lid)
        return [f for f in fs[i + 1:] if f[0] == "if" and not f[1] is lr.cond]

    conds = {}
    for e in ev:
        for f in frames_below(e):
            conds[f[1].uid] = f[1]
    consumers = []
    for e in ev:
        if e.kind == "mcall" and e.d["name"] in ("append", "extend", "insert", "add", "write") and any(any(x is P for x in subterms(a)) for a in e.d["args"]):
            consumers.append(e)
        if e.kind == "mutate" and e.d.get("value") is not None and any(x is P for x in subterms(e.d["value"])):
            consumers.append(e)
        if e.kind == "setitem" and any(x is P for x in subterms(e.d["value"])):
            consumers.append(e)
    keys = sorted(conds)
    heap = res.state.heap if res.state is not None else {}
    uncovered = []
    if len(keys) > 8:
        raise AnalysisError("too many branch conditions in the unpack loop")
    for vals in itertools.product([True, False], repeat=len(keys)):
        assign = dict(zip(keys, vals))
        ok = False
        for c in consumers:
            if all(assign.get(f[1].uid) == f[2] for f in frames_below(c)):
                ok = True
                break
        if not ok:
            for nm, nxt in lr.next.items():
                if nm not in lr.init:
                    continue  # per-iteration temporaries do not carry data to the next iteration
                if mentions_deep(select(nxt, assign), P, heap):
                    ok = True
                    break
        if not ok:
            uncovered.append({show(conds[k], 4): v for k, v in assign.items()})
    return uncovered, len(consumers)


def line_parser_rules(prog, chk, pid):
    """the text-level line parser: a ':' line is hex decoded and read as U16be index, U8 tag type, U8 length, that many tag bytes; the record
    handed on carries (tag type, index, tag bytes, whole line) in the slots the consumers read them from; FF closes a group, FE is skipped"""
    P_ = lambda s: "%s.%s" % (pid, s)
    fi = prog.method(BF3 + ".Bf3File", "parse_bf2_file")
    ex = Exec(prog, policy=pol_rd)
    res = ex.run(fi)
    where = "%s:%d" % (fi.file, fi.lineno)
    rds = [r for r in extract_readers(ex, res.events).values() if r.raw is not None and r.fields()]
    ok, why = len(rds) == 1 and len(rds[0].fields()) == 4, "a data line is not read through one reader as four fields (found %s)" % [len(r.fields()) for r in rds]
    if ok:
        ndx, typ, ln, tag = rds[0].fields()
        raw = unsnap(rds[0].raw)
        sizes_ok = [is_const(f.size) and cval(f.size) == n and bool(f.int_views) and f.order == "big" and not getattr(f, "signed", False) for f, n in ((ndx, 2), (typ, 1), (ln, 1))]
        ok = all(sizes_ok)
        why = "the header of a data line is not U16 big-endian index, U8 tag type, U8 length (unsigned)"
        if ok:
            ok = any(unsnap(tag.size) is unsnap(v) for v in ln.int_views)
            why = "the tag bytes are not read with the length the line announces"
        if ok:
            ok = is_call_named(raw, "hex2bin") and len(raw.args[1]) == 1
            why = "the reader is not built over hex2bin(line)"
        if ok:
            # the record: a 4-tuple (named tuple) appended to the pending group
            class _Rec:
                def __init__(self, e, v):
                    self.d, self.ctx, self.facts = {"value": v}, e.ctx, getattr(e, "facts", ())

            recs = [_Rec(e, e.d["value"]) for e in res.events if e.kind == "mutate" and e.d["how"] == "append" and unsnap(e.d["value"]).op == "tuple" and len(unsnap(e.d["value"]).args[0]) == 4]
            recs += [_Rec(e, e.d["args"][0]) for e in res.events if e.kind == "mcall" and e.d["name"] == "append" and len(e.d["args"]) == 1 and unsnap(e.d["args"][0]).op == "tuple" and len(unsnap(e.d["args"][0]).args[0]) == 4]
            try:
                fields = prog.fold_name(prog.module(BF3), "Bf2BinLine")
            except Exception:
                fields = None
            import ast as _ast

            names = None
            for st_ in prog.module(BF3).tree.body:
                if isinstance(st_, _ast.Assign) and any(isinstance(t_, _ast.Name) and t_.id == "Bf2BinLine" for t_ in st_.targets) and isinstance(st_.value, _ast.Call) and len(st_.value.args) == 2 and isinstance(st_.value.args[1], _ast.Constant):
                    v_ = st_.value.args[1].value
                    names = v_.replace(",", " ").split() if isinstance(v_, str) else list(v_)
                elif isinstance(st_, _ast.ClassDef) and st_.name == "Bf2BinLine":
                    names = [b_.target.id for b_ in st_.body if isinstance(b_, _ast.AnnAssign) and isinstance(b_.target, _ast.Name)]
            ok = len(recs) == 1 and names is not None and sorted(names) == sorted(["fwtagtype", "fwtagndx", "fwtag", "rawdata"])
            why = "a data line is not recorded as one Bf2BinLine(fwtagtype, fwtagndx, fwtag, rawdata)"
            if ok:
                vals = dict(zip(names, unsnap(recs[0].d["value"]).args[0]))
                ok = (any(unsnap(vals["fwtagtype"]) is unsnap(v) for v in typ.int_views) and any(unsnap(vals["fwtagndx"]) is unsnap(v) for v in ndx.int_views)
                      and unsnap(vals["fwtag"]) is unsnap(tag.result) and unsnap(vals["rawdata"]) is raw)
                why = "the record's slots are not (tag type read, index read, tag bytes read, decoded line): %s" % {k: show(v, 3) for k, v in vals.items()}
            if ok:
                # selection: FF ends the group (yield "load"), FE is skipped, everything else is recorded
                conds = [(rel(f[1], bool(f[2]))) for f in recs[0].ctx if f[0] == "if"] + [rel(c, bool(p_)) for c, p_ in (getattr(recs[0], "facts", ()) or ())]
                excl = set()
                for r_ in conds:
                    for a_ in ([r_] if r_[0] == "rel" else r_[1] if r_[0] == "and" else []):
                        if a_[0] == "rel" and a_[1] == "NotEq" and a_[3] is not None:
                            for x, y in ((a_[2], a_[3]), (a_[3], a_[2])):
                                if any(unsnap(x) is unsnap(v) for v in typ.int_views) and is_const(unsnap(y)):
                                    excl.add(cval(unsnap(y)))
                ok = excl == {0xFF, 0xFE}
                why = "a line is recorded unless its tag type is FF (end of group) or FE (start of group); found the exclusions %s" % sorted(excl)
    chk.require(ok, P_("text-line-layout"), fi.qualname, "':' line -> hex2bin -> U16be index, U8 tag type, U8 n, tag[n] -> Bf2BinLine(type, index, tag, line)", where,
                "every data line is decoded into its four fields with the documented widths and byte order and recorded under the names the payload unpacking reads", why)


def unpack_rules(prog, chk, pid):
    P_ = lambda s: "%s.%s" % (pid, s)
    fi = prog.method(BF3 + ".Bf3File", "bf2_unpack_payload")
    ex = Exec(prog, policy=pol_rd)
    res = ex.run(fi)
    where = "%s:%d" % (fi.file, fi.lineno)
    rds = [r for r in extract_readers(ex, res.events).values() if r.raw is not None and r.fields()]
    ok = len(rds) == 1 and len(rds[0].fields()) == 3
    if not ok:
        chk.fail(P_("line-layout"), fi.qualname, "BytesReader(line.fwtag): U8 len, U16 offset, payload", where, "a BF2 data line is not parsed as length byte, 2-byte offset, payload")
        return
    ln, off, pay = rds[0].fields()
    raw = unsnap(rds[0].raw)
    okl = is_const(ln.size) and cval(ln.size) == 1 and bool(ln.int_views) and is_const(off.size) and cval(off.size) == 2 and bool(off.int_views) and raw.op == "attr" and raw.args[1] == "fwtag"
    okl = okl and lin_eq(lin(pay.size), {("atom", unsnap(ln.int_views[0]).uid): 1, 1: -2})
    chk.require(okl, P_("line-layout"), fi.qualname, "U8 n, U16be offset, payload[n-2]", where, "each data line is read as length byte, 16-bit big-endian offset and n-2 payload bytes", "data line fields are read with other sizes")
    loops = [f[1] for f in pay.ev.ctx if f[0] == "loop"]
    if not loops:
        chk.fail(P_("every-line-used"), fi.qualname, "loop over bf2lines", where, "payload is not read inside a loop over the lines")
        return
    lid = loops[-1]
    lr = ex.loops[lid]
    it_ok = lr.kind == "for" and lr.iter is not None and unsnap(lr.iter).op == "param" and unsnap(lr.iter).args[0] == fi.params[0]
    unc, ncons = must_use(ex, res, lid, unsnap(pay.result), pay.ev.uid)
    chk.require(it_ok and not unc, P_("every-line-used"), fi.qualname, "for line in bf2lines: payload -> cur_block on every path", pay.ev.where,
                "on every path through the loop body the payload read from the line is appended to the block being assembled (%d consuming sites)" % ncons,
                "the payload of a line is dropped on the path %s: the first line after a gap is lost (a blob whose last line follows a gap is accepted without it)" % (unc[:1] or "(loop does not iterate all lines)"))
    # page arithmetic: offset = (tagtype - first tagtype) * 0x10000 + U16
    offs = None
    for nm, v in lr.next.items():
        l = unsnap(v)
        if l.op == "bin" and l.args[0] == "Add" and any(unsnap(x) is unsnap(off.int_views[0]) for x in (l.args[1], l.args[2])):
            offs = l
    okp = False
    if offs is not None:
        other = [unsnap(x) for x in (offs.args[1], offs.args[2]) if unsnap(x) is not unsnap(off.int_views[0])][0]
        if other.op == "bin" and other.args[0] == "Mult":
            k = [x for x in (other.args[1], other.args[2]) if is_const(x)]
            d = [unsnap(x) for x in (other.args[1], other.args[2]) if not is_const(x)]
            okp = len(k) == 1 and cval(k[0]) == 0x10000 and len(d) == 1 and d[0].op == "bin" and d[0].args[0] == "Sub" and "fwtagtype" in show(d[0].args[1], 3) and "fwtagtype" in show(d[0].args[2], 3) and "[0]" in show(d[0].args[2], 4)
    chk.require(okp, P_("page-arithmetic"), fi.qualname, "(tagtype - first tagtype) * 0x10000 + offset", off.ev.where, "addresses continue across 64 KiB pages: page index = tag type minus the section's first tag type", "address is not computed as (tagtype - first tagtype) * 0x10000 + 16-bit offset")
    # gap test and flush
    sets = [e for e in res.events if e.kind == "setitem" and unsnap(e.d["base"]).op == "ref"]
    def _is_run(v):
        """the assembled run: b"".join(<list of payloads>), or bytes(<bytearray the payloads were appended to>)"""
        v = unsnap(v)
        if v.op == "join":
            return True
        bc = builtin_call(v)
        if bc and bc[0] == "bytes" and len(bc[1]) == 1 and not bc[2]:
            a0 = unsnap(bc[1][0])
            if a0.op == "snap":
                a0 = unsnap(a0.args[0])
            o_ = (res.state.heap.get(a0.args[0]) if res.state is not None and a0.op == "ref" else None)
            return o_ is not None and o_.kind == "bytearray"
        return False

    okf = len(sets) == 2 and all(_is_run(s.d["value"]) for s in sets)
    chk.require(okf, P_("blocks-flushed"), fi.qualname, "blocks[start] = b''.join(cur_block) at every gap and at the end", where, "a contiguous run is stored under its start address when a gap is seen and after the last line", "assembled runs are not stored at both flush points")
    # after a flush inside the loop the run being assembled starts afresh: the accumulator is rebound to a new object on that path, or emptied in place
    # (otherwise the next run repeats the bytes of the one just stored: a memory image with a gap gets the first extent twice)
    if okf:
        in_loop_ = [x for x in sets if any(f[0] == "loop" and f[1] == lid for f in x.ctx)]
        okr, whyr = len(in_loop_) == 1, "expected one flush inside the loop"
        if okr:
            fl = in_loop_[0]
            frames_ = [f for f in fl.ctx if f[0] == "if"]
            v_ = unsnap(fl.d["value"])
            acc = None
            if v_.op == "join":
                acc = unsnap(v_.args[1])
            else:
                bc_ = builtin_call(v_)
                acc = unsnap(bc_[1][0]) if bc_ else None
                if acc is not None and acc.op == "snap":
                    acc = unsnap(acc.args[0])
            okr, whyr = False, "the run accumulator is neither rebound nor emptied after the flush at a gap"
            if acc is not None and acc.op == "loopvar" and acc.args[0] == lid:
                nxt_ = unsnap(lr.next.get(acc.args[1])) if lr.next.get(acc.args[1]) is not None else None

                def fresh_arm(t):
                    t = unsnap(t)
                    if t.op == "phi":
                        return fresh_arm(t.args[1]) or fresh_arm(t.args[2])
                    return t.op == "ref" and t is not unsnap(lr.init.get(acc.args[1])) and t is not acc
                okr = nxt_ is not None and nxt_.op == "phi" and fresh_arm(nxt_)
            elif acc is not None and acc.op == "ref" and frames_:
                okr = any(e.kind == "mutate" and unsnap(e.d["obj"]) is acc and e.d["how"] in ("clear", "delslice", "del") and e.uid > fl.uid and frames_[-1] in e.ctx for e in res.events)
        chk.require(okr, P_("run-restarts-after-flush"), fi.qualname, "cur_block = [] (or cur_block.clear()) after blocks[start] = <run>", in_loop_[0].where if in_loop_ else where,
                    "the bytes of a stored run are not carried into the next run", whyr)
    # the gap test itself: flush exactly when this line's address differs from the end of the previous line
    okg, whyg = offs is not None, "line address term not found"
    gap_where = where
    if okg:
        endvars = [nm for nm, v in lr.next.items() if nm in lr.init and is_const(lr.init[nm]) and cval(lr.init[nm]) == 0 and not isinstance(cval(lr.init[nm]), bool)
                   and lin_eq(lin(unsnap(v)), _lin_add(lin(offs), lin(pay.size)))]
        okg, whyg = len(endvars) == 1, "no loop variable carries `address + payload length` of the previous line (initially 0)"
    if okg:
        endv = mk("loopvar", lid, endvars[0])
        in_loop = [x for x in sets if any(f[0] == "loop" and f[1] == lid for f in x.ctx)]
        okg, whyg = len(in_loop) == 1, "expected one flush inside the loop"
        if in_loop:
            gap_where = in_loop[0].where
    if okg:
        ats = []
        seen_loop = False
        for f in in_loop[0].ctx:
            if f[0] == "loop" and f[1] == lid:
                seen_loop = True
            elif seen_loop and f[0] == "if":
                r = rel(f[1], f[2])
                ats.extend(r[1] if r[0] == "and" else [r])
        gap = [a for a in ats if a[0] == "rel" and a[1] == "NotEq" and {unsnap(a[2]).uid, unsnap(a[3]).uid} == {endv.uid, offs.uid}]
        def first_trip_marker(a):
            """`V is not None` for a loop variable that is None before the loop and never None afterwards: false on the first trip only (nothing to flush yet)"""
            if not (a[0] == "rel" and a[1] == "IsNot" and a[3] is not None):
                return False
            x = unsnap(a[3]) if unsnap(a[2]) is NONE else unsnap(a[2]) if unsnap(a[3]) is NONE else None
            if x is None or x.op != "loopvar" or x.args[0] != lid or lr.init.get(x.args[1]) is not NONE:
                return False
            nxt = lr.next.get(x.args[1])
            if nxt is None:
                return False

            # on every path through the body the variable ends up as an address: the line's, or the one it already held where it is known not to be None
            def settles(t, maybe_none):
                t = unsnap(t)
                if t.op == "phi":
                    r_ = rel(t.args[0], True)
                    if r_[0] == "rel" and r_[1] in ("Is", "IsNot") and {unsnap(r_[2]).uid, unsnap(r_[3]).uid} == {x.uid, NONE.uid}:
                        none_arm, other = (t.args[1], t.args[2]) if r_[1] == "Is" else (t.args[2], t.args[1])
                        return settles(none_arm, True) and settles(other, False)
                    return settles(t.args[1], maybe_none) and settles(t.args[2], maybe_none)
                return t is offs or (t is x and not maybe_none)
            return settles(nxt, True)

        extra = [a for a in ats if a not in gap and not (a[0] == "rel" and a[1] == "Truthy" and unsnap(a[2]).op == "loopvar") and not first_trip_marker(a)]
        okg = len(gap) == 1 and not extra
        whyg = "the flush inside the loop is not guarded by exactly `address != end of previous line` (conditions: %s)" % "; ".join(show_rel(a, 5) for a in ats)[:200]
    chk.require(okg, P_("gap-test"), fi.qualname, "payload_offs != cur_block_end_adr [and cur_block] -> start a new run", gap_where,
                "a new run is started exactly when a line does not begin where the previous one ended (full-width comparison of absolute addresses)", whyg)


def _lin_add(a, b):
    if a is None or b is None:
        return None
    out = dict(a)
    for k, v in b.items():
        out[k] = out.get(k, 0) + v
    return {k: v for k, v in out.items() if v != 0}


def import_scenarios(prog, chk, pid, tier):
    """Bf3File.bf2_import on enumerated record sequences (what parse_bf2_file yields), data-line contents symbolic: the state machine
    that groups lines into sections, ignores prepare / activate sections, crosses 64 KiB pages and rejects gaps -- interpreted
    in concrete-control mode; parse_bf2_file and annotations are replaced by the scenario's records / an empty summary"""
    from bfsa.exprs import sbytes
    from rules import stackrt as R

    P_ = lambda s_: "%s.%s" % (pid, s_)
    fi = prog.method(BF3 + ".Bf3File", "bf2_import")
    where = "%s:%d" % (fi.file, fi.lineno)
    holder = {}

    def mkline(ex, st, tagtype, ndx, offs, payload):
        raw = [C(len(payload) + 2)] + [C(b) for b in offs.to_bytes(2, "big")] + list(payload)
        o = ex.new_obj(st, "obj", cls=None, label="line")
        a = ex.obj(st, o).attrs
        a["fwtagtype"], a["fwtagndx"], a["fwtag"], a["rawdata"] = C(tagtype), C(ndx), sbytes(raw), sbytes([C(tagtype)] + raw)
        return o

    def h_parse(ex, fi_, args, kwargs, st, node):
        out = []
        for instr, params in holder["recs"]:
            p = ex.new_list(st, [mkline(ex, st, *x) for x in params]) if instr == "load" else C(params)
            out.append(mk("tuple", (C(instr), p)))
        return ex.new_list(st, out)

    def h_annot(ex, fi_, args, kwargs, st, node):
        return ex.new_list(st, [])

    stk = R.Stack(prog, extra_hooks={BF3 + ".Bf3File.parse_bf2_file": h_parse, BF3 + ".Bf3File.annotations": h_annot})
    src = "def drv(f):\n    g = Bf3File.bf2_import(f)\n    return [(x.description, x.blob) for x in g.components]\n"
    T = {k: prog.fold_class_attr(prog.cls(BF3 + ".BF3TAG"), k) for k in ("TYPE", "FMT", "FWVER", "REBOOT")}
    TY = {k: prog.fold_class_attr(prog.cls(BF3 + ".BF3TYPE"), k) for k in ("MAIN", "LOADER", "PERIPHERAL")}

    def raw_of(tagtype, offs, payload):
        return [C(tagtype), C(len(payload) + 2)] + [C(b) for b in offs.to_bytes(2, "big")] + list(payload)

    a, b, c, d = R.syms("a", 6), R.syms("b", 9), R.syms("c", 5), R.syms("d", 4)
    big = R.syms("p", 16)
    hdr = [("Bf3Update", "1")]
    scen = [
        ("main firmware only (two lines)", hdr + [("load", [(0x84, 0, 0, a), (0x84, 1, 6, b)])], [(TY["MAIN"], raw_of(0x84, 0, a) + raw_of(0x84, 6, b))]),
        ("ignored activate section (0x48) before the main firmware", hdr + [("load", [(0x48, 0, 0, a)]), ("load", [(0x84, 0, 0, b), (0x84, 1, 9, c)])], [(TY["MAIN"], raw_of(0x84, 0, b) + raw_of(0x84, 9, c))]),
        ("ignored prepare section (0x34) between loader and main firmware", hdr + [("load", [(0x70, 0, 0, a)]), ("load", [(0x34, 0, 0, d)]), ("load", [(0x84, 0, 0, b)])],
         [(TY["LOADER"], raw_of(0x70, 0, a)), (TY["MAIN"], raw_of(0x84, 0, b))]),
        ("blob section continued on the next 64 KiB page", hdr + [("load", [(0x3D, 0, 0xFFF0, big), (0x3E, 1, 0x0000, c)])], "reject"),  # does not start at address 0
        ("blob from address 0 across lines", hdr + [("load", [(0x3D, 0, 0, a), (0x3D, 1, 6, b)]), ("load", [(0x84, 0, 0, c)])], [(TY["MAIN"], raw_of(0x84, 0, c)), (TY["PERIPHERAL"], list(a) + list(b))]),
        ("blob with a gap", hdr + [("load", [(0x3D, 0, 0, a), (0x3D, 1, 7, b)])], "reject"),
        ("blob whose second line overlaps", hdr + [("load", [(0x3D, 0, 0, a), (0x3D, 1, 5, b)])], "reject"),
        ("firmware without the BF3 marker", [("load", [(0x84, 0, 0, a)])], "reject"),
        ("two main sections separated by an instruction boundary (CHECK_FWVER twice)", hdr + [("CHECK_FWVER", {"VERSIONDESC": "*"}), ("load", [(0x84, 0, 0, a)]), ("CHECK_FWVER", {"VERSIONDESC": "*"}), ("load", [(0x84, 0, 0, b)])],
         [(TY["MAIN"], raw_of(0x84, 0, a)), (TY["MAIN"], raw_of(0x84, 0, b))]),
        # each section carries the version of the CHECK_FWVER instruction that PRECEDES it
        ("two peripheral sections with different CHECK_FWVER versions", hdr + [("CHECK_FWVER", {"VERSIONDESC": "00 00 02 AA BB"}), ("load", [(0x3D, 0, 0, a)]), ("CHECK_FWVER", {"VERSIONDESC": "00 00 03 C1 C2 C3"}), ("load", [(0x40, 0, 0, b)])],
         [(TY["PERIPHERAL"], list(a), {"FWVER": b"\xaa\xbb"}), (TY["PERIPHERAL"], list(b), {"FWVER": b"\xc1\xc2\xc3"})]),
        ("REBOOT closes a section; the reboot tag belongs to that section only", hdr + [("load", [(0x84, 0, 0, a)]), ("REBOOT", ""), ("load", [(0x70, 0, 0, b)])],
         [(TY["MAIN"], raw_of(0x84, 0, a), {"REBOOT": b"\x01"}), (TY["LOADER"], raw_of(0x70, 0, b), {"REBOOT": None})]),
    ]
    bad = None
    for label, recs, want in scen:
        holder["recs"] = recs
        ex, res = stk.run(BF3, src, {"f": mk("param", "fileobj")})
        if want == "reject":
            if not res.dead:
                bad = bad or (label, "is converted instead of being rejected")
            continue
        if res.dead or res.ret is None:
            bad = bad or (label, "raises (%s)" % (ex._dead[1] if ex._dead else "?"))
            continue
        items = ex.iter_items(res.ret, res.state) or []
        got = []
        for it in items:
            dsc, bl = ex.unpack_to(it, 2, res.state, None)
            do = ex.obj(res.state, dsc)
            ty = do.kv.get(T["TYPE"]) if do is not None and do.kind == "dict" else None
            tags = {k: (cval(v) if is_const(v) else show(v, 3)) for k, v in (do.kv.items() if do is not None and do.kind == "dict" else [])}
            got.append((cval(ty)[0] if ty is not None and is_const(ty) and len(cval(ty)) == 1 else None, R.flat(ex, res, bl), tags))

        def tags_ok(g, w):
            return len(w) < 3 or all(g[2].get(T[k]) == v for k, v in w[2].items())

        # components are sorted by type by the importer (stable): compare in that order, equal types keep file order
        gs = sorted(got, key=lambda t: t[0] if t[0] is not None else -1)
        ws = sorted(want, key=lambda t: t[0])
        okc = len(got) == len(want) and all(g[0] == w[0] and g[1] is not None and len(g[1]) == len(w[1]) and all(x is y for x, y in zip(g[1], w[1])) and tags_ok(g, w) for g, w in zip(gs, ws))
        if not okc:
            bad = bad or (label, "yields (type, payload length, tags) %s, expected %s" % ([(g[0], len(g[1]) if g[1] is not None else None, {k: v for k, v in g[2].items() if k in (T["FWVER"], T["REBOOT"])}) for g in got], [(w[0], len(w[1]), w[2] if len(w) > 2 else {}) for w in want]))
    chk.require(bad is None, P_("import-scenarios"), fi.qualname, "%d record sequences, symbolic line contents" % len(scen), where,
                "every data line of a non-ignored section is used exactly once in its own section's component (raw lines in order for BF2-compatible sections, the contiguous image for blobs); ignored sections contribute nothing and do not disturb the next section; gaps, overlaps, non-zero starts and a missing BF3 marker are rejected",
                "%s: %s" % bad if bad else "")


def convert_rules(prog, chk, pid):
    P_ = lambda s: "%s.%s" % (pid, s)
    fi = prog.method(BF3 + ".Bf3File", "bf2_convert_payload")
    ex = Exec(prog, policy=lambda e, f, d: False)
    res = ex.run(fi)
    where = "%s:%d" % (fi.file, fi.lineno)
    m = prog.module(BF3)
    fmt = {k: prog.fold_class_attr(prog.cls(BF3 + ".BF3FMT"), k) for k in ("BLOB", "MEMORYIMAGE", "BF2COMPATIBLE", "TLVCFG")}
    rets = [e for e in res.events if e.kind == "return" and e.stack == (fi.qualname,)]

    def arm_of(e):
        vals = set()
        for f in e.ctx:
            if f[0] == "if" and f[2]:
                r = rel(f[1], True)
                if r[0] == "rel" and r[1] == "Eq":
                    for x, y in ((r[2], r[3]), (r[3], r[2])):
                        if is_const(y) and unsnap(x).op == "param":
                            vals.add(cval(y))
        return vals

    by = {}
    for r in rets:
        a = arm_of(r)
        if len(a) == 1:
            by[list(a)[0]] = r
    w = Writer(ex)
    # BF2-compatible: all raw lines in order
    r = by.get(fmt["BF2COMPATIBLE"])
    ok = r is not None
    if ok:
        v = unsnap(r.d["value"])
        ok = v.op == "join" and is_const(v.args[0]) and cval(v.args[0]) == b"" and unsnap(v.args[1]).op == "comp"
        if ok:
            cp = unsnap(v.args[1])
            lr = ex.loops[cp.args[3]]
            elt = unsnap(cp.args[1])
            ok = not lr.conds and unsnap(cp.args[2]).op == "param" and elt.op == "attr" and elt.args[1] == "rawdata" and unsnap(elt.args[0]).op == "elem"
    chk.require(ok, P_("compatible=all-raw-lines"), fi.qualname, "b''.join(l.rawdata for l in bf2lines)", r.where if r else where, "BF2-compatible sections are the concatenated raw lines, all of them, in file order", "BF2-compatible payload is not the unfiltered concatenation of every line's raw data")
    # blob: single run at address 0
    r = by.get(fmt["BLOB"])
    ok = r is not None
    why = "no blob arm"
    if ok:
        v = unsnap(r.d["value"])
        ok = v.op == "sub" and is_call_named(unsnap(v.args[0]), "bf2_unpack_payload") and is_const(v.args[1]) and cval(v.args[1]) == 0
        why = "blob payload is not blocks[0] of the unpacked lines"
        blocks = unsnap(v.args[0]) if ok else None
        if ok:
            gs = [g for g in res.events if g.kind == "guard" and g.d.get("term") == "raise" and dominates(g, r)]
            found = False
            for g in gs:
                ds = disjuncts(raise_rel(g))
                has_len = any(d[0] == "rel" and d[1] == "NotEq" and ((unsnap(d[2]).op == "len" and unsnap(unsnap(d[2]).args[0]) is blocks and is_const(d[3]) and cval(d[3]) == 1) or (unsnap(d[3]).op == "len" and unsnap(unsnap(d[3]).args[0]) is blocks and is_const(d[2]) and cval(d[2]) == 1)) for d in ds)
                has_zero = any(d[0] == "rel" and d[1] == "NotIn" and is_const(d[2]) and cval(d[2]) == 0 and unsnap(d[3]) is blocks for d in ds)
                if has_len and has_zero and len(ds) == 2:
                    found = True
            ok = found
            why = "no guard `len(blocks) != 1 or 0 not in blocks -> raise` dominates the blob result (gaps / non-zero start would be converted with loss)"
    chk.require(ok, P_("blob-contiguous-from-0"), fi.qualname, "len(blocks) != 1 or 0 not in blocks -> raise; return blocks[0]", r.where if r else where, "a blob section must be one gap-free run starting at address 0, otherwise it is rejected", why)
    # memory image: every (address, data) extent
    r = by.get(fmt["MEMORYIMAGE"])
    ok = r is not None
    why = "no memory-image arm"
    if ok:
        try:
            segs = w.flatten(r.d["value"])
        except Unsupported as u:
            segs = []
        ok = len(segs) == 1 and segs[0][0] == "repeat" and len(segs[0][2]) == 3
        why = "memory image is %s; documented {U32 address, U32 length, data}*" % show_segs(segs, 3)
        if ok:
            a, l, d = segs[0][2]
            ok = a[0] == "int" and a[1] == 4 and a[3] == "big" and l[0] == "int" and l[1] == 4 and l[3] == "big" and d[0] == "opaque" and unsnap(l[2]).op == "len" and unsnap(unsnap(l[2]).args[0]) is unsnap(d[1])
            it = segs[0][3]
            o = ex.obj(res.state, it) if it is not None else None
            src = getattr(o, "base", None) if o is not None else None
            s = show(src, 6) if src is not None else ""
            ok = ok and "sorted" in s and "items" in s and "bf2_unpack_payload" in s
            why = "memory image records are not (U32 address, U32 len(data), data) over the sorted extents of the unpacked lines"
    chk.require(ok, P_("memimage-all-extents"), fi.qualname, "{U32be adr, U32be len(data), data} for every extent, ascending", r.where if r else where, "memory images list every (address, data) extent", why)


def rejection_rules(prog, chk, pid):
    P_ = lambda s: "%s.%s" % (pid, s)
    fi = prog.method(BF3 + ".Bf3File", "bf2_import")
    ex = Exec(prog, policy=lambda e, f, d: f.parent is not None or f.name == "<lambda>")
    res = ex.run(fi)
    where = "%s:%d" % (fi.file, fi.lineno)
    ev = res.events
    # unknown tag types, two sites
    g1 = [g for g in ev if g.kind == "guard" and g.d.get("term") == "raise" and any(a[0] == "rel" and a[1] == "NotIn" and unsnap(a[3]).op == "static" and unsnap(a[3]).args[0].endswith("BF2_TAGTYPE_MAP") for a in disjuncts(raise_rel(g)))]
    lookups = [e for e in ev if e.kind == "subscript" and unsnap(e.d["base"]).op == "static" and unsnap(e.d["base"]).args[0].endswith("BF2_TAGTYPE_MAP")]
    ok1 = bool(g1) and bool(lookups) and all(any(dominates(g, l) for g in g1) for l in lookups)
    if not ok1 and not lookups:
        # the same rejection spelled with .get(): `info = BF2_TAGTYPE_MAP.get(t); if info is None: raise ...` before info is taken apart
        def is_map_get(t):
            mc_ = meth_call(unsnap(t))
            return bool(mc_) and mc_[1] == "get" and unsnap(mc_[0]).op == "static" and unsnap(mc_[0]).args[0].endswith("BF2_TAGTYPE_MAP") and (len(mc_[2]) == 1 or (len(mc_[2]) == 2 and is_const(mc_[2][1]) and cval(mc_[2][1]) is None))

        g1 = [g for g in ev if g.kind == "guard" and g.d.get("term") == "raise" and any(a[0] == "rel" and a[1] == "Is" and ((is_map_get(a[2]) and (a[3] is NONE or (is_const(unsnap(a[3])) and cval(unsnap(a[3])) is None))) or (is_map_get(a[3]) and a[2] is NONE)) for a in disjuncts(raise_rel(g)))]
        uses = [e for e in ev if (e.kind == "unpack" and is_map_get(e.d["value"])) or (e.kind == "subscript" and is_map_get(e.d["base"]))]
        ok1 = bool(g1) and bool(uses) and all(any(dominates(g, u) for g in g1) for u in uses)
    chk.require(ok1, P_("unmapped-tagtype-rejected"), fi.qualname + ".<locals>.emit_bf3comp", "fwtagtype not in BF2_TAGTYPE_MAP -> raise", g1[0].where if g1 else where, "a section whose tag type has no BF3 mapping is rejected before the mapping is used", "a section with an unmapped tag type is not rejected before BF2_TAGTYPE_MAP is indexed")
    g2 = []
    for g in ev:
        if g.kind == "guard" and g.d.get("term") == "raise":
            for a in disjuncts(raise_rel(g)):
                if a[0] == "rel" and a[1] == "Falsy" and is_call_named(unsnap(a[2]), "is_known_tagtype"):
                    g2.append(g)
    chk.require(bool(g2), P_("unknown-tagtype-rejected"), fi.qualname, "not is_known_tagtype(fwtagtype) -> raise", g2[0].where if g2 else where, "data groups of an unknown tag type are rejected", "data groups with an unknown tag type are accepted")
    # legacy marker
    rets = [e for e in ev if e.kind == "return" and e.stack == (fi.qualname,)]
    g3 = []
    for g in ev:
        if g.kind == "guard" and g.d.get("term") == "raise" and len(g.stack) == 1:
            r = raise_rel(g)
            ats = r[1] if r[0] == "and" else [r]
            has_marker = any(a[0] == "rel" and a[1] == "NotIn" and is_const(a[2]) and cval(a[2]) == "Bf3Update" for a in ats)
            others = [a for a in ats if not (a[0] == "rel" and a[1] == "NotIn")]
            flag_only = all(a[0] == "rel" and a[1] == "Truthy" and unsnap(a[2]).op == "param" and unsnap(a[2]).args[0] == "enforce_bf3_compatibility" for a in others)
            if has_marker and flag_only and all(dominates(g, x) for x in rets):
                g3.append(g)
    chk.require(bool(g3), P_("legacy-firmware-rejected"), fi.qualname, "enforce and 'Bf3Update' not in comments -> raise", g3[0].where if g3 else where, "firmware without the BF3-update marker is rejected when compatibility is enforced", "firmware without the BF3-update marker is converted although compatibility is enforced")
    dflt = fi.node.args.defaults
    chk.require(len(dflt) == 1 and prog.try_fold(fi.module, dflt[0]) is True, P_("legacy-firmware-rejected"), fi.qualname, "enforce_bf3_compatibility defaults to True", where, "rejection is the default", "compatibility enforcement is not on by default")


def table_rules(prog, chk, pid):
    P_ = lambda s: "%s.%s" % (pid, s)
    m = prog.module(BF3)
    tm = prog.fold_name(m, "BF2_TAGTYPE_MAP")
    fi = prog.func(BF3 + ".is_known_tagtype")
    # the predicate is interpreted for every tag type 0..255 (and the neighbours of the byte range), however its table is written (list, tuple, ranges, a loop, any());
    # the reference is the pinned domain table: a tag type is known exactly when one of the pinned ranges contains it, both ends inclusive
    ranges = [tuple(r) for r in TABLE["known_ranges"]]
    okr = sorted(b for b, _ in ranges) == sorted(tm.keys()) and all(b <= e for b, e in ranges) and all(ranges[i][1] < ranges[i + 1][0] for i in range(len(ranges) - 1))
    chk.require(okr, P_("tagtype-tables-agree"), BF3, "bases of the known tag-type ranges == keys of BF2_TAGTYPE_MAP", "%s:%d" % (fi.file, fi.lineno), "every known tag-type range starts at a mapped tag type and every mapped type opens a range (ranges ascending, disjoint)", "known ranges %s vs mapped keys %s" % (ranges, sorted(tm.keys())))
    from rules import stackrt as _R

    okp, whyp = True, ""
    stk = _R.Stack(prog)
    for t in list(range(-1, 257)):
        exq, resq = stk.run(BF3, "def drv():\n    return is_known_tagtype(%d)\n" % t, {})
        want_t = any(b_ <= t <= e_ for b_, e_ in ranges)
        got_t = cval(resq.ret) if (not resq.dead and resq.ret is not None and is_const(resq.ret)) else "?"
        if got_t == "?" :
            raise AnalysisError("is_known_tagtype(%d) does not evaluate to a constant" % t)
        if bool(got_t) != want_t or not isinstance(got_t, bool):
            okp, whyp = False, "is_known_tagtype(0x%02X) is %r; the pinned range table says %r" % (t & 0xFFF, got_t, want_t)
            break
    chk.require(okp, P_("tagtype-tables-agree"), fi.qualname, "is_known_tagtype(t) for t = -1..256", "%s:%d" % (fi.file, fi.lineno), "a tag type is known exactly when one of the pinned ranges contains it, both ends inclusive", whyp)
    want = {int(k, 16): tuple(v) for k, v in TABLE["tagtype_map"].items()}
    chk.require(dict(tm) == want, P_("tagtype-map-pinned"), BF3 + ".BF2_TAGTYPE_MAP", "tag type -> (type, hwcid, format, interface)", "", "mapping equals the pinned domain table (0x35 SM4200, 0x39 BGM12X, 0x3D PN5180, 0x40 SM6300 peripherals as blobs; 0x70/0x83 loader, 0x84 main as BF2-compatible; 0x34/0x48 ignored)",
                "BF2_TAGTYPE_MAP differs from the pinned table at %s" % sorted(k for k in set(tm) | set(want) if tm.get(k) != want.get(k)))
    chk.require(okp, P_("tagtype-map-pinned"), fi.qualname, "known tag-type ranges", "", "the predicate agrees with the pinned ranges on every tag type", "known ranges differ from the pinned table: " + whyp)
    bi = prog.fold_name(m, "BF2_INTERFACES")
    chk.require(bi == TABLE["interfaces"], P_("interfaces-pinned"), BF3 + ".BF2_INTERFACES", "BF2 protocol name -> interface id", "", "interface names map to the pinned ids", "BF2_INTERFACES differs from the pinned table")
    sp = prog.fold_name(m, "PFID2FILTER_TO_HWCID_SPECIAL_CASES")
    chk.require(sp == TABLE["pfid2_special_cases"], P_("interfaces-pinned"), BF3 + ".PFID2FILTER_TO_HWCID_SPECIAL_CASES", "filter special cases", "", "special-case filters map to the pinned hardware ids", "special cases differ from the pinned table")
    hm = prog.fold_name(prog.module("bec2format.hwcids"), "HWCID_MAP")
    rv = prog.fold_name(prog.module("bec2format.hwcids"), "REV_HWCID_MAP")
    chk.require(len(set(hm.values())) == len(hm) and rv == {v: k for k, v in hm.items()} and all(hm.get(k) == v for k, v in TABLE["hwcid_used"].items()), P_("hwcid-bijection"), "bec2format.hwcids", "HWCID_MAP injective; REV_HWCID_MAP its inverse", "", "hardware ids are unique, the reverse map is the exact inverse, ids used by the importer equal the pinned values", "HWCID_MAP has duplicate ids / REV_HWCID_MAP is not its inverse / an id used by the importer changed")


def instr_rules(prog, chk, pid):
    P_ = lambda s: "%s.%s" % (pid, s)
    fi = prog.method(BF3 + ".Bf3File", "exec_bf2instrs")
    ex = Exec(prog, policy=lambda e, f, d: False)
    res = ex.run(fi)
    where = "%s:%d" % (fi.file, fi.lineno)
    stores = [e for e in res.events if e.kind == "setitem" and unsnap(e.d["base"]).op == "param" and unsnap(e.d["base"]).args[0] == "bf3desc"]
    got = {}
    for s in stores:
        k = unsnap(s.d["index"])
        instr = set()
        for f in s.ctx:
            if f[0] == "if" and f[2]:
                r = rel(f[1], True)
                if r[0] == "rel" and r[1] == "In" and is_const(r[2]) and isinstance(cval(r[2]), str) and unsnap(r[3]).op == "param":
                    instr.add(cval(r[2]))
        if is_const(k):
            got.setdefault(cval(k), set()).update(instr)
    want = {0xC5: {"REBOOT"}, 0xC7: {"CRC"}, 0xC9: {"SELECT"}, 0xC4: {"SELECT"}, 0xC8: {"CHECK_FWVER", "Firmware"}, 0xC6: {"SELECT_IF"}}
    chk.require(got == want, P_("instruction->tag"), fi.qualname, "REBOOT->C5, CRC->C7, SELECT->C9(+C4), CHECK_FWVER/Firmware->C8, SELECT_IF->C6", where, "each BF2 instruction writes exactly its description tag", "instruction -> tag mapping is %s" % {hex(k): sorted(v) for k, v in got.items()})
    vals = {}
    for s in stores:
        k = unsnap(s.d["index"])
        if is_const(k):
            vals.setdefault(cval(k), []).append(unsnap(s.d["value"]))
    okv = all(is_const(v) and cval(v) == b"\x01" for v in vals.get(0xC5, [None]) if v is not None) and bool(vals.get(0xC5))
    from rules.bf3 import int_to_bytes_of

    crc = [int_to_bytes_of(v) for v in vals.get(0xC7, [])]
    okv = okv and len(crc) == 1 and crc[0] is not None and crc[0][1] == 4 and crc[0][2] == "big"
    intf = [int_to_bytes_of(v) for v in vals.get(0xC6, [])]
    okv = okv and len(intf) == 1 and intf[0] is not None and intf[0][1] == 1 and unsnap(intf[0][0]).op == "sub" and unsnap(unsnap(intf[0][0]).args[0]).op == "static"
    chk.require(okv, P_("instruction-values"), fi.qualname, "REBOOT = 01; CRC = U32be; INTF = U8 of BF2_INTERFACES[protocol]", where, "tag values have the documented encodings", "a tag value has another encoding")
    g = [x for x in res.events if x.kind == "guard" and x.d.get("term") == "raise" and "UnsupportedBf2InstrError" in str(x.d.get("exc"))]
    okg = False
    for x in g:
        for a in disjuncts(raise_rel(x)):
            if a[0] == "rel" and a[1] == "NotIn" and unsnap(a[3]).op == "static" and unsnap(a[3]).args[0].endswith("BF2_INTERFACES"):
                okg = True
    chk.require(okg, P_("unknown-interface-rejected"), fi.qualname, "protocol not in BF2_INTERFACES -> raise UnsupportedBf2InstrError", g[0].where if g else where, "an unknown interface name is reported instead of being mapped", "unknown interface names are not reported")


def filter_render_scenarios(prog, chk, pid, tier):
    """pfid2_filter_to_str: for every filter STRUCTURE of up to 4 entries (continuation bit 15 / negation bit 14 per entry; hardware
    ids are distinct placeholders) the rendered text, parsed with the usual precedence (! over & over |, parentheses), is the
    same boolean function of the hardware ids as the filter bytes: AND over groups, a group being the OR of the entries chained
    by bit 15, bit 14 negating an entry.  The function is interpreted on constant filters (concrete-control mode)."""
    import itertools
    import re as _re

    from rules import stackrt as R

    P_ = lambda s_: "%s.%s" % (pid, s_)
    fi = prog.func(BF3 + ".pfid2_filter_to_str")
    where = "%s:%d" % (fi.file, fi.lineno)
    stk = R.Stack(prog)
    ids = [0x1101, 0x1202, 0x1303, 0x1404]

    def render(entries):
        body = b"".join(((0x8000 if more else 0) | (0x4000 if neg else 0) | hid).to_bytes(2, "big") for more, neg, hid in entries)
        raw = bytes([1, len(entries)]) + body
        ex, res = stk.run(BF3, "def drv():\n    return pfid2_filter_to_str(%r)\n" % raw, {})
        if res.dead or res.ret is None or not is_const(res.ret) or not isinstance(cval(res.ret), str):
            return None
        return cval(res.ret)

    atoms = {}
    for hid in ids:
        t = render([(0, 0, hid)])
        if t is None or not _re.fullmatch(r"[A-Za-z0-9_x]+", t):
            chk.fail(P_("filter-rendering"), fi.qualname, "single entry 0x%04X" % hid, where, "a one-entry filter is not rendered as a plain name (%r)" % (t,))
            return
        atoms[hid] = t

    def parse(text):
        toks = _re.findall(r"\(|\)|&|\||!|[A-Za-z0-9_x]+", text)
        if "".join(toks) != text.replace(" ", ""):
            raise ValueError("unexpected characters")
        pos = [0]

        def peek():
            return toks[pos[0]] if pos[0] < len(toks) else None

        def eat(t=None):
            tok = peek()
            if tok is None or (t is not None and tok != t):
                raise ValueError("expected %s, got %s" % (t, tok))
            pos[0] += 1
            return tok

        def p_or():
            n = ["or", p_and()]
            while peek() == "|":
                eat()
                n.append(p_and())
            return n if len(n) > 2 else n[1]

        def p_and():
            n = ["and", p_not()]
            while peek() == "&":
                eat()
                n.append(p_not())
            return n if len(n) > 2 else n[1]

        def p_not():
            if peek() == "!":
                eat()
                return ["not", p_not()]
            if peek() == "(":
                eat()
                n = p_or()
                eat(")")
                return n
            return ["atom", eat()]

        tree = p_or()
        if peek() is not None:
            raise ValueError("trailing tokens")
        return tree

    def ev(tree, env):
        k = tree[0]
        if k == "atom":
            return env[tree[1]]
        if k == "not":
            return not ev(tree[1], env)
        if k == "and":
            return all(ev(x, env) for x in tree[1:])
        return any(ev(x, env) for x in tree[1:])

    def semantics(entries, env):
        groups, cur = [], []
        for more, neg, hid in entries:
            cur.append(env[atoms[hid]] != bool(neg))
            if not more:
                groups.append(any(cur))
                cur = []
        return all(groups)

    bad = None
    n = 0
    maxn = 4
    for k in range(1, maxn + 1):
        for flags in itertools.product([(0, 0), (0, 1), (1, 0), (1, 1)], repeat=k):
            if flags[-1][0]:
                continue  # the last entry closes its group
            entries = [(m_, ng, ids[i]) for i, (m_, ng) in enumerate(flags)]
            n += 1
            text = render(entries)
            label = " ".join("%04X" % ((0x8000 if m_ else 0) | (0x4000 if ng else 0) | h) for m_, ng, h in entries)
            if text is None:
                bad = bad or (label, "is not rendered to a text")
                continue
            try:
                tree = parse(text)
            except (ValueError, IndexError) as e_:
                bad = bad or (label, "renders as %r, which is not a boolean expression (%s)" % (text, e_))
                continue
            names = [atoms[h] for _, _, h in entries]
            for vals in itertools.product([False, True], repeat=k):
                env = dict(zip(names, vals))
                if ev(tree, env) != semantics(entries, env):
                    bad = bad or (label, "renders as %r, which differs from the filter for %s" % (text, {a: int(v) for a, v in env.items()}))
                    break
    chk.require(bad is None, P_("filter-rendering"), fi.qualname, "%d filter structures of 1..%d entries" % (n, maxn), where,
                "the rendered expression is equivalent to the filter bytes for every arrangement of OR-continuation and negation bits", "filter %s %s" % bad if bad else "")


def filter_rules(prog, chk, pid):
    P_ = lambda s: "%s.%s" % (pid, s)
    fi = prog.func(BF3 + ".pfid2_filter_to_str")
    ex = Exec(prog, policy=lambda e, f, d: False)
    res = ex.run(fi)
    where = "%s:%d" % (fi.file, fi.lineno)
    gs = [g for g in res.events if g.kind == "guard" and g.d.get("term") == "raise"]
    okg = False
    first_guard = None
    for g in gs:
        ds = disjuncts(raise_rel(g))
        a = any(d[0] == "rel" and d[1] == "Lt" and unsnap(d[2]).op == "len" and is_const(d[3]) and cval(d[3]) == 2 for d in ds)
        b = any(d[0] == "rel" and d[1] == "NotEq" and any(is_const(x) and cval(x) == 1 for x in (d[2], d[3])) and any(unsnap(x).op == "sub" for x in (d[2], d[3])) for d in ds)
        c = any(d[0] == "rel" and d[1] == "NotEq" and any(unsnap(x).op == "len" for x in (d[2], d[3])) for d in ds)
        if a and b and c:
            okg = True
            first_guard = g
    rets = [e for e in res.events if e.kind == "return" and e.stack == (fi.qualname,)]
    okg = okg and all(dominates(first_guard, r) for r in rets)
    # short-circuit order: the length test precedes the subscripts inside the same condition
    subs = [e for e in res.events if e.kind == "subscript" and unsnap(e.d["base"]).op == "param"]
    oko = True
    for s in subs:
        protected = any(f[0] == "if" and f[2] is False and "len(" in show(f[1], 3) and "< 2" in show(f[1], 3) for f in s.ctx) or (first_guard is not None and s.uid > first_guard.uid)
        if not protected:
            oko = False
    chk.require(okg and oko, P_("filter-shape-guard"), fi.qualname, "len < 2 or f[0] != 1 or 2 + 2*f[1] != len -> raise (length test first)", first_guard.where if first_guard else where, "a malformed filter is rejected before its bytes are indexed", "the shape guard is missing / does not precede the indexing of the filter")


def run(prog, chk, tier):
    chk.explanation = ("bf2_unpack_payload's loop is executed once symbolically; for every assignment of its branch conditions the payload read from the line must be consumed "
                       "(appended to the run being assembled) -- a must-use rule over all paths; the three conversions are interpreted in the layout domain; the rejection "
                       "guards are located by relational normal form and must dominate the use they protect; the tag-type tables must agree with each other and with the "
                       "pinned domain table; exec_bf2instrs' stores are grouped by the instruction test that encloses them. Execution on concrete BF2 images is not performed.")
    from rules import state as _state

    _state.library_state_rules(prog, chk, "C13")
    line_parser_rules(prog, chk, "C13")
    unpack_rules(prog, chk, "C13")
    stackrt.guarded(chk, "C13.import-scenarios", import_scenarios, prog, chk, "C13", tier)
    convert_rules(prog, chk, "C13")
    rejection_rules(prog, chk, "C13")
    table_rules(prog, chk, "C13")
    instr_rules(prog, chk, "C13")
    filter_rules(prog, chk, "C13")
    stackrt.guarded(chk, "C13.filter-rendering", filter_render_scenarios, prog, chk, "C13", tier)
