"""A parameter that may be any iterable (annotated Iterable[...] / Iterator[...], or not annotated at all) can be traversed once only: a generator, a map / filter
object or an open iterator is empty the second time, silently.  Rule `iterable-consumed-once`: on no path through a function of the library is such a parameter
-- or a local bound to a one-shot iterator (filter / map / zip / iter / reversed / a generator expression) -- consumed more than once, where consuming is: a `for`
over it, a comprehension over it, a traversing builtin (all, any, sum, list, tuple, sorted, min, max, set, dict, bytes, join), or passing it to a function of the
library that consumes the corresponding parameter (summaries by simple name, fixpoint).  A consumption inside a loop counts as many.  Rebinding the name to a
materialised copy first (x = list(x) / tuple(x) / sorted(x)) ends the obligation.  Paths: sequence adds, if / else takes the maximum, a branch that ends in
return / raise does not reach what follows."""
from __future__ import annotations

import ast
from typing import Dict, List, Optional, Tuple

from bfsa.load import AnalysisError

TRAVERSING = {"all", "any", "sum", "list", "tuple", "sorted", "min", "max", "set", "frozenset", "dict", "bytes", "bytearray", "reversed"}
ONE_SHOT_MAKERS = {"filter", "map", "zip", "iter", "reversed", "enumerate"}
CONCRETE = {"bytes", "bytearray", "str", "list", "tuple", "dict", "set", "frozenset", "int", "bool", "List", "Tuple", "Dict", "Set", "Sequence", "Mapping", "ConfDict", "memoryview", "Optional[bytes]"}

_SAMPLE = '''
def once(xs):
    return [x for x in xs]
def twice(xs):
    if not all(x for x in xs):
        raise ValueError()
    return once(xs)
def branches(xs, flag):
    if flag:
        return list(xs)
    return tuple(xs)
def looped(xs, n):
    for i in range(n):
        once(xs)
def local_one_shot(items):
    it = filter(None, items)
    a = list(it)
    b = list(it)
    return a, b
def materialised(xs):
    xs = list(xs)
    return once(xs), once(xs)
'''


def _name_of(e):
    """the iterated name in N, `N or []`, `N or ()`"""
    if isinstance(e, ast.Name):
        return e.id
    if isinstance(e, ast.BoolOp) and isinstance(e.op, ast.Or) and isinstance(e.values[0], ast.Name):
        return e.values[0].id
    return None


class _Fn:
    def __init__(self, qn, node):
        self.qn, self.node = qn, node
        a = node.args
        self.params = [x.arg for x in a.posonlyargs + a.args]
        self.kwonly = [x.arg for x in a.kwonlyargs]
        self.ann = {x.arg: (ast.unparse(x.annotation) if x.annotation is not None else None) for x in a.posonlyargs + a.args + a.kwonlyargs}
        self.is_method = bool(self.params) and self.params[0] in ("self", "cls")
        self.consumes: set = set()  # parameter names this function consumes (summary)


def _functions(tree, prefix=""):
    for ch in ast.iter_child_nodes(tree):
        if isinstance(ch, (ast.FunctionDef, ast.AsyncFunctionDef)):
            yield _Fn(prefix + ch.name, ch)
            yield from _functions(ch, prefix + ch.name + ".")
        elif isinstance(ch, ast.ClassDef):
            yield from _functions(ch, prefix + ch.name + ".")
        elif not isinstance(ch, ast.Lambda):
            yield from _functions(ch, prefix)


class _Counter:
    def __init__(self, name: str, by_name: Dict[str, List[_Fn]]):
        self.name, self.by_name = name, by_name
        self.sites: List[Tuple[int, str]] = []

    # consumption count of an expression (no control flow inside except conditional expressions, counted as a sum: conservative)
    def expr(self, e) -> int:
        n = 0
        for x in ast.walk(e):
            if isinstance(x, (ast.ListComp, ast.SetComp, ast.DictComp, ast.GeneratorExp)):
                for g in x.generators:
                    if _name_of(g.iter) == self.name:
                        n += 1
                        self.sites.append((x.lineno, "comprehension over %s" % self.name))
            elif isinstance(x, ast.Call):
                fname = x.func.attr if isinstance(x.func, ast.Attribute) else getattr(x.func, "id", None)
                if isinstance(x.func, ast.Name) and fname in TRAVERSING and x.args and _name_of(x.args[0]) == self.name:
                    n += 1
                    self.sites.append((x.lineno, "%s(%s)" % (fname, self.name)))
                elif isinstance(x.func, ast.Attribute) and fname == "join" and x.args and _name_of(x.args[0]) == self.name:
                    n += 1
                    self.sites.append((x.lineno, "join(%s)" % self.name))
                elif fname in self.by_name and not (isinstance(x.func, ast.Name) and fname in TRAVERSING):
                    hit = False
                    for f in self.by_name[fname]:
                        ps = f.params[1:] if (f.is_method and isinstance(x.func, ast.Attribute)) or (f.is_method and fname == "__init__") else f.params
                        for i, a in enumerate(x.args):
                            if _name_of(a) == self.name and i < len(ps) and ps[i] in f.consumes:
                                hit = True
                        for k in x.keywords:
                            if k.arg and _name_of(k.value) == self.name and k.arg in f.consumes:
                                hit = True
                    if hit:
                        n += 1
                        self.sites.append((x.lineno, "%s(... %s ...) consumes it" % (fname, self.name)))
        return n

    def block(self, stmts) -> Tuple[Optional[int], int]:
        cur, term = 0, 0
        for s in stmts:
            f, t = self.stmt(s)
            term = max(term, cur + t)
            if f is None:
                return None, term
            cur += f
        return cur, term

    def stmt(self, s) -> Tuple[Optional[int], int]:
        if isinstance(s, (ast.FunctionDef, ast.AsyncFunctionDef, ast.ClassDef)):
            return 0, 0
        if isinstance(s, ast.Return):
            c = self.expr(s.value) if s.value is not None else 0
            return None, c
        if isinstance(s, ast.Raise):
            c = self.expr(s.exc) if s.exc is not None else 0
            return None, c
        if isinstance(s, ast.If):
            c0 = self.expr(s.test)
            f1, t1 = self.block(s.body)
            f2, t2 = self.block(s.orelse)
            falls = [x for x in (f1, f2) if x is not None]
            return (c0 + max(falls) if falls else None), c0 + max(t1, t2)
        if isinstance(s, (ast.For, ast.AsyncFor)):
            c0 = self.expr(s.iter) + (1 if _name_of(s.iter) == self.name else 0)
            if _name_of(s.iter) == self.name:
                self.sites.append((s.lineno, "for ... in %s" % self.name))
            f, t = self.block(s.body)
            inner = max(f or 0, t)
            fo, to = self.block(s.orelse)
            return c0 + (2 * inner) + (fo or 0), c0 + 2 * inner + to
        if isinstance(s, ast.While):
            c0 = self.expr(s.test)
            f, t = self.block(s.body)
            inner = max(f or 0, t) + c0
            return 2 * inner if inner else 0, 2 * inner if inner else 0
        if isinstance(s, ast.Try):
            f, t = self.block(s.body)
            hs = [self.block(h.body) for h in s.handlers]
            fo, to = self.block(s.orelse)
            ff, tf = self.block(s.finalbody)
            base = (f or 0)
            falls = [base + (fo or 0)] + [base + (hf or 0) for hf, ht in hs]
            terms = [t, base + to] + [base + ht for hf, ht in hs]
            return max(falls) + (ff or 0), max(terms) + tf
        if isinstance(s, (ast.With, ast.AsyncWith)):
            c0 = sum(self.expr(i.context_expr) for i in s.items)
            f, t = self.block(s.body)
            return (None if f is None else c0 + f), c0 + t
        if isinstance(s, ast.Match):
            c0 = self.expr(s.subject)
            arms = [self.block(c.body) for c in s.cases]
            falls = [f for f, t in arms if f is not None] + [0]
            return c0 + max(falls), c0 + max([t for f, t in arms] + [0])
        c = 0
        for ch in ast.iter_child_nodes(s):
            if isinstance(ch, ast.expr):
                c += self.expr(ch)
        return c, 0


def _materialised_first(fn: ast.FunctionDef, name: str) -> bool:
    """the first statement that mentions the name rebinds it to list(name) / tuple(name) / sorted(name) / bytes(name)"""
    for s in fn.body:
        if not any(isinstance(n, ast.Name) and n.id == name for n in ast.walk(s)):
            continue
        if isinstance(s, ast.Assign) and len(s.targets) == 1 and isinstance(s.targets[0], ast.Name) and s.targets[0].id == name:
            v = s.value
            if isinstance(v, ast.Call) and isinstance(v.func, ast.Name) and v.func.id in ("list", "tuple", "sorted", "bytes", "bytearray", "dict") and len(v.args) == 1 and _name_of(v.args[0]) == name:
                return True
        return False
    return False


def analyse(trees: Dict[str, ast.Module]):
    """[(module, function, line, description)] over the given modules"""
    fns: List[Tuple[str, _Fn]] = []
    for mod, tree in trees.items():
        for f in _functions(tree):
            fns.append((mod, f))
    by_name: Dict[str, List[_Fn]] = {}
    for _, f in fns:
        by_name.setdefault(f.node.name, []).append(f)
    # constructor calls are written with the class name
    for mod, tree in trees.items():
        for c in ast.walk(tree):
            if isinstance(c, ast.ClassDef):
                for m in c.body:
                    if isinstance(m, ast.FunctionDef) and m.name == "__init__":
                        by_name.setdefault(c.name, []).extend(f for _, f in fns if f.node is m)
    # summaries: fixpoint
    changed = True
    while changed:
        changed = False
        for _, f in fns:
            for p in f.params + f.kwonly:
                if p in ("self", "cls") or p in f.consumes or _materialised_first(f.node, p):
                    continue
                c = _Counter(p, by_name)
                fall, term = c.block(f.node.body)
                if max(fall or 0, term) >= 1:
                    f.consumes.add(p)
                    changed = True
    out = []
    for mod, f in fns:
        cands = []
        for p in f.params + f.kwonly:
            ann = f.ann.get(p)
            if p in ("self", "cls") or _materialised_first(f.node, p):
                continue
            if ann is not None and not (ann.startswith("Iterable") or ann.startswith("Iterator") or ann.startswith("typing.Itera") or ann.startswith("Optional[Itera")):
                continue
            cands.append(p)
        # locals bound to a one-shot iterator
        for n in ast.walk(f.node):
            if isinstance(n, ast.Assign) and len(n.targets) == 1 and isinstance(n.targets[0], ast.Name):
                v = n.value
                one_shot = isinstance(v, ast.GeneratorExp) or (isinstance(v, ast.Call) and isinstance(v.func, ast.Name) and v.func.id in ONE_SHOT_MAKERS)
                if not one_shot and isinstance(v, ast.Call):
                    cname = v.func.attr if isinstance(v.func, ast.Attribute) else getattr(v.func, "id", None)
                    for g in by_name.get(cname, []):
                        rets = [r for r in ast.walk(g.node) if isinstance(r, ast.Return) and r.value is not None]
                        if rets and all(isinstance(r.value, ast.GeneratorExp) or (isinstance(r.value, ast.Call) and isinstance(r.value.func, ast.Name) and r.value.func.id in ONE_SHOT_MAKERS) for r in rets):
                            one_shot = True
                if one_shot and n.targets[0].id not in cands:
                    cands.append(n.targets[0].id)
        for p in cands:
            c = _Counter(p, by_name)
            fall, term = c.block(f.node.body)
            if max(fall or 0, term) >= 2:
                sites = sorted(set(c.sites))
                out.append((mod, f.qn, sites[0][0] if sites else f.node.lineno, "%s is consumed more than once on a path: %s" % (p, "; ".join("%s (line %d)" % (d, l) for l, d in sites[:4]))))
    return out


def iterable_rules(prog, chk, pid, modules, only=None):
    P = lambda s: "%s.%s" % (pid, s)
    samp = analyse({"sample": ast.parse(_SAMPLE)})
    if sorted(x[1] for x in samp) != ["local_one_shot", "looped", "twice"]:
        raise AnalysisError("the iterable-consumption analysis does not reproduce its sample verdicts (%s)" % (samp,))
    trees = {q: prog.modules[q].tree for q in modules if q in prog.modules}
    if len(trees) < max(1, len(modules) - 1):
        raise AnalysisError("expected the library modules, found %d" % len(trees))
    found = [r for r in analyse(trees) if only is None or only(r[0], r[1])]
    for mod, fn, line, what in found:
        chk.fail(P("iterable-consumed-once"), "%s.%s" % (mod, fn), what.split(":")[0], "%s:%d" % (prog.modules[mod].relpath, line),
                 "%s: with a generator, a map / filter object or an open iterator as the argument the second traversal sees nothing" % what)
    nfn = sum(1 for t in trees.values() for n in ast.walk(t) if isinstance(n, (ast.FunctionDef, ast.AsyncFunctionDef)))
    chk.ok(P("iterable-consumed-once"), "bec2format", "%d functions of %d modules: iterable parameters and one-shot iterators traversed at most once per path" % (nfn, len(trees)), "",
           "no parameter that may be a one-shot iterable, and no local iterator, is traversed twice on any path")
