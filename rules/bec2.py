"""Shared static model of the BEC2 header code (Bec2File.to_binary / pack_auth_blocks / read_file / unpack_auth_blocks)."""
from __future__ import annotations

import json
import os
from typing import Optional

from bfsa.guard import disjuncts, dominates, raise_rel, rel, unsnap
from bfsa.heap import Unsupported
from bfsa.layout import RField, RLoop, RTell, Writer, extract_readers, is_call_named, meth_call, show_reader, show_segs
from bfsa.load import AnalysisError, NotConst
from bfsa.symexec import Exec
from bfsa.terms import C, NONE, Term, cval, is_const, mk, show, subterms

from rules.bf3 import SPEC, _self_attr, canon

BEC2 = "bec2format.bec2file"


def _pol(ex, fi, depth):
    if fi.qualname.endswith("Bec2File.to_binary") or fi.qualname.endswith("Bec2File.pack_auth_blocks"):
        return True
    return False


def header_writer_rules(prog, chk, pid):
    P = lambda s: "%s.%s" % (pid, s)
    fi = prog.func(BEC2 + ".Bec2File.to_binary")
    ex = Exec(prog, policy=_pol)
    res = ex.run(fi)
    where = "%s:%d" % (fi.file, fi.lineno)
    w = Writer(ex)
    try:
        segs = w.flatten(res.ret)
    except Unsupported as u:
        raise AnalysisError("BEC2 header layout not interpretable: %s" % u)
    sig = bytes.fromhex(SPEC["bec2_signature_hex"])
    ok, why = True, ""
    # Const(sig) Repeat[U8 tag, U8 len(raw), raw] Const(0000) B(bf3.to_binary(len(header), session_key))
    if not (len(segs) == 4 and segs[0] == ("const", sig) and segs[1][0] == "repeat" and segs[2] == ("const", b"\x00\x00") and segs[3][0] == "opaque"):
        ok, why = False, "layout is %s; documented: 'BEC2\\0' {U8 tag, U8 len, value}* 00 00 body" % show_segs(segs, 3)
    if ok:
        body = segs[1][2]
        if not (len(body) == 3 and body[0][0] == "int" and body[0][1] == 1 and body[1][0] == "int" and body[1][1] == 1 and body[2][0] == "opaque"):
            ok, why = False, "auth block record is %s, documented U8 tag, U8 len, value" % show_segs(body, 3)
        else:
            ln = unsnap(body[1][2])
            if not (ln.op == "len" and unsnap(ln.args[0]) is unsnap(body[2][1])):
                ok, why = False, "auth block length byte is not len() of the value emitted"
            tag = unsnap(body[0][2])
            val = unsnap(body[2][1])
            mc = meth_call(val)
            if ok and not (tag.op == "attr" and tag.args[1] == "tag" and mc and mc[1] == "pack" and unsnap(mc[0]) is unsnap(tag.args[0])):
                ok, why = False, "tag byte and value do not come from the same auth block (tag %s, value %s)" % (show(tag, 3), show(val, 3))
            it = unsnap(segs[1][3]) if segs[1][3] is not None else None
            imc = meth_call(it) if it is not None else None
            if ok and not (imc and imc[1] == "values" and _self_attr(imc[0], "auth_blocks")):
                ok, why = False, "auth blocks are not emitted by iterating self.auth_blocks.values() in insertion order"
    chk.require(ok, P("bec2-header-framing"), fi.qualname, "'BEC2\\0' {U8 tag U8 len value}* 00 00 body", where, "BEC2 header = signature, TLV auth blocks in insertion order, 00 00 terminator, then the BF3 body", why)
    if ok:
        b = unsnap(segs[3][1])
        mc = meth_call(b)
        ok2 = bool(mc) and mc[1] == "to_binary" and _self_attr(mc[0], "bf3file") and len(mc[2]) == 2
        why2 = "body is %s" % show(b, 4)
        if ok2:
            off, key = unsnap(mc[2][0]), unsnap(mc[2][1])
            hdr_ok = False
            if off.op == "len":
                try:
                    hdr = w.flatten(off.args[0])
                    hdr_ok = canon(show_segs(hdr, 30)) == canon(show_segs(segs[:3], 30))
                except Unsupported:
                    hdr_ok = False
            else:
                # a sum of lengths of the pieces emitted before the body (constant pieces may already be folded to their length)
                leaves, const_len, lin_ok = [], 0, True
                todo = [off]
                while todo and lin_ok:
                    x = unsnap(todo.pop(0))
                    if x.op == "bin" and x.args[0] == "Add":
                        todo[:0] = [x.args[1], x.args[2]]
                    elif x.op == "len":
                        leaves.append(x.args[0])
                    elif is_const(x) and isinstance(cval(x), int) and not isinstance(cval(x), bool) and cval(x) >= 0:
                        const_len += cval(x)
                    else:
                        lin_ok = False
                if lin_ok and leaves:
                    try:
                        rest = [canon(show_segs([sg], 30)) for sg in segs[:3]]
                        kinds = [sg for sg in segs[:3]]
                        for lf in leaves:
                            for sg in w.flatten(lf):
                                c_ = canon(show_segs([sg], 30))
                                if c_ in rest:
                                    i_ = rest.index(c_)
                                    rest.pop(i_)
                                    kinds.pop(i_)
                                else:
                                    lin_ok = False
                        hdr_ok = lin_ok and all(sg[0] == "const" for sg in kinds) and sum(len(sg[1]) for sg in kinds) == const_len
                    except Unsupported:
                        hdr_ok = False
            ok2 = hdr_ok and _self_attr(key, "session_key")
            why2 = "body offset is %s (documented: length of everything emitted before the body) / key %s" % (show(off, 4), show(key, 3))
        chk.require(ok2, P("bec2-body-offset"), fi.qualname, "bf3file.to_binary(len(header), self.session_key)", where, "the BF3 body is serialised with start offset = header length and the file's session key", why2)


# ===================================================================================== auth blocks: pack <-> unpack
from bfsa.layout import builtin_call
from bfsa.length import lin, lin_eq, len_key
from bfsa.guard import dominates
from rules.bf3 import find_guards

OPAQUE = {"cmac", "create_AES128", "hex2bin", "crc8404B", "select_encryptor", "create_public_ecc_key_from_raw_fmt", "generate_private_ecc_key", "create_public_ecc_key_from_der_fmt"}


def pol_blocks(ex, fi, depth):
    if fi.name in OPAQUE:
        return False
    if fi.name in ("encrypt", "decrypt") and depth > 1:
        return False
    return fi.module.name.startswith("bec2format") and depth < 10


def _run(prog, qual, self_cls=None, policy=pol_blocks):
    fi = prog.func(qual)
    ex = Exec(prog, policy=policy)
    res = ex.run(fi, self_cls=self_cls)
    return fi, ex, res


def _is_param(t, name) -> bool:
    t = unsnap(t)
    return t.op == "param" and t.args[0] == name


def _is_param_or_copy(t, name, res=None) -> bool:
    """the parameter, or a materialised copy of it: tuple(p) / list(p) / tuple(p or ()) -- the same elements in the same order"""
    t = unsnap(t)
    if _is_param(t, name):
        return True
    if t.op == "ref" and res is not None and res.state is not None:
        o = res.state.heap.get(t.args[0])
        muts = [e for e in res.events if e.kind == "mutate" and unsnap(e.d["obj"]) is t]
        if o is not None and o.kind in ("list", "tuple") and o.base is not None and not muts:
            b = unsnap(o.base)
            if _is_param(b, name):
                return True
            if b.op == "or" and len(b.args[0]) == 2 and _is_param(b.args[0][0], name):
                e = unsnap(b.args[0][1])
                return (is_const(e) and cval(e) in ((), [])) or e.op == "ref"
        return False
    bc = builtin_call(t)
    if bc and bc[0] in ("tuple", "list") and len(bc[1]) == 1 and not bc[2]:
        a = unsnap(bc[1][0])
        if _is_param(a, name):
            return True
        if a.op == "or" and len(a.args[0]) == 2 and _is_param(a.args[0][0], name):
            e = unsnap(a.args[0][1])
            return is_const(e) and cval(e) in ((), []) or (e.op == "ref")
    return False


def _enc_call(res, name):
    """the single <selected encryptor>.encrypt/decrypt(...) event at top level"""
    evs = [e for e in res.events if e.kind == "mcall" and e.d["name"] == name and len(e.stack) == 1]
    return evs[0] if len(evs) == 1 else None


def _selected(t: Term, cls_name: str) -> bool:
    t = unsnap(t)
    return is_call_named(t, "select_encryptor") and t.args[1] and unsnap(t.args[1][0]).op == "class" and unsnap(t.args[1][0]).args[0].endswith("." + cls_name)


def block_rules(prog, chk, pid, want=None):
    P = lambda s: "%s.%s" % (pid, s)
    W = lambda s: want is None or s in want
    try:
        key_size = prog.fold_class_attr(prog.cls("bec2format.crypto.AES128"), "KEY_SIZE")
        block_size = prog.fold_class_attr(prog.cls("bec2format.crypto.AES128"), "BLOCK_SIZE")
    except NotConst:
        raise AnalysisError("AES128.KEY_SIZE/BLOCK_SIZE not constant")
    # ------------------------------------------------------------ InitCustKey
    if W("custkey"):
        fi, ex, res = _run(prog, BEC2 + ".InitCustKeyAuthBlock.pack")
        where = "%s:%d" % (fi.file, fi.lineno)
        e = _enc_call(res, "encrypt")
        ok, why = e is not None and unsnap(res.ret) is unsnap(e.d["result"]) and _selected(e.d["recv"], "InitCustKeyAuthBlock"), "pack does not return <selected CustKeyEncryptor>.encrypt(...)"
        if ok:
            segs = Writer(ex).flatten(e.d["args"][0])
            ok = len(segs) == 2 and segs[0] == ("const", bytes(10)) and segs[1][0] == "opaque" and _is_param(segs[1][1], "session_key")
            why = "wrapped plaintext is %s, documented 10-byte zero placeholder followed by the session key" % show_segs(segs, 3)
        chk.require(ok, P("custkey-pack"), fi.qualname, "encrypt(Zeros10 + session_key)", where, "customer-key block wraps placeholder(10) || session key", why)
        fi, ex, res = _run(prog, BEC2 + ".InitCustKeyAuthBlock.unpack")
        where = "%s:%d" % (fi.file, fi.lineno)
        d = _enc_call(res, "decrypt")
        ret = unsnap(res.ret) if res.ret is not None else None
        ok = d is not None and ret is not None and ret.op == "tuple" and len(ret.args[0]) == 2 and _selected(d.d["recv"], "InitCustKeyAuthBlock") and _is_param(d.d["args"][0], "raw")
        why = "unpack does not decrypt its raw argument with the selected encryptor"
        if ok:
            k = unsnap(ret.args[0][1])
            ok = k.op == "slice" and unsnap(k.args[0]) is unsnap(d.d["result"]) and is_const(k.args[1]) and cval(k.args[1]) == -key_size and k.args[2] is NONE and k.args[3] is NONE
            why = "session key is taken as %s, documented the last %d bytes of the decrypted block" % (show(k, 4), key_size)
            o = ex.obj(res.state, ret.args[0][0])
            ok = ok and o is not None and o.cls is not None and o.cls.name == "InitCustKeyAuthBlock"
        chk.require(ok, P("custkey-unpack"), fi.qualname, "decrypt(raw)[-16:]", where, "inverse of pack: the session key is the last KEY_SIZE bytes (the segment pack appends last)", why)
    # ------------------------------------------------------------ Update
    if W("update"):
        fi, ex, res = _run(prog, BEC2 + ".UpdateAuthBlock.pack")
        where = "%s:%d" % (fi.file, fi.lineno)
        e = _enc_call(res, "encrypt")
        ok, why = e is not None and unsnap(res.ret) is unsnap(e.d["result"]) and _selected(e.d["recv"], "UpdateAuthBlock"), "pack does not return <selected encryptor>.encrypt(...)"
        if ok:
            segs = Writer(ex).flatten(e.d["args"][0])
            ok = len(segs) == 2 and segs[0][0] == "opaque" and _is_param(segs[0][1], "session_key") and segs[1][0] == "int" and segs[1][1] == 1 and _self_attr(segs[1][2], "version")
            why = "wrapped plaintext is %s, documented session key followed by the 1-byte version" % show_segs(segs, 3)
        if ok:
            sel = unsnap(e.d["recv"])
            fb = sel.args[1][2] if len(sel.args[1]) > 2 else dict(sel.args[2]).get("fallback_encryptor")
            o = ex.obj(res.state, fb) if fb is not None else None
            ok = o is not None and o.cls is not None and o.cls.name == "ConfigSecurityCodeEncryptor" and _self_attr(o.attrs.get("config_security_code", NONE), "config_security_code")
            why = "default encryptor is not ConfigSecurityCodeEncryptor(self.config_security_code)"
        chk.require(ok, P("update-pack"), fi.qualname, "encrypt(session_key + U8(version)) under the security code", where, "update block wraps session key || version with the security-code encryptor", why)
        fi, ex, res = _run(prog, BEC2 + ".UpdateAuthBlock.unpack")
        where = "%s:%d" % (fi.file, fi.lineno)
        d = _enc_call(res, "decrypt")
        rds = [r for r in extract_readers(ex, res.events).values() if r.raw is not None]
        ret = unsnap(res.ret) if res.ret is not None else None
        ok = d is not None and len(rds) == 1 and unsnap(rds[0].raw) is unsnap(d.d["result"]) and ret is not None and ret.op == "tuple" and len(ret.args[0]) == 2 and _is_param(d.d["args"][0], "raw")
        why = "unpack does not parse decrypt(raw) through one reader"
        if ok:
            fl = rds[0].fields()
            ok = len(fl) == 2 and is_const(fl[0].size) and cval(fl[0].size) == key_size and is_const(fl[1].size) and cval(fl[1].size) == 1 and bool(fl[1].int_views) and unsnap(ret.args[0][1]) is unsnap(fl[0].result)
            why = "decrypted block is read as %s, documented B(16) key, U8 version" % show_reader(rds[0])
            if ok:
                o = ex.obj(res.state, ret.args[0][0])
                ok = o is not None and o.cls is not None and o.cls.name == "UpdateAuthBlock" and any(unsnap(o.attrs.get("version", NONE)) is v for v in fl[1].int_views)
                csc = unsnap(o.attrs.get("config_security_code", NONE)) if o is not None else NONE
                ok = ok and csc.op == "attr" and csc.args[1] == "config_security_code" and unsnap(csc.args[0]) is unsnap(d.d["recv"])
                why = "reconstructed block does not carry the version read and the decryptor's security code"
        chk.require(ok, P("update-unpack"), fi.qualname, "read(16) -> key; read(1) -> version", where, "inverse of pack; version and security code reach the attributes pack reads", why)
    # ------------------------------------------------------------ InitEcc
    if W("ecc"):
        fi, ex, res = _run(prog, BEC2 + ".InitEccAuthBlock.pack")
        where = "%s:%d" % (fi.file, fi.lineno)
        e = _enc_call(res, "encrypt")
        ok, why = e is not None and _selected(e.d["recv"], "InitEccAuthBlock"), "pack does not use the selected ECC encryptor"
        if ok:
            segs = Writer(ex).flatten(res.ret)
            ok = len(segs) == 2 and segs[0][0] == "int" and segs[0][1] == 1 and _self_attr(segs[0][2], "key_selector") and segs[1][0] == "opaque" and unsnap(segs[1][1]) is unsnap(e.d["result"]) and _is_param(e.d["args"][0], "session_key")
            why = "block is %s, documented U8 key selector followed by encrypt(session_key)" % show_segs(segs, 3)
        chk.require(ok, P("ecc-pack"), fi.qualname, "U8(key_selector) + encryptor.encrypt(session_key)", where, "ECC block = selector byte || ECIES wrapping of the session key", why)
        fi, ex, res = _run(prog, BEC2 + ".InitEccAuthBlock.unpack")
        where = "%s:%d" % (fi.file, fi.lineno)
        d = _enc_call(res, "decrypt")
        ret = unsnap(res.ret) if res.ret is not None else None
        ok = d is not None and ret is not None and ret.op == "tuple" and len(ret.args[0]) == 2 and unsnap(ret.args[0][1]) is unsnap(d.d["result"])
        why = "unpack does not return the decrypted session key"
        if ok:
            a = unsnap(d.d["args"][0])
            ok = a.op == "slice" and _is_param(a.args[0], "raw") and is_const(a.args[1]) and cval(a.args[1]) == 1 and a.args[2] is NONE
            o = ex.obj(res.state, ret.args[0][0])
            ks = unsnap(o.attrs.get("key_selector", NONE)) if o is not None else NONE
            ok = ok and ks.op == "sub" and _is_param(ks.args[0], "raw") and is_const(ks.args[1]) and cval(ks.args[1]) == 0
            why = "unpack does not split raw into selector raw[0] and wrapped key raw[1:]"
        chk.require(ok, P("ecc-unpack"), fi.qualname, "selector = raw[0]; key = decrypt(raw[1:])", where, "inverse of pack; selector reaches the attribute pack reads", why)


def ecies_rules(prog, chk, pid):
    """EccEncryptor.encrypt / EccDecryptor.decrypt: 04 || X||Y (64) || AES-CBC_k(session key), k = SHA-256(ECDH x)[:16]"""
    P = lambda s: "%s.%s" % (pid, s)
    fi, ex, res = _run(prog, BEC2 + ".EccEncryptor.encrypt")
    where = "%s:%d" % (fi.file, fi.lineno)
    segs = Writer(ex).flatten(res.ret)
    ok = len(segs) == 3 and segs[0] == ("const", b"\x04") and segs[1][0] == "opaque" and segs[2][0] == "opaque"
    why = "block is %s, documented 04 || raw public point || AES(session key)" % show_segs(segs, 3)
    gen = [e for e in res.events if e.kind == "call" and e.d["callee"].name == "generate_private_ecc_key"]
    if ok:
        pub = meth_call(unsnap(segs[1][1]))
        ok = len(gen) == 1 and bool(pub) and pub[1] == "to_raw_bin_fmt" and unsnap(pub[0]).op == "attr" and unsnap(pub[0]).args[1] == "public_key" and unsnap(unsnap(pub[0]).args[0]) is unsnap(gen[0].d["result"])
        why = "emitted point is not the public key of the freshly generated ephemeral key"
    if ok:
        enc = meth_call(unsnap(segs[2][1]))
        ok = bool(enc) and enc[1] == "encrypt" and len(enc[2]) == 1 and _is_param(enc[2][0], "plaintext") and _kdf_ok(unsnap(enc[0]), unsnap(gen[0].d["result"]), lambda t: _self_attr(t, "public_key"))
        why = "AES key is not SHA-256(ephemeral.compute_dh_secret(self.public_key))[:16] with default IV"
    chk.require(ok, P("ecies-encrypt"), fi.qualname, "04 || ephemeral.public_key.raw || AES_k(plaintext), k = sha256(dh(ephemeral, recipient))[:16]", where, "ECIES wrapping as documented", why)
    rets = [e for e in res.events if e.kind == "return" and e.stack == (fi.qualname,)]
    okg = len(gen) == 1 and all(dominates(gen[0], r) for r in rets)
    stores = [e for e in res.events if e.kind in ("setattr", "gstore", "clsstore") and len(e.stack) == 1]
    chk.require(okg and not stores, P("ephemeral-per-call"), fi.qualname, "generate_private_ecc_key() on every path, result not stored", where, "a new ephemeral key pair is generated by every encrypt call and kept in a local only", "ephemeral key is not generated on every path or is cached (%s)" % (stores[0].d.get("name") if stores else ""))
    # ---- decrypt
    fi, ex, res = _run(prog, BEC2 + ".EccDecryptor.decrypt")
    where = "%s:%d" % (fi.file, fi.lineno)
    rds = [r for r in extract_readers(ex, res.events).values() if r.raw is not None and _is_param(r.raw, "ciphertext")]
    ok, why = len(rds) == 1, "ciphertext is not parsed through one reader"
    if ok:
        fl = rds[0].fields()
        ok = len(fl) == 3 and [cval(f.size) if is_const(f.size) else None for f in fl] == [1, 64, 16]
        why = "block is read as %s, documented B(1) B(64) B(16)" % show_reader(rds[0])
    rets = [e for e in res.events if e.kind == "return" and e.stack == (fi.qualname,)]
    if ok:
        gs = find_guards(res.events, lambda op, a, b: op == "NotEq" and any(unsnap(x) is unsnap(fl[0].result) and is_const(y) and cval(y) == b"\x04" for x, y in ((a, b), (b, a))))
        ok = bool(gs) and all(dominates(gs[0], r) for r in rets)
        why = "a block whose point marker is not 0x04 is not rejected"
    if ok:
        pk = [e for e in res.events if e.kind == "call" and e.d["callee"].name == "create_public_ecc_key_from_raw_fmt"]
        ok = len(pk) == 1 and unsnap(pk[0].d["args"][0]) is unsnap(fl[1].result)
        why = "ephemeral public key is not built from the 64 bytes read"
    if ok:
        dec = meth_call(unsnap(res.ret))
        ok = bool(dec) and dec[1] == "decrypt" and len(dec[2]) == 1 and unsnap(dec[2][0]) is unsnap(fl[2].result) and _kdf_ok(unsnap(dec[0]), None, lambda t: unsnap(t) is unsnap(pk[0].d["result"]), priv_pred=lambda t: _self_attr(t, "private_key"))
        why = "AES key is not SHA-256(self.private_key.compute_dh_secret(ephemeral public key))[:16], or the decrypted field is not the 16 bytes read"
    chk.require(ok, P("ecies-decrypt"), fi.qualname, "read 04, X||Y(64), C(16); k = sha256(dh(private, ephemeral))[:16]; AES_k^-1(C)", where, "inverse of the ECIES wrapping with roles swapped", why)


def _kdf_ok(cipher: Term, priv: Optional[Term], pub_pred, priv_pred=None) -> bool:
    """cipher == create_AES128(sha256(<priv>.compute_dh_secret(<pub>)).digest()[:16])  (iv default)"""
    if not is_call_named(cipher, "create_AES128") or len(cipher.args[1]) != 1 or cipher.args[2]:
        return False
    k = unsnap(cipher.args[1][0])
    if not (k.op == "slice" and k.args[1] is NONE and is_const(k.args[2]) and cval(k.args[2]) == 16 and k.args[3] is NONE):
        return False
    d = meth_call(unsnap(k.args[0]))
    if not (d and d[1] == "digest" and not d[2]):
        return False
    h = unsnap(d[0])
    if not (h.op == "call" and isinstance(h.args[0], Term) and h.args[0].op == "ext" and h.args[0].args[0] == "hashlib.sha256" and len(h.args[1]) == 1):
        return False
    dh = meth_call(unsnap(h.args[1][0]))
    if not (dh and dh[1] == "compute_dh_secret" and len(dh[2]) == 1 and pub_pred(dh[2][0])):
        return False
    if priv is not None and unsnap(dh[0]) is not priv:
        return False
    if priv_pred is not None and not priv_pred(dh[0]):
        return False
    return True


# ===================================================================================== header reader / key flow (C02, C07)
def pol_read(ex, fi, depth):
    if fi.name in ("cmac", "create_AES128", "hex2bin", "from_binary", "parse_bf3_file"):
        return False
    return fi.module.name.startswith("bec2format") and depth < 10


def header_reader_rules(prog, chk, pid):
    P = lambda s: "%s.%s" % (pid, s)
    fi, ex, res = _run(prog, BEC2 + ".Bec2File.read_file", policy=pol_read)
    where = "%s:%d" % (fi.file, fi.lineno)
    rds = [r for r in extract_readers(ex, res.events).values() if r.fields()]
    rets = [e for e in res.events if e.kind == "return" and e.stack == (fi.qualname,)]
    if len(rds) != 1:
        raise AnalysisError("Bec2File.read_file: cannot identify the file-level reader (%d candidates)" % len(rds))
    rd = rds[0]
    items = [x for x in rd.items if not isinstance(x, RTell)]
    sig = bytes.fromhex(SPEC["bec2_signature_hex"])
    ok = len(items) == 2 and isinstance(items[0], RField) and isinstance(items[1], RLoop)
    why = "header is read as %s; documented B(5) signature then {U8 tag, U8 len, value}* until 00 00" % show_reader(rd)
    tagf = lenf = valf = None
    if ok:
        sf = items[0]
        gs = find_guards(res.events, lambda op, a, b: op == "NotEq" and any(unsnap(x) is unsnap(sf.result) and is_const(y) and cval(y) == sig for x, y in ((a, b), (b, a))))
        ok = is_const(sf.size) and cval(sf.size) == len(sig) and bool(gs) and all(dominates(gs[0], r) for r in rets)
        why = "a wrong BEC2 signature is not rejected on every accepting path"
        chk.require(ok, P("bec2-signature-guard"), fi.qualname, "read(5) != b'BEC2\\0' -> raise", gs[0].where if gs else where, "BEC2 signature is compared and enforced", why)
        body = [x for x in items[1].items if isinstance(x, RField)]
        lr = ex.loops[items[1].lid]
        ok = len(body) == 3 and all(is_const(body[i].size) and cval(body[i].size) == 1 and body[i].int_views for i in (0, 1))
        why = "auth block record is read as %s" % show_reader(rd)
        if ok:
            tagf, lenf, valf = body
            ok = any(unsnap(valf.size) is v for v in lenf.int_views)
            why = "value is not read with the length byte just read"
        if ok:
            # exit: exactly when tag == 0 and len == 0 (break guard), after the (empty) value was read
            # (`return` inside a generator that produces the records ends the header just like `break` in an inline loop)
            brk = [g for g in res.events if g.kind == "guard" and any(f[0] == "loop" and f[1] == items[1].lid for f in g.ctx)
                   and (g.d.get("term") == "break" or (g.d.get("term") == "return" and g.fn is not None and getattr(g.fn, "is_generator", False)))]
            ok = len(brk) == 1 and len(lr.breaks) == (1 if brk[0].d.get("term") == "break" else 0)
            if ok:
                r = raise_rel(brk[0])
                want_atoms = 0
                other = 0
                if r[0] == "and" and len(r[1]) >= 2:
                    for a in r[1]:
                        hit = False
                        if a[0] == "rel" and a[1] == "Falsy" and (any(unsnap(a[2]) is v for v in tagf.int_views) or any(unsnap(a[2]) is v for v in lenf.int_views)):
                            # `not (tag or len)`: an int is falsy exactly when it is 0
                            want_atoms += 1
                            hit = True
                        if a[0] == "rel" and a[1] == "Eq":
                            for x, y in ((a[2], a[3]), (a[3], a[2])):
                                if is_const(y) and cval(y) == 0 and not isinstance(cval(y), bool) and (any(x is v for v in tagf.int_views) or any(x is v for v in lenf.int_views)):
                                    want_atoms += 1
                                    hit = True
                                # (tag, len, value) == (0, 0, b""): the value read with length 0 is empty anyway
                                elif is_const(y) and cval(y) == b"" and unsnap(x) is unsnap(valf.result):
                                    hit = True
                        if not hit:
                            other += 1
                ok = want_atoms == 2 and other == 0
                if not ok and r[0] == "rel" and r[1] == "Eq":
                    # (tag | len) == 0, tag + len == 0: for two bytes (0..255 each) the OR / the sum is zero exactly when both are
                    for x, y in ((r[2], r[3]), (r[3], r[2])):
                        x = unsnap(x)
                        if is_const(y) and cval(y) == 0 and not isinstance(cval(y), bool) and x.op == "bin" and x.args[0] in ("BitOr", "Add"):
                            l_, r_ = unsnap(x.args[1]), unsnap(x.args[2])
                            both = lambda p_, q_: any(p_ is v for v in tagf.int_views) and any(q_ is v for v in lenf.int_views)
                            if both(l_, r_) or both(r_, l_):
                                ok = True
            why = "header loop does not stop exactly at the 00 00 terminator"
    chk.require(ok, P("header-grammar"), fi.qualname, show_reader(rd), where, "BEC2 header is parsed as TLV records (U8 tag, U8 len, value[len]) until tag = len = 0", why)
    return (fi, ex, res, rd, tagf, lenf, valf) if ok else None


def key_flow_rules(prog, chk, pid, hdr=None):
    """C07: common-key guard, unknown-block identity, key passed on to the body parser; C02: no key -> error"""
    P = lambda s: "%s.%s" % (pid, s)
    if hdr is None:
        return
    fi, ex, res, rd, tagf, lenf, valf = hdr
    where = "%s:%d" % (fi.file, fi.lineno)
    ev = res.events
    # dispatch: AUTH_BLOCK_CLS_MAP[tag].unpack(value, ext_encryptors)
    unp = [e for e in ev if e.kind == "dyncall" and meth_call(unsnap(e.d["result"])) is None and unsnap(e.d["fnterm"]).op == "attr" and unsnap(e.d["fnterm"]).args[1] == "unpack"]
    if not unp:
        unp = [e for e in ev if e.kind in ("dyncall", "mcall") and (e.d.get("name") == "unpack" or (e.kind == "dyncall" and unsnap(e.d["fnterm"]).op == "attr" and unsnap(e.d["fnterm"]).args[1] == "unpack"))]
    ok = len(unp) == 1
    why = "no single dispatch <block class for tag>.unpack(value, ext_encryptors)"
    sess = None
    via_get = None
    if ok:
        u = unp[0]
        recv = unsnap(u.d["fnterm"]).args[0] if u.kind == "dyncall" else u.d["recv"]
        recv = unsnap(recv)
        # (the tag / value may have travelled through a sequence of records -- e.g. a generator that yields them -- before being used: element views are looked through)
        from rules.bf3 import strip_elem as _se

        # AUTH_BLOCK_CLS_MAP.get(tag), used only where it is known not to be None, selects the same class as AUTH_BLOCK_CLS_MAP[tag]
        get_ = meth_call(recv)
        if get_ and get_[1] == "get" and 1 <= len(get_[2]) <= 2 and (len(get_[2]) == 1 or unsnap(get_[2][1]) is NONE) and not (get_[3] if len(get_) > 3 else None):
            if any(pol is False and rel(c, True)[0] == "rel" and rel(c, True)[1] == "Is" and {id(unsnap(rel(c, True)[2])), id(unsnap(rel(c, True)[3]))} == {id(recv), id(NONE)} for (c, pol) in u.facts):
                via_get = recv
                recv = mk("sub", get_[0], get_[2][0])
        ok = recv.op == "sub" and unsnap(recv.args[0]).op == "static" and unsnap(recv.args[0]).args[0].endswith("AUTH_BLOCK_CLS_MAP") and any(_se(recv.args[1]) is unsnap(v) for v in tagf.int_views)
        a = u.d["args"]
        ok = ok and len(a) == 2 and _se(a[0]) is unsnap(valf.result) and _is_param_or_copy(a[1], "ext_encryptors", res)
        why = "block class is not selected by the tag read, or unpack does not receive the value read and the caller's decryptors"
        table = ex.statics.get(unsnap(recv.args[0]).args[0]) if ok else None
        if ok:
            names = {k: v.args[0].split(".")[-1] for k, v in table.items()}
            ok = names == {1: "InitCustKeyAuthBlock", 3: "InitEccAuthBlock", 2: "UpdateAuthBlock"}
            why = "tag -> block class table is %s" % names
    chk.require(ok, P("block-dispatch"), fi.qualname, "AUTH_BLOCK_CLS_MAP[tag].unpack(value, ext_encryptors)", unp[0].where if unp else where, "each block is unpacked by the class registered for its tag (01 customer key, 02 update, 03 ECC)", why)
    if not ok:
        return
    result = unsnap(unp[0].d["result"])
    key_t = [t for t in (mk("sub", result, C(1)),)]
    # ---- disagreement guard
    def is_key(x):
        """x is the key the block unwrapped to -- possibly merged with the None that stands for "this block could not be opened" (then the comparison is only reached
        for the unwrapped key: None is compared with nothing, the guard's own conditions or an earlier `continue` see to that)"""
        x = unsnap(x)
        if x is key_t[0]:
            return True
        if x.op == "phi":
            arms = [unsnap(x.args[1]), unsnap(x.args[2])]
            return any(is_key(a_) for a_ in arms) and all(is_key(a_) or a_ is NONE for a_ in arms)
        return False

    def pred(op, a, b):
        return op == "NotEq" and any(is_key(x) and unsnap(y).op == "loopvar" for x, y in ((a, b), (b, a)))

    gs = find_guards(ev, pred, allow_extra=True)
    okg = False
    whyg = "no guard raises when a block unwraps to a key different from the one seen so far"
    for g in gs:
        common = None
        for d in disjuncts(raise_rel(g)):
            for a in (d[1] if d[0] == "and" else [d]):
                if a[0] == "rel" and a[1] == "NotEq":
                    for x, y in ((a[2], a[3]), (a[3], a[2])):
                        if is_key(x) and unsnap(y).op == "loopvar":
                            common = unsnap(y)
                            key_seen = unsnap(x)
        if common is None:
            continue
        extras = g.d.get("extra", [])
        ok_extra = all(x[0] == "rel" and x[1] == "IsNot" and ((unsnap(x[2]) is common and x[3] is NONE) or (unsnap(x[3]) is common and x[2] is NONE)) for x in extras)
        lr = ex.loops[common.args[0]]
        nxt = lr.next.get(common.args[1])
        init = lr.init.get(common.args[1])
        # the carried key is updated from the unwrapped key (after the comparison) and starts as None
        upd_ok = nxt is not None and any(unsnap(t) is key_t[0] for t in __import__("bfsa.terms", fromlist=["subterms"]).subterms(nxt)) and init is NONE
        # frames: only "unwrapped key is not None" may condition the guard
        conds = [f for f in g.ctx if f[0] == "if" and not any(l.cond is f[1] for l in ex.loops.values())]
        cond_ok = all(_is_not_none_test(f, key_t[0]) or _is_not_none_test(f, key_seen) or _is_not_none_test(f, common) for f in conds)
        if ok_extra and upd_ok and cond_ok:
            okg = True
            break
        whyg = "key-disagreement guard is weakened (extra conditions, or the carried key is not updated from the unwrapped key)"
    chk.require(okg, P("same-key-guard"), fi.qualname, "session_key != common_session_key (and common is not None) -> raise", gs[0].where if gs else where, "a header whose blocks unwrap to different session keys is rejected, for every pair of blocks", whyg)
    # ---- unknown blocks keep tag and bytes
    news = [e for e in ev if e.kind == "new" and e.d["cls"].name == "UnknownAuthBlock"]
    oku = len(news) == (2 if via_get is not None else 1)
    if oku:
        from rules.bf3 import strip_elem as _se2

        in_except = in_none = 0
        for nw in news:
            a = nw.d["args"]
            oku = oku and len(a) == 2 and any(_se2(a[0]) is unsnap(v) for v in tagf.int_views) and _se2(a[1]) is unsnap(valf.result)
            if any(f[0] == "except" and "KeyError" in f[3] for f in nw.ctx):
                in_except += 1
            elif via_get is not None and any(f[0] == "if" and f[2] and rel(f[1], True)[0] == "rel" and rel(f[1], True)[1] == "Is" and {id(unsnap(rel(f[1], True)[2])), id(unsnap(rel(f[1], True)[3]))} == {id(via_get), id(NONE)} for f in nw.ctx):
                in_none += 1  # no class registered for the tag: the table lookup that would have raised KeyError answered None
        oku = oku and in_except == 1 and in_none == (1 if via_get is not None else 0)
    chk.require(oku, P("unknown-block-identity"), fi.qualname, "except KeyError: UnknownAuthBlock(tag, value)", news[0].where if news else where, "a block that cannot be opened is kept with exactly the tag and bytes read", "blocks without decryptor are not preserved as (tag read, bytes read)")
    fu = prog.method(BEC2 + ".UnknownAuthBlock", "pack")
    exu = Exec(prog, policy=lambda e, f, d: False)
    ru = exu.run(fu)
    chk.require(ru.ret is not None and _self_attr(ru.ret, "binary_value"), P("unknown-block-identity"), fu.qualname, "return self.binary_value", "%s:%d" % (fu.file, fu.lineno), "re-packing an unknown block emits its original bytes", "UnknownAuthBlock.pack does not return the stored bytes")
    fi2 = prog.method(BEC2 + ".UnknownAuthBlock", "__init__")
    exi = Exec(prog, policy=lambda e, f, d: f.module.name.startswith("bec2format"))
    ri = exi.run(fi2)
    sets = {e.d["name"]: unsnap(e.d["value"]) for e in ri.events if e.kind == "setattr"}
    tag = sets.get("tag")
    tag_ok = tag is not None and (_is_param(tag, "tag") or (tag.op == "or" and is_const(tag.args[0][0]) is False and _is_param(tag.args[0][-1], "tag")) or (tag.op == "or" and _is_param(tag.args[0][-1], "tag")))
    chk.require(tag_ok and "binary_value" in sets and _is_param(sets["binary_value"], "binary_value"), P("unknown-block-identity"), fi2.qualname, "self.tag = tag; self.binary_value = binary_value", "%s:%d" % (fi2.file, fi2.lineno), "constructor keeps tag and bytes unchanged", "UnknownAuthBlock does not keep its tag / bytes unchanged")
    # ---- no key -> error ; key and check_cmac passed on
    fb = [e for e in ev if e.kind == "call" and e.d["callee"].name == "from_binary"]
    okn = len(fb) == 1
    whyn = "body is not parsed by exactly one Bf3File.from_binary call"
    if okn:
        a = [x for x in fb[0].d["args"] if unsnap(x).op != "class"]
        kw = fb[0].d["kwargs"]
        key = a[3] if len(a) > 3 else kw.get("session_key")
        cc = a[2] if len(a) > 2 else kw.get("check_cmac")
        key = unsnap(key) if key is not None else None
        gs = find_guards(ev, lambda op, x, y: op == "Is" and ((unsnap(x) is key and y is NONE) or (unsnap(y) is key and x is NONE)))
        okn = key is not None and key.op in ("loopvar", "loopexit", "phi") and bool(gs) and dominates(gs[0], fb[0]) and cc is not None and _is_param(cc, "check_cmac") and unsnap(a[0]) is rd.term
        whyn = "body parser does not receive the unwrapped common key / check_cmac, or a header without decryptable block is not rejected"
    chk.require(okn, P("key-to-body"), fi.qualname, "session_key is None -> raise; from_binary(raw_rdr, comments, check_cmac, session_key)", fb[0].where if fb else where, "the BF3 body is verified and decrypted with the key the auth blocks unwrap to; no decryptable block is an error", whyn)
    if okn:
        news = [e for e in ev if e.kind == "new" and e.d["cls"].name == "Bec2File" and len(e.stack) == 1]
        okr = len(news) == 1 and len(news[0].d["args"]) == 3 and unsnap(news[0].d["args"][0]) is unsnap(fb[0].d["result"]) and unsnap(news[0].d["args"][2]) is key and unsnap(news[0].d["args"][1]).op == "ref"
        chk.require(okr, P("key-to-body"), fi.qualname, "Bec2File(body, auth_blocks, session_key)", news[0].where if news else where, "the returned object carries the parsed body, the blocks read and the unwrapped key", "returned object is not built from (body, blocks read, unwrapped key)")


def _is_not_none_test(frame, key: Term) -> bool:
    c, pol = frame[1], frame[2]
    r = rel(c, pol)
    return r[0] == "rel" and r[1] == "IsNot" and ((unsnap(r[2]) is key and r[3] is NONE) or (unsnap(r[3]) is key and r[2] is NONE))


def single_key_source_rules(prog, chk, pid):
    """C07.R1/R2/R5"""
    import ast as _ast

    P = lambda s: "%s.%s" % (pid, s)
    # every pack receives self.session_key
    fi = prog.func(BEC2 + ".Bec2File.pack_auth_blocks")
    ex = Exec(prog, policy=lambda e, f, d: False)
    res = ex.run(fi)
    packs = [e for e in res.events if e.kind == "mcall" and e.d["name"] == "pack"]
    ok = len(packs) == 1 and len(packs[0].d["args"]) >= 1 and _self_attr(packs[0].d["args"][0], "session_key") and any(f[0] == "loop" for f in packs[0].ctx)
    chk.require(ok, P("one-key-for-all-blocks"), fi.qualname, "auth_block.pack(self.session_key, ext_encryptors) for every block", "%s:%d" % (fi.file, fi.lineno), "every block wraps the file's session key attribute", "some block is packed with a key other than self.session_key")
    # no store to session_key outside __init__
    cls = prog.cls(BEC2 + ".Bec2File")
    bad = []
    for name, m in cls.methods.items():
        if name == "__init__":
            continue
        for n in _ast.walk(m.node):
            if isinstance(n, _ast.Attribute) and n.attr == "session_key" and isinstance(n.ctx, (_ast.Store, _ast.Del)):
                bad.append("%s:%d" % (m.file, n.lineno))
    chk.require(not bad, P("one-key-for-all-blocks"), cls.qualname, "session_key assigned only in __init__", bad[0] if bad else "", "the key cannot change between the blocks and the body", "session_key is reassigned outside __init__")
    # each pack passes its session_key parameter into encrypt
    for cname in ("InitCustKeyAuthBlock", "InitEccAuthBlock", "UpdateAuthBlock"):
        f2, ex2, r2 = _run(prog, BEC2 + ".%s.pack" % cname)
        e = _enc_call(r2, "encrypt")
        from bfsa.terms import subterms

        okp = e is not None and any(_is_param(t, "session_key") for t in subterms(e.d["args"][0])) and not [x for x in r2.events if x.kind == "extcall" and x.d["name"] in ("os.urandom",)]
        chk.require(okp, P("pack-wraps-given-key"), f2.qualname, "encryptor.encrypt(... session_key ...)", "%s:%d" % (f2.file, f2.lineno), "the key handed to pack is what gets wrapped", "pack does not wrap the session key it was given")
    # freshness: random_bytes(16) evaluated per instance inside __init__
    fi = prog.method(BEC2 + ".Bec2File", "__init__")
    ex = Exec(prog, policy=lambda e, f, d: False)
    res = ex.run(fi)
    where = "%s:%d" % (fi.file, fi.lineno)
    sets = [e for e in res.events if e.kind == "setattr" and e.d["name"] == "session_key"]
    ok = len(sets) == 1
    why = "session_key is not assigned exactly once in __init__"
    if ok:
        v = unsnap(sets[0].d["value"])
        is_rnd = lambda t: is_call_named(unsnap(t), "random_bytes") and [cval(x) for x in unsnap(t).args[1] if is_const(x)] == [16] and len(unsnap(t).args[1]) == 1
        ok = v.op == "or" and len(v.args[0]) == 2 and _is_param(v.args[0][0], "session_key") and is_rnd(v.args[0][1])
        if not ok and v.op == "phi":
            # the same choice spelled as a statement: `if not session_key:` / `if session_key is None:` session_key = random_bytes(16)
            from bfsa.guard import rel as _rel

            cond, a, b = v.args
            for rnd, given, pol in ((a, b, True), (b, a, False)):
                if is_rnd(rnd) and _is_param(unsnap(given), "session_key"):
                    r_ = _rel(cond, pol)
                    if r_[0] == "rel" and _is_param(unsnap(r_[2]), "session_key") and (r_[1] == "Falsy" or (r_[1] in ("Is", "Eq") and r_[3] is not None and is_const(unsnap(r_[3])) and cval(unsnap(r_[3])) is None)):
                        ok = True
        why = "session key is %s, documented `given key or random_bytes(16)` evaluated per instance" % show(v, 4)
        dfl = fi.node.args.defaults
        ok = ok and all(prog.try_fold(fi.module, d, default="<nonconst>") != "<nonconst>" for d in dfl)
    chk.require(ok, P("fresh-key-per-file"), fi.qualname, "self.session_key = session_key or random_bytes(16)", where, "without a given key a 16-byte random key is drawn inside the constructor body (per instance; no default-argument or class-level caching)", why)
    # registered RNG: os.urandom(num_bytes), nothing cached
    ex0 = Exec(prog)
    rb = ex0.registry.get("random_bytes")
    ok = rb is not None and rb.op == "func"
    why = "no random source is registered by the plug-in"
    if ok:
        frb = ex0.fi_of(rb)
        exr = Exec(prog, policy=lambda e, f, d: False)
        rr = exr.run(frb)
        v = unsnap(rr.ret) if rr.ret is not None else None
        ok = v is not None and v.op == "call" and isinstance(v.args[0], Term) and v.args[0].op == "ext" and v.args[0].args[0] == "os.urandom" and len(v.args[1]) == 1 and _is_param(v.args[1][0], frb.params[0])
        ok = ok and not [e for e in rr.events if e.kind in ("gstore", "setattr", "clsstore", "setitem")]
        why = "registered random_bytes is %s, expected os.urandom(num_bytes) without caching" % (show(v, 4) if v is not None else None)
        # crypto.random_bytes forwards to the registered function
        fc = prog.func("bec2format.crypto.random_bytes")
        exc = Exec(prog, policy=lambda e, f, d: False)
        rc = exc.run(fc)
        calls = [e for e in rc.events if e.kind == "call" and e.d["callee"] is frb]
        ok = ok and len(calls) == 1 and unsnap(rc.ret) is unsnap(calls[0].d["result"]) and _is_param(calls[0].d["args"][0], fc.params[0])
    chk.require(ok, P("fresh-key-per-file"), "register_crypto_plugin.random_bytes", "os.urandom(num_bytes), no caching", "", "the registered RNG returns fresh OS randomness of the requested length on every call", why)
    # registered key generator: SigningKey.generate(curve=NIST256p) per call
    gk = ex0.registry.get("PrivateEccKey")
    ok = gk is not None and gk.op == "class"
    why = "no private-key class is registered"
    if ok:
        c = prog.cls(gk.args[0])
        g = c.lookup("generate")
        ok = g is not None and hasattr(g[1], "node")
        if ok:
            exg = Exec(prog, policy=lambda e, f, d: False)
            rg = exg.run(g[1])
            gens = [e for e in rg.events if e.kind == "call" and e.d["callee"].name == "generate"]
            ok = len(gens) == 1 and "entropy" not in gens[0].d["kwargs"] and len([a for a in gens[0].d["args"] if unsnap(a).op != "class"]) == 0 and not [e for e in rg.events if e.kind in ("gstore", "clsstore", "setitem")]
            why = "generate() does not create a new SigningKey from OS entropy on every call (custom entropy / caching)"
    chk.require(ok, P("ephemeral-fresh"), "register_crypto_plugin.PrivateEccKeyProxy.generate", "SigningKey.generate(curve=CURVE) per call, default entropy", "", "every ephemeral key comes from a new SigningKey.generate call with the library's default entropy source", why)


def selector_rules(prog, chk, pid):
    """AuthBlock.select_encryptor: the caller's filter (which reads attributes only the required encryptor class has, e.g.
    key_selector) is applied only to an encryptor that passed the isinstance test; the encryptor returned from the loop passed both"""
    P = lambda s_: "%s.%s" % (pid, s_)
    fi = prog.method(BEC2 + ".AuthBlock", "select_encryptor")
    where = "%s:%d" % (fi.file, fi.lineno)
    ex = Exec(prog, policy=lambda e, f, d: False)
    res = ex.run(fi)
    filt = fi.params[3]

    def mentions_filter(t):
        return any(x.op == "param" and x.args[0] == filt for x in subterms(unsnap(t)))

    def inst_guarded(e, arg):
        """isinstance(arg, <class>) is known to hold where e happens: an enclosing branch condition (possibly one conjunct of it),
        or a path fact (early `continue`, left operand of a short-circuit `and`)"""
        def is_inst(c, pol):
            c = unsnap(c)
            if c.op == "isinst" and unsnap(c.args[0]) is unsnap(arg):
                return pol
            if c.op == "un" and c.args[0] == "Not":
                return is_inst(c.args[1], not pol)
            if c.op == "and" and pol:
                ops = c.args[0] if len(c.args) == 1 and isinstance(c.args[0], tuple) else c.args
                return any(is_inst(x, True) for x in ops if isinstance(x, Term))
            if c.op == "or" and not pol:
                ops = c.args[0] if len(c.args) == 1 and isinstance(c.args[0], tuple) else c.args
                return any(is_inst(x, False) for x in ops if isinstance(x, Term))
            return False

        for f in e.ctx:
            if f[0] == "if" and is_inst(f[1], f[2]):
                return True
            if f[0] in ("andrhs", "and") and len(f) > 1 and isinstance(f[1], Term) and is_inst(f[1], True):
                return True
        for (c, pol) in e.facts:
            if is_inst(c, pol):
                return True
        return False

    calls = [e for e in res.events if e.kind == "dyncall" and mentions_filter(e.d["fnterm"])]
    ok = bool(calls) and all(len(e.d["args"]) == 1 and inst_guarded(e, e.d["args"][0]) for e in calls)
    chk.require(ok, P("filter-after-type-test"), fi.qualname, "isinstance(encryptor, REQUIRED_ENCRYPTOR_CLS) dominates encryptor_filter(encryptor)", where,
                "the selector filter is evaluated only for encryptors of the required class (others lack the attributes it reads)",
                "the filter is applied to an encryptor before / without the isinstance test: a decryptor list that mixes encryptor kinds raises AttributeError out of the reader")
    rets = [e for e in res.events if e.kind == "return" and e.stack == (fi.qualname,) and any(f[0] == "loop" for f in e.ctx)]
    # the other spelling of "first match wins": `break` at the match and the loop variable returned after the loop (for / else, or a flag)
    late = [e for e in res.events if e.kind == "return" and e.stack == (fi.qualname,) and not any(f[0] == "loop" for f in e.ctx)
            and any(x.op == "elem" for x in subterms(unsnap(e.d["value"])))]
    brks = [e for e in res.events if e.kind == "break" and e.stack == (fi.qualname,)] if late else []
    okr = bool(rets) or bool(brks)
    if late and not brks:
        okr = False
    for r in rets:
        v = r.d["value"]
        okr = okr and unsnap(v).op == "elem" and inst_guarded(r, v) and any(f[0] == "if" and f[2] and mentions_filter(f[1]) for f in r.ctx)
    for b in brks:
        elems = {x for r in late for x in subterms(unsnap(r.d["value"])) if x.op == "elem"}
        okr = okr and len(elems) == 1 and all(inst_guarded(b, v) for v in elems) and any(f[0] == "if" and f[2] and mentions_filter(f[1]) for f in b.ctx)
    chk.require(okr, P("selected-passes-both-tests"), fi.qualname, "return encryptor only if isinstance(...) and (no filter or filter(encryptor))", where,
                "the first encryptor that is of the required class AND passes the filter is chosen; later candidates are still examined when an earlier one fails the filter",
                "an encryptor can be returned without passing the class test and the filter")
    # which encryptor opens which block is decided by isinstance(encryptor, REQUIRED_ENCRYPTOR_CLS) alone: the required classes of the block kinds must not
    # share a concrete encryptor class, or a decryptor of one kind is picked for a block of another kind (and fails, or wraps under the wrong key)
    import ast as _ast

    m_ = prog.module(BEC2)
    blocks = {}
    for c_ in prog.classes.values():
        if c_.module is m_ and any(getattr(b_, "name", None) == "AuthBlock" for b_ in c_.mro()[1:]) and "REQUIRED_ENCRYPTOR_CLS" in c_.attrs:
            t_ = prog.resolve_expr_static(m_, c_.attrs["REQUIRED_ENCRYPTOR_CLS"])
            if t_ is not None and hasattr(t_, "mro"):
                blocks[c_.name] = t_
    enc_base = prog.classes.get(BEC2 + ".Encryptor")
    concrete = [c_ for c_ in prog.classes.values() if enc_base is not None and enc_base in c_.mro() and c_ is not enc_base]
    clash = []
    for c_ in concrete:
        opens = sorted(b_ for b_, req in blocks.items() if req in c_.mro())
        if len(opens) > 1:
            clash.append("%s is accepted for %s" % (c_.name, " and ".join(opens)))
    chk.require(len(blocks) >= 3 and not clash, P("encryptor-kinds-disjoint"), BEC2 + ".AuthBlock", "REQUIRED_ENCRYPTOR_CLS of %s" % ", ".join(sorted(blocks)), where,
                "no encryptor class is an instance of the required class of two block kinds (%d encryptor classes, %d block kinds)" % (len(concrete), len(blocks)),
                "; ".join(clash) or "fewer than three block kinds with a required encryptor class were found")
