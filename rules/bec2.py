"""Shared static model of the BEC2 header code (Bec2File.to_binary / pack_auth_blocks / read_file / unpack_auth_blocks)."""
from __future__ import annotations

import json
import os
from typing import Optional

from bfsa.guard import disjuncts, dominates, raise_rel, rel, unsnap
from bfsa.heap import Unsupported
from bfsa.layout import RField, RLoop, RTell, Writer, extract_readers, is_call_named, meth_call, show_reader, show_segs
from bfsa.load import AnalysisError, NotConst
from bfsa.symexec import Exec
from bfsa.terms import C, NONE, Term, cval, is_const, mk, show

from rules.bf3 import SPEC, _self_attr, canon

BEC2 = "bec2format.bec2file"


def _pol(ex, fi, depth):
    if fi.qualname.endswith("Bec2File.to_binary") or fi.qualname.endswith("Bec2File.pack_auth_blocks"):
        return True
    return False


def header_writer_rules(prog, chk, pid):
    P = lambda s: "%s.%s" % (pid, s)
    fi = prog.func(BEC2 + ".Bec2File.to_binary")
    ex = Exec(prog, policy=_pol)
    res = ex.run(fi)
    where = "%s:%d" % (fi.file, fi.lineno)
    w = Writer(ex)
    try:
        segs = w.flatten(res.ret)
    except Unsupported as u:
        raise AnalysisError("BEC2 header layout not interpretable: %s" % u)
    sig = bytes.fromhex(SPEC["bec2_signature_hex"])
    ok, why = True, ""
    # Const(sig) Repeat[U8 tag, U8 len(raw), raw] Const(0000) B(bf3.to_binary(len(header), session_key))
    if not (len(segs) == 4 and segs[0] == ("const", sig) and segs[1][0] == "repeat" and segs[2] == ("const", b"\x00\x00") and segs[3][0] == "opaque"):
        ok, why = False, "layout is %s; documented: 'BEC2\\0' {U8 tag, U8 len, value}* 00 00 body" % show_segs(segs, 3)
    if ok:
        body = segs[1][2]
        if not (len(body) == 3 and body[0][0] == "int" and body[0][1] == 1 and body[1][0] == "int" and body[1][1] == 1 and body[2][0] == "opaque"):
            ok, why = False, "auth block record is %s, documented U8 tag, U8 len, value" % show_segs(body, 3)
        else:
            ln = unsnap(body[1][2])
            if not (ln.op == "len" and unsnap(ln.args[0]) is unsnap(body[2][1])):
                ok, why = False, "auth block length byte is not len() of the value emitted"
            tag = unsnap(body[0][2])
            val = unsnap(body[2][1])
            mc = meth_call(val)
            if ok and not (tag.op == "attr" and tag.args[1] == "tag" and mc and mc[1] == "pack" and unsnap(mc[0]) is unsnap(tag.args[0])):
                ok, why = False, "tag byte and value do not come from the same auth block (tag %s, value %s)" % (show(tag, 3), show(val, 3))
            it = unsnap(segs[1][3]) if segs[1][3] is not None else None
            imc = meth_call(it) if it is not None else None
            if ok and not (imc and imc[1] == "values" and _self_attr(imc[0], "auth_blocks")):
                ok, why = False, "auth blocks are not emitted by iterating self.auth_blocks.values() in insertion order"
    chk.require(ok, P("bec2-header-framing"), fi.qualname, "'BEC2\\0' {U8 tag U8 len value}* 00 00 body", where, "BEC2 header = signature, TLV auth blocks in insertion order, 00 00 terminator, then the BF3 body", why)
    if ok:
        b = unsnap(segs[3][1])
        mc = meth_call(b)
        ok2 = bool(mc) and mc[1] == "to_binary" and _self_attr(mc[0], "bf3file") and len(mc[2]) == 2
        why2 = "body is %s" % show(b, 4)
        if ok2:
            off, key = unsnap(mc[2][0]), unsnap(mc[2][1])
            hdr_ok = False
            if off.op == "len":
                try:
                    hdr = w.flatten(off.args[0])
                    hdr_ok = canon(show_segs(hdr, 30)) == canon(show_segs(segs[:3], 30))
                except Unsupported:
                    hdr_ok = False
            ok2 = hdr_ok and _self_attr(key, "session_key")
            why2 = "body offset is %s (documented: length of everything emitted before the body) / key %s" % (show(off, 4), show(key, 3))
        chk.require(ok2, P("bec2-body-offset"), fi.qualname, "bf3file.to_binary(len(header), self.session_key)", where, "the BF3 body is serialised with start offset = header length and the file's session key", why2)
