"""C08 -- AES auth-block container: exact framing, exact inverse, errors on wrong key/CRC.

Decided statically: frame layout of AesEncryptorMixin.encrypt; padding in [1,16] and frame length = 0 mod 16 for every
payload length (interval x congruence domain); the parser reads exactly what the builder wrote (marker/CRC guards, seek
target, returned value); customer-key insert/verify/blank; SHA-256[:16] key derivation; adapter decrypt length-preserving."""
from __future__ import annotations

from bfsa.guard import disjuncts, dominates, raise_rel, unsnap
from bfsa.heap import Unsupported
from bfsa.layout import RField, RSeek, Writer, extract_readers, is_call_named, meth_call, builtin_call, show_reader, show_segs
from bfsa.length import cong, len_key, lin, lin_eq, segs_cong
from bfsa.load import AnalysisError, NotConst
from bfsa.symexec import Exec
from bfsa.terms import C, NONE, Term, cval, is_const, mk, show

from bfsa.exprs import sbytes as sbytes_
from rules import adapter
from rules.bf3 import _self_attr, accepted_only_when_not, find_guards
from rules import stackrt

LEVEL = "other"
BEC2 = "bec2format.bec2file"
OPAQUE = {"cmac", "create_AES128", "hex2bin", "crc8404B", "select_encryptor"}


def pol(ex, fi, depth):
    if fi.name in OPAQUE:
        return False
    return fi.module.name.startswith("bec2format") and depth < 10


def _writer(ex, res):
    w = Writer(ex)
    w.list_snapshots = dict(res.state.heap) if res.state is not None else {}
    return w


def frame_builder_rules(prog, chk, pid):
    P = lambda s: "%s.%s" % (pid, s)
    fi = prog.method(BEC2 + ".AesEncryptorMixin", "encrypt")
    ex = Exec(prog, policy=pol)
    res = ex.run(fi)
    where = "%s:%d" % (fi.file, fi.lineno)
    encs = [e for e in res.events if e.kind == "mcall" and e.d["name"] == "encrypt" and _self_attr(e.d["recv"], "cipher")]
    if len(encs) != 1 or unsnap(res.ret) is not unsnap(encs[0].d["result"]):
        chk.fail(P("frame-layout"), fi.qualname, "return self.cipher.encrypt(frame)", where, "the builder does not return exactly one cipher.encrypt(frame)")
        return None
    frame = encs[0].d["args"][0]
    w = _writer(ex, res)
    try:
        segs = w.flatten(frame)
    except Unsupported as u:
        raise AnalysisError("frame layout not interpretable: %s" % u)
    pt = mk("param", fi.params[1])
    ok = len(segs) == 5 and segs[0] == ("const", b"B") and segs[1][0] == "int" and segs[1][1] == 1 and segs[2][0] == "zeros" and segs[3] == ("opaque", pt) and segs[4][0] == "int" and segs[4][1] == 2 and segs[4][3] == "big"
    chk.require(ok, P("frame-layout"), fi.qualname, show_segs(segs, 3), where, "frame = 'B', U8 length, zero padding, payload, U16 big-endian CRC", "frame layout is %s; documented 'B' U8 Zeros(P) payload U16be(crc)" % show_segs(segs, 3))
    if not ok:
        return None
    # U8 = len(payload) + 2
    l = lin(segs[1][2])
    chk.require(lin_eq(l, {len_key(pt): 1, 1: 2}), P("length-byte"), fi.qualname, "U8 = len(payload) + 2", where, "length byte is payload length + CRC length (2)", "length byte is %s" % show(segs[1][2], 4))
    # CRC over the payload, default start value
    crc = unsnap(segs[4][2])
    okc = is_call_named(crc, "crc8404B") and len(crc.args[1]) == 1 and unsnap(crc.args[1][0]) is pt and not crc.args[2]
    chk.require(okc, P("crc-over-payload"), fi.qualname, "crc8404B(payload)", where, "CRC-16 (C15) of exactly the payload, default start value", "CRC field is %s" % show(crc, 4))
    # padding range and total congruence
    pc = cong(segs[2][1], 16)
    tot = segs_cong(segs, 16)
    okp = pc is not None and pc[2] == 1 and pc[3] == 16
    chk.require(okp, P("padding-1..16"), fi.qualname, "P = %s" % show(segs[2][1], 5), where, "padding length lies in [1,16] for every payload length (interval of `x % 16 + 1`)", "padding length range is %s" % (pc[2:] if pc else None,))
    okt = tot is not None and not tot[0] and tot[1] == 0
    chk.require(okt, P("frame-multiple-of-16"), fi.qualname, "2 + P + len(payload) + 2 == 0 (mod 16)", where, "total frame length is congruent 0 modulo 16 for every payload length (congruence domain)", "frame length congruence is %s" % (tot[:2] if tot else None,))
    # cipher created once with the crypto key and default IV
    fi_init = prog.method(BEC2 + ".AesEncryptorMixin", "__init__")
    exi = Exec(prog, policy=lambda e, f, d: False)
    ri = exi.run(fi_init)
    sets = [e for e in ri.events if e.kind == "setattr" and e.d["name"] == "cipher"]
    oki = len(sets) == 1 and is_call_named(unsnap(sets[0].d["value"]), "create_AES128") and len(unsnap(sets[0].d["value"]).args[1]) == 1 and unsnap(unsnap(sets[0].d["value"]).args[1][0]).op == "param" and not unsnap(sets[0].d["value"]).args[2]
    chk.require(oki, P("cipher-zero-iv"), fi_init.qualname, "self.cipher = create_AES128(crypto_key)", "%s:%d" % (fi_init.file, fi_init.lineno), "cipher is AES-128 under the given key with the default (all-zero) IV", "cipher is not created as create_AES128(crypto_key) with default IV")
    return segs


def frame_parser_rules(prog, chk, pid):
    P = lambda s: "%s.%s" % (pid, s)
    fi = prog.method(BEC2 + ".AesEncryptorMixin", "decrypt")
    ex = Exec(prog, policy=pol)
    res = ex.run(fi)
    where = "%s:%d" % (fi.file, fi.lineno)
    rds = [r for r in extract_readers(ex, res.events).values() if r.raw is not None]
    ct = mk("param", fi.params[1])
    ok = len(rds) == 1
    why = "decrypted frame is not parsed through one reader"
    if ok:
        rd = rds[0]
        mc = meth_call(rd.raw)
        ok = bool(mc) and mc[1] == "decrypt" and _self_attr(mc[0], "cipher") and len(mc[2]) == 1 and unsnap(mc[2][0]) is ct
        why = "reader is not built over self.cipher.decrypt(ciphertext)"
    if not ok:
        chk.fail(P("parser-grammar"), fi.qualname, "BytesReader(self.cipher.decrypt(ciphertext))", where, why)
        return
    items = rd.flat
    shape = [type(x).__name__ for x in items]
    if shape != ["RField", "RField", "RSeek", "RField", "RField"]:
        chk.fail(P("parser-grammar"), fi.qualname, show_reader(rd), where, "parser does not read marker, length byte, seek past padding, payload, CRC in that order")
        return
    mk_, ln, sk, pay, crc = items
    L = ln.int_views[0] if ln.int_views else None
    # the stored CRC is either converted to an int (big endian) or compared as two bytes with crc.to_bytes(2, "big")
    def crc_as_bytes(x, y):
        x, y = unsnap(x), unsnap(y)
        mcx = meth_call(x)
        return bool(mcx) and mcx[1] == "to_bytes" and is_call_named(unsnap(mcx[0]), "crc8404B") and len(mcx[2]) >= 1 and is_const(mcx[2][0]) and cval(mcx[2][0]) == 2 and (
            (len(mcx[2]) > 1 and is_const(mcx[2][1]) and cval(mcx[2][1]) == "big") or (dict(mcx[3]).get("byteorder") is not None and is_const(dict(mcx[3])["byteorder"]) and cval(dict(mcx[3])["byteorder"]) == "big")) and y is unsnap(crc.result)

    bytes_cmp = [e for e in res.events if e.kind == "op" and e.d["op"] in ("Eq", "NotEq") and any(crc_as_bytes(a, b) for a, b in (tuple(e.d["args"]), tuple(reversed(e.d["args"]))))]
    okg = is_const(mk_.size) and cval(mk_.size) == 1 and is_const(ln.size) and cval(ln.size) == 1 and L is not None and is_const(crc.size) and cval(crc.size) == 2 and ((bool(crc.int_views) and crc.order == "big") or bool(bytes_cmp))
    okg = okg and lin_eq(lin(pay.size), {("atom", unsnap(L).uid): 1, 1: -2})
    chk.require(okg, P("parser-grammar"), fi.qualname, show_reader(rd), where, "reads B(1) marker, U8 L, payload of L-2 bytes, U16 big-endian CRC", "field sizes deviate: %s" % show_reader(rd))
    # seek target = len(ciphertext) - L: together with the builder's layout (payload+crc are the last L bytes of a frame as long as the ciphertext)
    oks = L is not None and lin_eq(lin(sk.pos), {len_key(ct): 1, ("atom", unsnap(L).uid): -1})
    chk.require(oks, P("seek-past-padding"), fi.qualname, "seek(len(ciphertext) - L)", where, "payload+CRC are located as the last L bytes of the frame (frame length = ciphertext length: adapter decrypt is length preserving)", "seek target is %s" % show(sk.pos, 5))
    rets = [e for e in res.events if e.kind == "return" and e.stack == (fi.qualname,)]
    # marker guard
    gs = find_guards(res.events, lambda op, a, b: op == "NotEq" and any(unsnap(x) is unsnap(mk_.result) and is_const(y) and cval(y) == b"B" for x, y in ((a, b), (b, a))))
    gs = [g for g in gs if all(dominates(g, r) for r in rets)]
    chk.require(bool(gs), P("marker-guard"), fi.qualname, "read(1) != b'B' -> raise", gs[0].where if gs else where, "a frame not starting with 'B' is rejected on every accepting path", "no dominating guard rejects a wrong marker byte")
    # crc guard
    def crc_pred(op, a, b):
        if op != "NotEq":
            return False
        for x, y in ((a, b), (b, a)):
            x, y = unsnap(x), unsnap(y)
            if is_call_named(x, "crc8404B") and len(x.args[1]) == 1 and unsnap(x.args[1][0]) is unsnap(pay.result) and not x.args[2] and any(y is v for v in crc.int_views):
                return True
            if crc_as_bytes(x, y):
                c_ = unsnap(meth_call(x)[0])
                if len(c_.args[1]) == 1 and unsnap(c_.args[1][0]) is unsnap(pay.result) and not c_.args[2]:
                    return True
        return False

    gs = find_guards(res.events, crc_pred)
    gs = [g for g in gs if all(dominates(g, r) for r in rets)]
    if not gs and rets and all(accepted_only_when_not(r, crc_pred) for r in rets):
        # `if crc8404B(payload) == crc: return payload` followed by the raise
        gs = [r for r in rets]
    chk.require(bool(gs), P("crc-guard"), fi.qualname, "crc8404B(payload) != stored crc -> raise", gs[0].where if gs else where, "CRC of the payload read is compared with the stored CRC; mismatch (e.g. a frame made under another key) raises", "no dominating guard rejects a CRC mismatch")
    okr = bool(rets) and all(_is_payload(r.d["value"], pay) for r in rets)
    chk.require(okr, P("returns-payload"), fi.qualname, "return payload", where, "the value returned is exactly the payload field read", "returned value is %s" % (show(rets[0].d["value"], 4) if rets else None))


def _is_payload(v: Term, pay: RField) -> bool:
    v = unsnap(v)
    bc = builtin_call(v)
    if bc and bc[0] == "bytes" and len(bc[1]) == 1:
        v = unsnap(bc[1][0])
    return v is unsnap(pay.result)


def customer_key_rules(prog, chk, pid):
    P = lambda s: "%s.%s" % (pid, s)
    m = prog.module(BEC2)
    try:
        cks = prog.fold_name(m, "CUSTOMER_KEY_SIZE")
        ph = prog.fold_class_attr(prog.cls(BEC2 + ".InitCustKeyAuthBlock"), "CUSTOMER_KEY_PLACEHOLDER")
    except NotConst:
        raise AnalysisError("CUSTOMER_KEY_SIZE / placeholder not constant")
    chk.require(cks == 10 and ph == bytes(10), P("customer-key-slot-10"), BEC2, "CUSTOMER_KEY_SIZE == len(CUSTOMER_KEY_PLACEHOLDER) == 10, placeholder all zero", "", "slot constants agree", "CUSTOMER_KEY_SIZE=%r placeholder=%r" % (cks, ph))
    # ---- encrypt
    fi = prog.method(BEC2 + ".SoftwareCustKeyEncryptor", "encrypt")
    ex = Exec(prog, policy=pol)
    res = ex.run(fi, self_cls=prog.cls(BEC2 + ".SoftwareCustKeyEncryptor"))
    where = "%s:%d" % (fi.file, fi.lineno)
    ss = [e for e in res.events if e.kind == "setslice"]
    encs = [e for e in res.events if e.kind == "mcall" and e.d["name"] == "encrypt" and _self_attr(e.d["recv"], "cipher")]
    ok, why = len(ss) == 1 and len(encs) == 1, "expected one slice store into the plaintext and one cipher.encrypt"
    if ok:
        s = ss[0]
        lo, hi = unsnap(s.d["lo"]), unsnap(s.d["hi"])
        ok = _self_attr(lo, "customer_key_pos") and lin_eq(lin(hi), {("atom", lo.uid): 1, 1: cks}) and _self_attr(s.d["value"], "customer_key") and s.uid < encs[0].uid
        why = "customer key is not stored into plaintext[pos:pos+%d] before wrapping" % cks
        # store happens exactly when a customer key is configured
        conds = [f for f in s.ctx if f[0] == "if"]
        ok = ok and len(conds) == 1 and conds[0][2] is True and _self_attr(conds[0][1].args[0] if conds[0][1].op == "truthy" else conds[0][1], "customer_key")
        # the wrapped plaintext is the modified buffer
        frame = unsnap(encs[0].d["args"][0])
        ok = ok and any(unsnap(x) is unsnap(s.d["base"]) for x in __import__("bfsa.terms", fromlist=["subterms"]).subterms(frame))
    chk.require(ok, P("customer-key-insert"), fi.qualname, "plaintext[pos:pos+10] = customer_key; then wrap", where, "with a customer key configured it overwrites its 10-byte slot before the frame is built and encrypted", why)
    # ---- decrypt
    fi = prog.method(BEC2 + ".SoftwareCustKeyEncryptor", "decrypt")
    ex = Exec(prog, policy=pol)
    res = ex.run(fi, self_cls=prog.cls(BEC2 + ".SoftwareCustKeyEncryptor"))
    where = "%s:%d" % (fi.file, fi.lineno)
    ss = [e for e in res.events if e.kind == "setslice"]

    def pred(op, a, b):
        if op != "NotEq":
            return False
        for x, y in ((a, b), (b, a)):
            x = unsnap(x)
            if x.op == "slice" and _self_attr(y, "customer_key"):
                lo, hi = unsnap(x.args[1]), unsnap(x.args[2])
                if _self_attr(lo, "customer_key_pos") and lin_eq(lin(hi), {("atom", lo.uid): 1, 1: cks}):
                    return True
        return False

    gs = find_guards(res.events, pred)
    ok = len(ss) == 1 and bool(gs) and all(dominates(g, ss[0]) for g in gs[:1])
    why = "customer key slot is not compared with the configured key before being blanked"
    if ok:
        s = ss[0]
        lo, hi, v = unsnap(s.d["lo"]), unsnap(s.d["hi"]), unsnap(s.d["value"])
        ok = _self_attr(lo, "customer_key_pos") and lin_eq(lin(hi), {("atom", lo.uid): 1, 1: cks}) and is_const(v) and cval(v) == bytes(cks)
        why = "slot is not overwritten with %d zero bytes" % cks
    chk.require(ok, P("customer-key-verify-blank"), fi.qualname, "plaintext[pos:pos+10] != customer_key -> raise; then blank the slot", where, "on unwrapping the slot is verified against the configured key (mismatch raises) and then blanked with zeros", why)


def security_code_rules(prog, chk, pid):
    P = lambda s: "%s.%s" % (pid, s)
    fi = prog.method(BEC2 + ".ConfigSecurityCodeEncryptor", "__init__")
    ex = Exec(prog, policy=lambda e, f, d: False)
    res = ex.run(fi)
    where = "%s:%d" % (fi.file, fi.lineno)
    calls = [e for e in res.events if e.kind == "call" and e.d["callee"].name == "__init__"]
    ok, why = len(calls) == 1, "expected exactly one super().__init__ call"
    if ok:
        a = [x for x in calls[0].d["args"] if unsnap(x).op != "ref"]
        key = a[0] if a else calls[0].d["kwargs"].get("crypto_key")
        k = unsnap(key) if key is not None else None
        ok = k is not None and k.op == "slice" and k.args[1] is NONE and is_const(k.args[2]) and cval(k.args[2]) == 16 and k.args[3] is NONE
        if ok:
            d = meth_call(unsnap(k.args[0]))
            ok = bool(d) and d[1] == "digest" and not d[2]
            if ok:
                h = unsnap(d[0])
                ok = h.op == "call" and isinstance(h.args[0], Term) and h.args[0].op == "ext" and h.args[0].args[0] == "hashlib.sha256" and len(h.args[1]) == 1 and unsnap(h.args[1][0]).op == "param" and unsnap(h.args[1][0]).args[0] == fi.params[1]
        why = "AES key is %s, documented first 16 bytes of SHA-256(security code)" % (show(k, 5) if k is not None else None)
    chk.require(ok, P("security-code-key"), fi.qualname, "crypto_key = sha256(config_security_code).digest()[:16]", where, "the security-code variant derives its AES key as the first 16 bytes of SHA-256 of the code", why)


def stack_roundtrip_rules(prog, chk, pid, tier):
    """wrap / unwrap through the real stack (container -> registered adapter -> pyaes CBC feeder) for EVERY payload length 0..253"""
    from rules import stackrt as R

    P = lambda s: "%s.%s" % (pid, s)
    st_ = R.Stack(prog)
    key = mk("param", "key")
    fe = prog.method(BEC2 + ".AesEncryptorMixin", "encrypt")
    where = "%s:%d" % (fe.file, fe.lineno)
    src = "def drv(key, p):\n    e = AesEncryptorMixin(key)\n    c = e.encrypt(p)\n    return (c, e.decrypt(c))\n"
    bad_frame = bad_rt = None
    for L in range(0, 254):
        p = R.syms("p", L)
        ex, res = st_.run(BEC2, src, {"key": key, "p": sbytes_(p)})
        if res.dead or res.ret is None or unsnap(res.ret).op != "tuple":
            bad_frame = bad_frame or (L, "wrapping or unwrapping raises")
            bad_rt = bad_rt or (L, "wrapping or unwrapping raises")
            break
        ct, back = unsnap(res.ret).args[0]
        ctb = R.flat(ex, res, ct)
        frame = R.cbc_plain_blocks(ctb, key) if ctb is not None else None
        crc = mk("uf", "crc8404B", tuple(p), NONE)
        if frame is None:
            bad_frame = bad_frame or (L, "ciphertext is not AES-128-CBC (zero IV) of a whole number of blocks under the given key")
        else:
            padn = len(frame) - 2 - L - 2
            want = [C(0x42), C(L + 2)] + [C(0)] * max(padn, 0) + p + [mk("byteof", crc, 2, 0), mk("byteof", crc, 2, 1)]
            if not (1 <= padn <= 16) or len(frame) % 16 or len(frame) != len(want) or any(a is not b for a, b in zip(frame, want)):
                bad_frame = bad_frame or (L, "frame is %d bytes with %d padding bytes; first differing byte %s" % (len(frame), padn, next((i for i, (a, b) in enumerate(zip(frame, want)) if a is not b), "-")))
        got = R.flat(ex, res, back)
        if got is None or len(got) != L or any(a is not b for a, b in zip(got, p)):
            bad_rt = bad_rt or (L, "unwrapping returns %s" % ("%d bytes" % len(got) if got is not None else "a value that is not a known byte string"))
    chk.require(bad_frame is None, P("stack-frame"), fe.qualname, "payload lengths 0..253, symbolic contents and key", where,
                "for every length the ciphertext is CBC_k(zero IV) of 'B' | len+2 | 1..16 zero bytes | payload | CRC-16 big-endian, a whole number of blocks (recovered from the ciphertext terms through the registered adapter and the pyaes feeder)",
                "payload length %s: %s" % bad_frame if bad_frame else "")
    fd = prog.method(BEC2 + ".AesEncryptorMixin", "decrypt")
    chk.require(bad_rt is None, P("stack-exact-inverse"), fd.qualname, "decrypt(encrypt(p)) for payload lengths 0..253", "%s:%d" % (fd.file, fd.lineno),
                "for every length unwrapping the wrapped payload returns exactly the payload bytes (term identity, symbolic contents and key)", "payload length %s: %s" % bad_rt if bad_rt else "")
    # 254 bytes and more do not fit the length byte: wrapping must fail, not wrap around
    ex, res = st_.run(BEC2, "def drv(key, p):\n    return AesEncryptorMixin(key).encrypt(p)\n", {"key": key, "p": sbytes_(R.syms("p", 254))})
    chk.require(res.dead, P("stack-length-limit"), fe.qualname, "payload of 254 bytes", where, "a payload whose length + 2 does not fit the length byte is refused", "a 254-byte payload is wrapped (length byte wraps around)")
    # security-code variant: same container under SHA-256(code)[:16]
    src2 = "def drv(code, p):\n    e = ConfigSecurityCodeEncryptor(code)\n    c = e.encrypt(p)\n    return (c, e.decrypt(c), e.cipher._key)\n"
    badc = None
    for L in (0, 1, 12, 17, 26, 253):
        p = R.syms("p", L)
        ex, res = st_.run(BEC2, src2, {"code": mk("param", "code"), "p": sbytes_(p)})
        if res.dead or res.ret is None:
            badc = (L, "raises")
            break
        ct, back, k2 = unsnap(res.ret).args[0]
        k2 = unsnap(k2)
        okk = k2.op == "slice" and is_const(k2.args[2]) and cval(k2.args[2]) == 16 and unsnap(k2.args[1]) is NONE and "sha256" in show(k2.args[0], 6) and "digest" in show(k2.args[0], 6) and "code" in show(k2.args[0], 6)
        ctb = R.flat(ex, res, ct)
        frame = R.cbc_plain_blocks(ctb, k2) if ctb is not None else None
        got = R.flat(ex, res, back)
        if not okk or frame is None or got is None or len(got) != L or any(a is not b for a, b in zip(got, p)):
            badc = (L, "key is %s; frame %s; round trip %s" % (show(k2, 4)[:60], "ok" if frame is not None else "not CBC under that key", "ok" if got is not None and len(got) == L else "differs"))
            break
    fc = prog.method(BEC2 + ".ConfigSecurityCodeEncryptor", "__init__")
    chk.require(badc is None, P("stack-security-code"), fc.qualname, "ConfigSecurityCodeEncryptor(code): 6 payload lengths", "%s:%d" % (fc.file, fc.lineno),
                "the container is keyed with sha256(code).digest()[:16] in both directions and round-trips", "payload length %s: %s" % badc if badc else "")
    # customer-key variant: the key overwrites its 10-byte slot before wrapping, is verified and blanked on unwrapping
    fck = prog.method(BEC2 + ".SoftwareCustKeyEncryptor", "encrypt")
    srck = ("def drv(key, ck, p):\n    e = SoftwareCustKeyEncryptor(key, ck, %d)\n    c = e.encrypt(p)\n    return (c, e.decrypt(c))\n")
    ck = R.syms("ck", 10)
    badk = None
    lens = [10, 11, 26, 37] if tier != "thorough" else [10, 11, 17, 26, 27, 40, 100, 253]
    nck = 0
    for L in lens:
        for pos in (range(0, L - 9) if (L <= 40 or tier == "thorough") else (0, L - 10)):
            nck += 1
            p = R.syms("p", L)
            ex, res = st_.run(BEC2, srck % pos, {"key": key, "ck": sbytes_(ck), "p": sbytes_(p)})
            if res.dead or res.ret is None:
                badk = badk or ((L, pos), "raises")
                continue
            ct, back = unsnap(res.ret).args[0]
            ctb = R.flat(ex, res, ct)
            frame = R.cbc_plain_blocks(ctb, key) if ctb is not None else None
            withkey = p[:pos] + ck + p[pos + 10:]
            okf = frame is not None and len(frame) >= 4 + L and all(a is b for a, b in zip(frame[len(frame) - 2 - L:len(frame) - 2], withkey))
            got = R.flat(ex, res, back)
            blanked = p[:pos] + [C(0)] * 10 + p[pos + 10:]
            okb = got is not None and len(got) == L and all(a is b for a, b in zip(got, blanked))
            if not (okf and okb):
                badk = badk or ((L, pos), "wrapped payload %s; unwrapped payload %s" % ("carries the customer key in its slot" if okf else "does not carry the customer key in bytes %d..%d" % (pos, pos + 9), "has the slot blanked" if okb else "is not the payload with the slot zeroed"))
    chk.require(badk is None, P("stack-customer-key"), fck.qualname, "%d (payload length, key position) pairs, symbolic payload / customer key / AES key" % nck, "%s:%d" % (fck.file, fck.lineno),
                "the wrapped payload carries the customer key in exactly its 10-byte slot and unwrapping returns the payload with that slot zeroed", "(length, position) %s: %s" % badk if badk else "")
    # a frame wrapped with another customer key is refused
    src_bad = "def drv(key, ck, ck2, p):\n    c = SoftwareCustKeyEncryptor(key, ck, 2).encrypt(p)\n    return SoftwareCustKeyEncryptor(key, ck2, 2).decrypt(c)\n"
    ex, res = st_.run(BEC2, src_bad, {"key": key, "ck": sbytes_(ck), "ck2": sbytes_([C(1)] * 10), "p": sbytes_(R.syms("p", 20))})
    okm = True
    if not res.dead:
        # symbolic customer key vs. constant key: the comparison is undecided, so both arms exist; the accepting arm must be guarded by equality
        gs = [e for e in ex.trace if e.kind == "guard" and e.d.get("term") == "raise" and "Bec2FileFormatError" in str(e.d.get("exc"))]
        okm = any("ck" in show(g.d.get("cond"), 8) for g in gs)
    chk.require(okm, P("stack-customer-key-mismatch"), BEC2 + ".SoftwareCustKeyEncryptor.decrypt", "unwrap with a different customer key", "", "unwrapping compares the slot with the configured customer key and refuses a mismatch", "a frame made with another customer key is unwrapped without a key comparison")
    chk.info["stack_scenarios"] = st_.runs


def run(prog, chk, tier):
    from rules import state as _state

    _state.library_state_rules(prog, chk, "C08")
    chk.explanation = ("AesEncryptorMixin.encrypt's frame is interpreted in the byte-layout domain and its lengths in an interval x congruence domain: for every payload "
                       "length the padding is in [1,16] and the frame a multiple of 16. The parser's reader grammar, seek target, marker and CRC guards and returned value are "
                       "matched against that layout; customer-key insert / verify / blank and the SHA-256[:16] key derivation are checked by data provenance; the registered "
                       "adapter's decrypt must be length preserving (otherwise the seek target is wrong for frames ending in 0x00).")
    frame_builder_rules(prog, chk, "C08")
    frame_parser_rules(prog, chk, "C08")
    customer_key_rules(prog, chk, "C08")
    security_code_rules(prog, chk, "C08")
    adapter.adapter_rules(prog, chk, "C08", want={"decrypt", "encrypt", "fresh-mode"})
    stackrt.guarded(chk, "C08.stack-container", stack_roundtrip_rules, prog, chk, "C08", tier)
    chk.assume("crc8404B is CRC-16/MCRF4XX (C15); AES block function is FIPS-197 (C16)")
