"""C09 -- the ECC auth block is decryptable by an independent ECIES implementation.

Decided statically: block layout and KDF data flow (both directions); the four published recipient keys (DER structure,
curve, on-curve with the checker's own arithmetic, equal to the pinned values) and their selector table; the constant
27-byte header used for raw<->DER conversion; the validation chain from the decryptor to the on-curve guard (every hop
passes validation on; the only site that switches it off is allow-listed).  Not decided: that OpenSSL recovers the key."""
from __future__ import annotations

import ast
import json
import os

from bfsa import constaudit as ca
from bfsa.guard import disjuncts, dominates, raise_rel, rel, unsnap
from bfsa.layout import builtin_call, is_call_named, meth_call
from bfsa.load import AnalysisError, ClassInfo, FuncInfo, NotConst
from bfsa.symexec import Exec
from bfsa.terms import C, NONE, Term, cval, is_const, mk, show, subterms

from rules import bec2
from rules.bf3 import _self_attr
from rules import stackbec2
from rules import stackrt

LEVEL = "other"
VERIF = os.path.dirname(os.path.dirname(os.path.abspath(__file__)))
PINNED = json.load(open(os.path.join(VERIF, "spec", "published_keys.json")))["keys"]
BEC2 = "bec2format.bec2file"
KEYS = "register_crypto_plugin.ecdsa.keys"
ECD = "register_crypto_plugin.ecdsa.ecdsa"


def published_key_rules(prog, chk, pid):
    P = lambda s: "%s.%s" % (pid, s)
    c = prog.cls(BEC2 + ".EccEncryptor")
    where = "%s:%d" % (c.module.relpath, c.node.lineno)
    try:
        keys = prog.fold_class_attr(c, "DEFAULT_PUBLIC_KEYS")
        sel = {n: prog.fold_class_attr(c, n) for n in ("KEYSEL_FW_STD", "KEYSEL_KEYSTORE_STD", "KEYSEL_KEYSTORE_ALT0", "KEYSEL_KEYSTORE_ALT1")}
    except NotConst:
        raise AnalysisError("DEFAULT_PUBLIC_KEYS / KEYSEL_* are not constants")
    chk.require(sel == {"KEYSEL_FW_STD": 0, "KEYSEL_KEYSTORE_STD": 1, "KEYSEL_KEYSTORE_ALT0": 2, "KEYSEL_KEYSTORE_ALT1": 3} and sorted(keys) == [0, 1, 2, 3], P("selector-table"), c.qualname, "KEYSEL_* = 0..3 key the four published keys", where, "one published key per selector 0..3", "selectors %s / table keys %s" % (sel, sorted(keys)))
    for k in sorted(keys):
        v = keys[k]
        ok, why = True, ""
        try:
            oid, x, y, hl = ca.parse_spki_ec(v)
            if oid != ca.OID_PRIME256V1:
                ok, why = False, "curve OID is %s, not prime256v1" % (oid,)
            elif hl != 27 or len(v) != 91:
                ok, why = False, "DER prefix is %d bytes / key %d bytes (expected 27 / 91)" % (hl, len(v))
            elif not ca.on_curve(ca.P256["p"], ca.P256["a"], ca.P256["b"], x, y):
                ok, why = False, "point (X, Y) is not on P-256"
        except ca.DerError as e:
            ok, why = False, "not a SubjectPublicKeyInfo(ecPublicKey, prime256v1, 04||X||Y): %s" % e
        if ok and PINNED.get(str(k)) != v.hex():
            ok, why = False, "value differs from the pinned published key for selector %d: blocks would be addressed to another recipient" % k
        chk.require(ok, P("published-key"), c.qualname, "DEFAULT_PUBLIC_KEYS[%d]" % k, where, "well-formed P-256 SubjectPublicKeyInfo, point on the curve (checker's own arithmetic), equal to the pinned published value", why)
    # default recipient = DEFAULT_PUBLIC_KEYS[key_selector]
    fi = prog.method(BEC2 + ".EccEncryptor", "__init__")
    ex = Exec(prog, policy=lambda e, f, d: False)
    res = ex.run(fi)
    sets = [e for e in res.events if e.kind == "setattr" and e.d["name"] == "public_key"]
    ok = len(sets) == 1
    if ok:
        v = unsnap(sets[0].d["value"])
        is_given = lambda t: unsnap(t).op == "param" and unsnap(t).args[0] == "public_key"
        dflt_t = None
        if v.op == "or" and len(v.args[0]) == 2 and is_given(v.args[0][0]):
            dflt_t = unsnap(v.args[0][1])
        elif v.op == "phi":
            # the same choice as a conditional expression / if statement: the default is taken exactly when no key was given (falsy or None)
            from bfsa.guard import rel as _rel

            cond, x, y = v.args
            for given, other, pol in ((x, y, True), (y, x, False)):
                if is_given(given):
                    r_ = _rel(cond, pol)
                    if r_[0] == "rel" and is_given(r_[2]) and (r_[1] == "Truthy" or (r_[1] in ("IsNot", "NotEq") and r_[3] is not None and is_const(unsnap(r_[3])) and cval(unsnap(r_[3])) is None)):
                        dflt_t = unsnap(other)
        ok = dflt_t is not None and is_call_named(dflt_t, "create_public_ecc_key_from_der_fmt")
        if ok:
            a = unsnap(dflt_t.args[1][0])
            ok = a.op == "sub" and unsnap(a.args[0]).op == "static" and unsnap(a.args[0]).args[0].endswith("DEFAULT_PUBLIC_KEYS") and unsnap(a.args[1]).op == "param" and unsnap(a.args[1]).args[0] == "key_selector"
    dflt = prog.try_fold(fi.module, fi.node.args.defaults[0], cls=fi.cls, default="?") if fi.node.args.defaults else "?"
    chk.require(ok and dflt == 0, P("default-recipient"), fi.qualname, "public_key or from_der(DEFAULT_PUBLIC_KEYS[key_selector]); key_selector defaults to KEYSEL_FW_STD", "%s:%d" % (fi.file, fi.lineno), "without an explicit recipient the block is addressed to the published key of its selector", "default recipient is not DEFAULT_PUBLIC_KEYS[key_selector]")
    ks = prog.method(BEC2 + ".KeySelectorEncryptor", "__init__")
    exk = Exec(prog, policy=lambda e, f, d: False)
    rk = exk.run(ks)
    s2 = [e for e in rk.events if e.kind == "setattr" and e.d["name"] == "key_selector"]
    chk.require(len(s2) == 1 and unsnap(s2[0].d["value"]).op == "param", P("default-recipient"), ks.qualname, "self.key_selector = key_selector", "%s:%d" % (ks.file, ks.lineno), "the selector written into the block is the one the recipient key was chosen by", "key selector is not stored unchanged")


def header_rules(prog, chk, pid):
    P = lambda s: "%s.%s" % (pid, s)
    c = prog.cls("bec2format.crypto.PublicEccKey")
    # the conversions that run are the ones the registered key class resolves to: an override in the plug-in replaces the base-class method
    reg = prog.cls("register_crypto_plugin.PublicEccKeyProxy")
    r_ = reg.lookup("create_from_raw_fmt")
    fi = r_[1] if r_ is not None and hasattr(r_[1], "node") else prog.method(c.qualname, "create_from_raw_fmt")
    ex = Exec(prog, policy=lambda e, f, d: False)
    res = ex.run(fi)
    where = "%s:%d" % (fi.file, fi.lineno)
    calls = [e for e in res.events if e.kind == "call" and e.d["callee"].name == "create_from_der_fmt"]
    ok, hdr = len(calls) == 1, None
    why = "create_from_raw_fmt does not call create_from_der_fmt exactly once"
    if ok:
        a = [x for x in calls[0].d["args"] if unsnap(x).op != "class"]
        t = unsnap(a[0]) if a else None
        ok = t is not None and t.op == "bin" and t.args[0] == "Add" and is_const(t.args[1]) and unsnap(t.args[2]).op == "param"
        why = "DER input is not <constant header> + raw_fmt"
        if ok:
            hdr = cval(t.args[1])
            want = bytes.fromhex(PINNED["0"])[:27]
            # structural audit of the prefix: SEQ(89){SEQ(19){OID ecPublicKey, OID prime256v1}, BITSTRING(66){00, 04 ...}}
            good = len(hdr) == 27 and hdr[0] == 0x30 and hdr[1] == 0x59 and hdr[2] == 0x30 and hdr[3] == 0x13 and hdr[23] == 0x03 and hdr[24] == 0x42 and hdr[25] == 0x00 and hdr[26] == 0x04
            try:
                oid, x, y, hl = ca.parse_spki_ec(hdr + bytes(64))
                good = good and oid == ca.OID_PRIME256V1 and hl == 27
            except ca.DerError:
                good = False
            ok = good and hdr == want
            why = "header constant is not the 27-byte P-256 SubjectPublicKeyInfo prefix whose lengths fit a 64-byte raw point"
    chk.require(ok, P("raw-to-der-header"), fi.qualname, "create_from_der_fmt(<27-byte SPKI prefix> + raw_fmt)", where, "raw 64-byte points are wrapped with the exact P-256 SubjectPublicKeyInfo prefix (inner lengths 0x59 / 0x13 / 0x42, unused-bits 00, point marker 04)", why)
    r2_ = reg.lookup("to_raw_bin_fmt")
    fi2 = r2_[1] if r2_ is not None and hasattr(r2_[1], "node") else prog.method(c.qualname, "to_raw_bin_fmt")
    ex2 = Exec(prog, policy=lambda e, f, d: False)
    r2 = ex2.run(fi2)
    v = unsnap(r2.ret) if r2.ret is not None else None
    ok2 = v is not None and v.op == "slice" and is_const(v.args[1]) and cval(v.args[1]) == 27 and v.args[2] is NONE and meth_call(unsnap(v.args[0])) is not None and meth_call(unsnap(v.args[0]))[1] == "to_der_fmt"
    chk.require(ok2 and (hdr is None or len(hdr) == 27), P("der-to-raw-header"), fi2.qualname, "self.to_der_fmt()[27:]", "%s:%d" % (fi2.file, fi2.lineno), "the same 27 bytes are cut off when converting back", "to_raw_bin_fmt does not strip exactly the 27-byte header")
    # plug-in: DER in/out go straight to the library
    pc = prog.cls("register_crypto_plugin.PublicEccKeyProxy")
    f3 = prog.method(pc.qualname, "create_from_der_fmt")
    ex3 = Exec(prog, policy=lambda e, f, d: False)
    r3 = ex3.run(f3)
    calls = [e for e in r3.events if e.kind == "call" and e.d["callee"].qualname.endswith("VerifyingKey.from_der")]
    ok3 = len(calls) == 1
    if ok3:
        a = [x for x in calls[0].d["args"] if unsnap(x).op != "class"]
        ok3 = len(a) == 1 and unsnap(a[0]).op == "param" and not calls[0].d["kwargs"]
    # ... and leave it only as the library's canonical encoding (named curve, uncompressed): the fixed 27-byte header is valid for nothing else
    f4 = prog.method(pc.qualname, "to_der_fmt")
    ex4 = Exec(prog, policy=lambda e, f, d: False)
    r4 = ex4.run(f4)
    mc4 = meth_call(unsnap(r4.ret)) if r4.ret is not None else None
    ok4 = mc4 is not None and mc4[1] == "to_der" and not mc4[2] and not mc4[3] and unsnap(mc4[0]).op == "attr" and unsnap(mc4[0]).args[1] == "public_key"
    rets4 = [e for e in r4.events if e.kind == "return" and e.stack == (f4.qualname,)]
    ok4 = ok4 and len(rets4) == 1
    ftd = prog.method(KEYS + ".VerifyingKey", "to_der")
    a_ = ftd.node.args
    dv_ = dict(zip([x.arg for x in a_.args][len(a_.args) - len(a_.defaults):], a_.defaults))
    ok4 = ok4 and "point_encoding" in dv_ and prog.try_fold(ftd.module, dv_["point_encoding"]) == "uncompressed" and ("curve_parameters_encoding" not in dv_ or prog.try_fold(ftd.module, dv_["curve_parameters_encoding"]) is None)
    chk.require(ok4, P("plugin-emits-canonical-der"), f4.qualname, "return self.public_key.to_der()  (default: named curve, uncompressed point)", "%s:%d" % (f4.file, f4.lineno),
                "DER output is always re-encoded by the library with its defaults, whatever encoding the key was loaded from", "to_der_fmt does not return self.public_key.to_der() with default arguments on every path (a cached or differently encoded DER breaks the fixed-header raw conversion)")
    chk.require(ok3, P("plugin-loads-through-from_der"), f3.qualname, "VerifyingKey.from_der(der_fmt)  (default validation)", "%s:%d" % (f3.file, f3.lineno), "public keys enter the library through the validating DER loader with default arguments", "public keys are not loaded by VerifyingKey.from_der(der_fmt) with default validation")


def validation_chain_rules(prog, chk, pid):
    """from_der -> from_string -> from_public_point -> Public_key.__init__ -> contains_point guard, validation on at every hop"""
    P = lambda s: "%s.%s" % (pid, s)

    def run(q):
        fi = prog.func(q)
        ex = Exec(prog, policy=lambda e, f, d: False)
        return fi, ex, ex.run(fi)

    # hop 1: from_der -> from_string, validate_point not overridden
    fi, ex, res = run(KEYS + ".VerifyingKey.from_der")
    calls = [e for e in res.events if e.kind == "call" and e.d["callee"].qualname.endswith("VerifyingKey.from_string")]
    ok = bool(calls) and all("validate_point" not in e.d["kwargs"] and len([x for x in e.d["args"] if unsnap(x).op != "class"]) < 4 for e in calls)
    rets = [e for e in res.events if e.kind == "return" and e.stack == (fi.qualname,)]
    ok = ok and all(any(unsnap(r.d["value"]) is unsnap(c.d["result"]) for c in calls) for r in rets)
    chk.require(ok, P("chain:from_der"), fi.qualname, "return cls.from_string(point_str, curve, ...)  (validate_point left at its default)", "%s:%d" % (fi.file, fi.lineno), "every key returned by from_der is built by from_string with point validation at its default", "from_der returns a key not built by from_string, or overrides validate_point")
    fs = prog.func(KEYS + ".VerifyingKey.from_string")
    a = fs.node.args
    names = [x.arg for x in a.args]
    dv = dict(zip(names[len(names) - len(a.defaults):], a.defaults))
    chk.require("validate_point" in dv and prog.try_fold(fs.module, dv["validate_point"]) is True, P("chain:from_string-default"), fs.qualname, "validate_point=True by default", "%s:%d" % (fs.file, fs.lineno), "validation is on unless switched off explicitly", "validate_point does not default to True")
    # hop 2: from_string -> from_public_point(point, curve, hashfunc, validate_point)
    fi, ex, res = run(KEYS + ".VerifyingKey.from_string")
    calls = [e for e in res.events if e.kind == "call" and e.d["callee"].qualname.endswith("VerifyingKey.from_public_point")]
    ok = len(calls) >= 1
    for e in calls:
        a = [x for x in e.d["args"] if unsnap(x).op != "class"]
        vp = a[3] if len(a) > 3 else e.d["kwargs"].get("validate_point")
        if vp is None or not (unsnap(vp).op == "param" and unsnap(vp).args[0] == "validate_point"):
            ok = False
    chk.require(ok, P("chain:from_string"), fi.qualname, "cls.from_public_point(point, curve, hashfunc, validate_point)", "%s:%d" % (fi.file, fi.lineno), "the validation flag is handed on unchanged", "from_string does not pass its validate_point flag on")
    # hop 3: from_public_point -> Public_key(generator, point, validate_point) ; InvalidPointError -> MalformedPointError
    fi, ex, res = run(KEYS + ".VerifyingKey.from_public_point")
    news = [e for e in res.events if e.kind == "new" and e.d["cls"].name == "Public_key"]
    ok = len(news) == 1
    if ok:
        a = news[0].d["args"]
        ok = len(a) == 3 and unsnap(a[2]).op == "param" and unsnap(a[2]).args[0] == "validate_point" and any(f[0] == "try" and any("InvalidPointError" in x for h in f[2] for x in h) for f in news[0].ctx)
    conv = [e for e in res.events if e.kind == "raise" and str(e.d["exc"]).endswith("MalformedPointError") and any(f[0] == "except" for f in e.ctx)]
    chk.require(ok and bool(conv), P("chain:from_public_point"), fi.qualname, "Public_key(curve.generator, point, validate_point); InvalidPointError -> MalformedPointError", "%s:%d" % (fi.file, fi.lineno), "the low-level key object is built with the flag and its rejection is converted to the documented error", "from_public_point does not build Public_key with the validation flag or does not convert its error")
    fpp = prog.func(KEYS + ".VerifyingKey.from_public_point")
    a = fpp.node.args
    names = [x.arg for x in a.args]
    dv = dict(zip(names[len(names) - len(a.defaults):], a.defaults))
    chk.require("validate_point" in dv and prog.try_fold(fpp.module, dv["validate_point"]) is True, P("chain:from_public_point-default"), fpp.qualname, "validate_point=True by default", "%s:%d" % (fpp.file, fpp.lineno), "validation is on by default", "validate_point does not default to True")
    # hop 4: the guards in Public_key.__init__
    fi, ex, res = run(ECD + ".Public_key.__init__")
    where = "%s:%d" % (fi.file, fi.lineno)
    rets = [e for e in res.events if e.kind == "return" and e.stack == (fi.qualname,)]
    gs = [g for g in res.events if g.kind == "guard" and g.d.get("term") == "raise" and "InvalidPointError" in str(g.d.get("exc"))]
    on_curve = range_guard = False
    for g in gs:
        r = raise_rel(g)
        ats = r[1] if r[0] == "and" else [r]
        if r[0] == "and" and len(ats) == 2:
            has_verify = any(a[0] == "rel" and a[1] == "Truthy" and unsnap(a[2]).op == "param" and unsnap(a[2]).args[0] == "verify" for a in ats)
            has_cp = False
            for a in ats:
                if a[0] == "rel" and a[1] == "Falsy":
                    mc = meth_call(unsnap(a[2]))
                    if mc and mc[1] == "contains_point" and len(mc[2]) == 2:
                        xs = [show(x, 3) for x in mc[2]]
                        has_cp = "'x'" in xs[0] and "'y'" in xs[1] and all("point" in s for s in xs)
            if has_verify and has_cp and all(dominates(g, x) for x in rets):
                on_curve = True
        # range guard: not (0 <= x < p) or not (0 <= y < p)
        ds = disjuncts(r)
        if len(ds) >= 2 and all(dominates(g, x) for x in rets):
            txt = " ".join(show_rel_safe(d) for d in ds)
            if "'x'" in txt and "'y'" in txt and "'p'" in txt:
                range_guard = True
    chk.require(on_curve, P("on-curve-guard"), fi.qualname, "verify and not curve.contains_point(point.x(), point.y()) -> raise InvalidPointError", where, "with verification on, a point off the curve is rejected on every accepting path", "no dominating guard rejects points that are not on the curve when verify is set")
    chk.require(range_guard, P("range-guard"), fi.qualname, "not (0 <= x < p) or not (0 <= y < p) -> raise InvalidPointError", where, "coordinates outside [0, p) are rejected unconditionally", "coordinates >= p (or negative) are not rejected")
    dfl = fi.node.args.defaults
    chk.require(len(dfl) == 1 and prog.try_fold(fi.module, dfl[0]) is True, P("on-curve-guard"), fi.qualname, "verify=True by default", where, "verification is on by default", "verify does not default to True")
    # contains_point is the curve equation
    cp = prog.method("register_crypto_plugin.ecdsa.ellipticcurve.CurveFp", "contains_point")
    exc_, rc = Exec(prog, policy=lambda e, f, d: False), None
    rc = exc_.run(cp)
    s = show(rc.ret, 12) if rc.ret is not None else ""
    ok = rc.ret is not None
    if ok:
        # decided by evaluation: the returned term, for every curve y^2 = x^3 + ax + b over four small primes and every pair of integers in [-p, 2p), must be true
        # exactly for the solutions of the equation modulo p -- however the comparison is spelled (difference reduced, both sides reduced, Horner form)
        from bfsa.evalterm import NoEval, eval_term

        leaves = {}
        for t_ in subterms(unsnap(rc.ret)):
            if t_.op == "param" and t_.args[0] in ("x", "y"):
                leaves[t_.args[0]] = t_
            elif t_.op == "attr" and t_.args[1].split("__")[-1] in ("a", "b", "p") and unsnap(t_.args[0]).op == "param":
                leaves[t_.args[1].split("__")[-1]] = t_
        ok = set(leaves) == {"x", "y", "a", "b", "p"}
        if ok:
            try:
                for p_ in (5, 7, 11, 13):
                    for a_ in (-3 % p_, 0, 1, p_ - 1):
                        for b_ in (0, 1, 2, p_ - 2):
                            for x_ in range(-p_, 2 * p_):
                                for y_ in range(-p_, 2 * p_):
                                    got = eval_term(rc.ret, {leaves["x"].uid: x_, leaves["y"].uid: y_, leaves["a"].uid: a_, leaves["b"].uid: b_, leaves["p"].uid: p_})
                                    if bool(got) != ((y_ * y_ - (x_ ** 3 + a_ * x_ + b_)) % p_ == 0) or not isinstance(got, bool):
                                        ok = False
                                        s = "for p = %d, a = %d, b = %d the point (%d, %d) gives %r" % (p_, a_, b_, x_, y_, got)
                                        raise StopIteration
            except StopIteration:
                pass
            except (NoEval, TypeError, KeyError, ZeroDivisionError) as e_:
                ok, s = False, "not evaluable: %s" % e_
    chk.require(ok, P("contains-point-equation"), cp.qualname, "(y*y - ((x*x + a)*x + b)) % p == 0", "%s:%d" % (cp.file, cp.lineno), "membership test is the short-Weierstrass equation modulo p", "contains_point is not the curve equation (%s)" % s[:80])
    # who may switch validation off
    offenders = []
    for m in prog.modules.values():
        if m.is_test:
            continue
        for n in ast.walk(m.tree):
            if isinstance(n, ast.Call):
                for kw in n.keywords:
                    if kw.arg in ("validate_point", "verify") and isinstance(kw.value, ast.Constant) and kw.value.value is False:
                        offenders.append((m, n))
                fn = n.func
                nm = fn.attr if isinstance(fn, ast.Attribute) else (fn.id if isinstance(fn, ast.Name) else "")
                if nm in ("from_public_point",) and len(n.args) >= 4 and isinstance(n.args[3], ast.Constant) and n.args[3].value is False:
                    offenders.append((m, n))
                if nm == "Public_key" and len(n.args) >= 3 and isinstance(n.args[2], ast.Constant) and n.args[2].value is False:
                    offenders.append((m, n))
    allowed = []
    for (m, n) in offenders:
        encl = None
        for f in prog.funcs.values():
            if f.module is m and isinstance(f.node, ast.FunctionDef) and f.node.lineno <= n.lineno <= (f.node.end_lineno or f.node.lineno):
                if encl is None or f.node.lineno >= encl.node.lineno:
                    encl = f
        q = encl.qualname if encl else m.name
        okq = q.endswith("SigningKey.from_secret_exponent")
        chk.require(okq, P("validation-switch-off-sites"), q, ast.unparse(n)[:70], "%s:%d" % (m.relpath, n.lineno), "the only site that skips point validation builds the public point itself as a multiple of the generator", "point validation is switched off at a site that handles external data")
    if not offenders:
        chk.ok(P("validation-switch-off-sites"), "whole program", "no call binds validate_point/verify to False", "", "validation cannot be bypassed")
    # positional bindings: whatever reaches the `validate_point` / `verify` parameter of the loaders must be that flag itself (or True)
    targets = {}
    for q, names in ((KEYS + ".VerifyingKey.from_string", ("from_string",)), (KEYS + ".VerifyingKey.from_public_point", ("from_public_point",)), (ECD + ".Public_key.__init__", ("Public_key",))):
        f = prog.funcs.get(q)
        if f is not None:
            a = f.node.args
            params = [x.arg for x in a.posonlyargs + a.args]
            if params and params[0] in ("self", "cls"):
                params = params[1:]
            for nm in names:
                targets[nm] = (f, params)
    bad_bind = []
    nsites = 0
    for m in prog.modules.values():
        if m.is_test or not m.name.startswith("register_crypto_plugin"):
            continue
        for n in ast.walk(m.tree):
            if not isinstance(n, ast.Call):
                continue
            fn = n.func
            nm = fn.attr if isinstance(fn, ast.Attribute) else (fn.id if isinstance(fn, ast.Name) else "")
            if nm not in targets:
                continue
            # SigningKey.from_string has no validation flag: only VerifyingKey / cls-in-VerifyingKey receivers count
            if nm in ("from_string", "from_public_point"):
                recv = ast.unparse(fn.value) if isinstance(fn, ast.Attribute) else ""
                encl_cls = None
                for c in ast.walk(m.tree):
                    if isinstance(c, ast.ClassDef) and c.lineno <= n.lineno <= (c.end_lineno or c.lineno):
                        encl_cls = c.name
                if not (recv == "VerifyingKey" or (recv == "cls" and encl_cls == "VerifyingKey")):
                    continue
            f, params = targets[nm]
            nsites += 1
            flag = "validate_point" if "validate_point" in params else "verify"
            bound = None
            if flag in params and params.index(flag) < len(n.args) and not any(isinstance(x, ast.Starred) for x in n.args):
                bound = n.args[params.index(flag)]
            for kw in n.keywords:
                if kw.arg == flag:
                    bound = kw.value
            if bound is None:
                continue
            okb = (isinstance(bound, ast.Constant) and bound.value is True) or (isinstance(bound, ast.Name) and bound.id in ("validate_point", "verify")) or (isinstance(bound, ast.Constant) and bound.value is False)
            if not okb:
                bad_bind.append("%s:%d %s(... %s=%s ...)" % (m.relpath, n.lineno, nm, flag, ast.unparse(bound)))
    chk.require(not bad_bind and nsites >= 3, P("validation-flag-binding"), "register_crypto_plugin (all call sites of from_string / from_public_point / Public_key)", "%d call sites: the validation flag is left at its default, passed on, or literal" % nsites, bad_bind[0].split(" ")[0] if bad_bind else "",
                "no call site binds another value (for example a shifted positional argument) to the point-validation flag", "the validation flag receives something else: %s" % bad_bind[:2])


def decoded_coordinates_rules(prog, chk, pid):
    """the integers that reach the range / on-curve guards are the DECODED coordinates: nothing may reduce or otherwise rewrite them
    between the byte string and Public_key.__init__ (a reduction mod p would turn x + p into an accepted x)"""
    P = lambda s: "%s.%s" % (pid, s)
    ECQ = "register_crypto_plugin.ecdsa.ellipticcurve"

    def run(q):
        fi = prog.func(ECQ + "." + q)
        ex = Exec(prog, policy=lambda e, f, d: False)
        return fi, ex, ex.run(fi)

    # raw decoding: exactly string_to_number of the two halves
    fi, ex, res = run("AbstractPoint._from_raw_encoding")
    v = unsnap(res.ret) if res.ret is not None else None
    ok = v is not None and v.op == "tuple" and len(v.args[0]) == 2
    if ok:
        for i, c in enumerate(v.args[0]):
            c = unsnap(c)
            good = c.op == "call" and isinstance(c.args[0], Term) and c.args[0].op == "func" and c.args[0].args[0].endswith("string_to_number") and len(c.args[1]) == 1
            if good:
                a = unsnap(c.args[1][0])
                good = a.op == "slice" and unsnap(a.args[0]).op == "param" and unsnap(a.args[0]).args[0] == fi.params[0]
                lo, hi = unsnap(a.args[1]), unsnap(a.args[2])
                def is_half(h):
                    # half of the expected length, the second parameter: L // 2 or L >> 1
                    h = unsnap(h)
                    if h.op != "bin" or not is_const(unsnap(h.args[2])):
                        return False
                    l_ = unsnap(h.args[1])
                    if not (l_.op == "param" and len(fi.params) > 1 and l_.args[0] in fi.params[1:]):
                        return False
                    return (h.args[0] == "FloorDiv" and cval(unsnap(h.args[2])) == 2) or (h.args[0] == "RShift" and cval(unsnap(h.args[2])) == 1)

                good = good and ((i == 0 and lo is NONE and is_half(hi)) or (i == 1 and hi is NONE and is_half(lo)))
            ok = ok and good
    chk.require(ok, P("decode-raw-unmodified"), fi.qualname, "return string_to_number(data[:L//2]), string_to_number(data[L//2:])", "%s:%d" % (fi.file, fi.lineno),
                "the decoded coordinates are the big-endian integers of the two halves, not reduced or rewritten", "raw decoding does not return the plain integers of the two halves (%s)" % (show(v, 6)[:120] if v is not None else None))
    # from_bytes hands decoder results on unchanged
    fi, ex, res = run("AbstractPoint.from_bytes")
    v = unsnap(res.ret) if res.ret is not None else None

    def leaves(t, out):
        t = unsnap(t)
        if t.op == "phi":
            leaves(t.args[1], out)
            leaves(t.args[2], out)
        elif t.op == "tuple":
            for x in t.args[0]:
                leaves(x, out)
        else:
            out.append(t)
        return out

    ls = leaves(v, []) if v is not None else []
    bad = []
    for t in ls:
        base = t
        if t.op == "sub" and is_const(t.args[1]):
            base = unsnap(t.args[0])
        if not (base.op == "call" and isinstance(base.args[0], Term) and base.args[0].op == "func" and base.args[0].args[0].rsplit(".", 1)[-1] in ("_from_raw_encoding", "_from_hybrid", "_from_compressed", "_from_edwards")):
            bad.append(show(t, 4)[:80])
    chk.require(bool(ls) and not bad, P("decode-passes-coordinates-on"), fi.qualname, "coord_x, coord_y = <decoder>(...); return coord_x, coord_y", "%s:%d" % (fi.file, fi.lineno),
                "from_bytes returns exactly what the encoding-specific decoder produced", "a coordinate is rewritten after decoding: %s" % bad[:2])
    for cls in ("PointJacobi", "Point"):
        fi, ex, res = run(cls + ".from_bytes")
        news = [e for e in res.events if e.kind == "new" and e.d["cls"].name == cls]
        ok = len(news) >= 1
        for e in news:
            a = e.d["args"]
            for c in a[1:3]:
                c = unsnap(c)
                base = unsnap(c.args[0]) if c.op == "sub" else c
                if not (c.op == "sub" and base.op == "call" and "from_bytes" in show(base.args[0], 3)):
                    ok = False
        chk.require(ok, P("decode-passes-coordinates-on"), fi.qualname, "%s(curve, coord_x, coord_y, ...)" % cls, "%s:%d" % (fi.file, fi.lineno), "the point object is built from the decoded coordinates unchanged", "the point is not built from the unmodified decoded coordinates")


def _ndigits_width(order: int) -> int:
    return 2 * ((len("%x" % order) + 1) // 2)


def dh_secret_rules(prog, chk, pid):
    """the shared secret handed to SHA-256 is the x coordinate of d*Q encoded with the FIXED width of the field prime"""
    import re as _re

    P = lambda s: "%s.%s" % (pid, s)
    ECDHQ = "register_crypto_plugin.ecdsa.ecdh.ECDH"
    UTIL = "register_crypto_plugin.ecdsa.util"
    # ---- plug-in: secret = ECDH(curve).generate_sharedsecret_bytes(), peer key loaded through the validating DER loader
    fi = prog.method("register_crypto_plugin.PrivateEccKeyProxy", "compute_dh_secret")
    where = "%s:%d" % (fi.file, fi.lineno)
    ex = Exec(prog, policy=lambda e, f, d: False)
    res = ex.run(fi)
    news = [e for e in res.events if e.kind == "new" and e.d["cls"].qualname == ECDHQ]
    calls = [e for e in res.events if e.kind == "call" and e.d["callee"].qualname.startswith(ECDHQ + ".") and e.d["callee"].name != "__init__"]
    ok = len(news) == 1 and res.ret is not None and not res.dead
    why = "expected exactly one ECDH object"
    if ok:
        obj = news[0].d["result"]
        curve = news[0].d["kwargs"].get("curve") or (news[0].d["args"][0] if news[0].d["args"] else None)
        ok = curve is not None and "CURVE" in show(curve, 3)
        why = "ECDH object is not bound to the proxy's CURVE"
    if ok:
        last = [c for c in calls if unsnap(res.ret) is unsnap(c.d["result"])]
        ok = len(last) == 1 and last[0].d["callee"].name == "generate_sharedsecret_bytes" and unsnap(last[0].d["recv"]) is unsnap(obj)
        why = "returned value is not ecdh.generate_sharedsecret_bytes() (the fixed-width encoding of the shared x coordinate)"
    if ok:
        pubs = [c for c in calls if c.d["callee"].name.startswith("load_received_public_key") and c.uid < last[0].uid]
        ok = len(pubs) == 1 and pubs[0].d["callee"].name in ("load_received_public_key_der", "load_received_public_key")
        if ok:
            a = unsnap(pubs[0].d["args"][-1])
            if pubs[0].d["callee"].name == "load_received_public_key":
                # the body of load_received_public_key_der written out: load_received_public_key(VerifyingKey.from_der(<DER>)) -- from_der is the validating decoder
                ok = a.op == "call" and show(a.args[0], 3).rstrip(">").endswith("VerifyingKey.from_der") and len([x for x in a.args[1] if unsnap(x).op != "class"]) == 1 and not a.args[2]
                a = unsnap([x for x in a.args[1] if unsnap(x).op != "class"][0]) if ok else a
            mc = meth_call(a)
            ok = ok and mc is not None and mc[1] == "to_der_fmt" and unsnap(mc[0]).op == "param" and unsnap(mc[0]).args[0] == fi.params[1]
        why = "peer public key is not loaded by load_received_public_key_der(public_key.to_der_fmt()) (validating loader)"
    if ok:
        privs = [c for c in calls if c.d["callee"].name.startswith("load_private_key") and c.uid < last[0].uid]
        via_ctor = news[0].d["kwargs"].get("private_key")
        src = None
        if len(privs) == 1:
            src = show(privs[0].d["args"][-1], 9)
        elif via_ctor is not None and not privs:
            src = show(via_ctor, 4)
        ok = src is not None and "self.private_key" in src and "public" not in src
        why = "own private key is not the proxy's self.private_key"
    chk.require(ok, P("dh-secret-plugin"), fi.qualname, "ECDH(CURVE) <- self.private_key, public_key.to_der_fmt(); return generate_sharedsecret_bytes()", where,
                "the DH secret is the fixed-width byte string produced by ECDH.generate_sharedsecret_bytes for (own private key, validated peer key)", why)
    # ---- ECDH.generate_sharedsecret_bytes = number_to_string(generate_sharedsecret(), p)
    fb = prog.method(ECDHQ, "generate_sharedsecret_bytes")
    ex = Exec(prog, policy=lambda e, f, d: False)
    rb = ex.run(fb)
    calls = [e for e in rb.events if e.kind == "call"]
    n2s = [c for c in calls if c.d["callee"].qualname == UTIL + ".number_to_string"]
    ok = len(n2s) == 1 and rb.ret is not None and unsnap(rb.ret) is unsnap(n2s[0].d["result"])
    why = "result is not number_to_string(...)"
    if ok:
        a0, a1 = [unsnap(x) for x in n2s[0].d["args"][:2]]
        gs = [c for c in calls if c.d["callee"].name == "generate_sharedsecret" and unsnap(c.d["result"]) is a0]
        ok = len(gs) == 1
        why = "encoded number is not self.generate_sharedsecret()"
        if ok:
            mc = meth_call(a1)
            txt = show(a1, 8)
            ok = mc is not None and mc[1] in ("p",) and not mc[2] and ".curve" in show(mc[0], 6) and "self" in txt
            why = "width is not taken from the field prime curve.p() of the object's own key/curve (%s)" % txt[:60]
    chk.require(ok, P("dh-secret-bytes"), fb.qualname, "number_to_string(self.generate_sharedsecret(), <own curve>.p())", "%s:%d" % (fb.file, fb.lineno),
                "the shared x coordinate is encoded with the byte length of the field prime", why)
    # ---- generate_sharedsecret / _get_shared_secret : x coordinate of peer_point * own_secret, INFINITY refused
    fg = prog.method(ECDHQ, "generate_sharedsecret")
    ex = Exec(prog, policy=lambda e, f, d: f.qualname == ECDHQ + "._get_shared_secret")
    rg = ex.run(fg)
    rets = [e for e in rg.events if e.kind == "return" and e.stack and e.stack[-1] == ECDHQ + "._get_shared_secret"]
    ok = bool(rets) and rg.ret is not None
    why = "no return from _get_shared_secret"
    mult = None
    for r in rets:
        mc = meth_call(unsnap(r.d["value"]))
        if not (mc and mc[1] == "x" and not mc[2]):
            ok, why = False, "shared secret is not <point>.x()"
            break
        pt = unsnap(mc[0])
        if not (pt.op == "bin" and pt.args[0] == "Mult"):
            ok, why = False, "shared point is not a scalar multiple"
            break
        l, rr = show(pt.args[1], 6), show(pt.args[2], 6)
        both = l + " | " + rr
        if not ("pubkey.point" in both and "privkey.secret_multiplier" in both and "self.private_key" in both and ("self.public_key" in both or "remote_public_key" in both)):
            ok, why = False, "shared point is not peer.pubkey.point * self.private_key.privkey.secret_multiplier (%s)" % both[:80]
            break
        mult = pt
    if ok:
        gsx = [g for g in rg.events if g.kind == "guard" and g.d.get("term") == "raise" and "InvalidSharedSecretError" in str(g.d.get("exc"))]
        ok = any("INFINITY" in show(g.d["cond"], 5) and all(dominates(g, r) for r in rets) for g in gsx)
        why = "the point at infinity is not refused before its x coordinate is taken"
    if ok:
        # the argument handed in is the stored peer key
        top = [e for e in rg.events if e.kind == "call" and e.d["callee"].name == "_get_shared_secret"]
        ok = len(top) == 1 and "self.public_key" in show(top[0].d["args"][-1], 4)
        why = "generate_sharedsecret does not use the received public key"
    chk.require(ok, P("dh-secret-x"), fg.qualname, "(peer.pubkey.point * own.privkey.secret_multiplier).x(), INFINITY -> InvalidSharedSecretError", "%s:%d" % (fg.file, fg.lineno),
                "the number encoded is the affine x coordinate of d*Q", why)
    # ---- number_to_string is fixed width: "%0<2*ceil(hexdigits/2)>x" for every order, plus the length assertion
    fn = prog.func(UTIL + ".number_to_string")
    primes = {"P-256 p": 0xFFFFFFFF00000001000000000000000000000000FFFFFFFFFFFFFFFFFFFFFFFF, "P-256 n": 0xFFFFFFFF00000000FFFFFFFFFFFFFFFFBCE6FAADA7179E84F3B9CAC2FC632551,
              "P-521 p": (1 << 521) - 1, "P-192 p": (1 << 192) - (1 << 64) - 1, "0xff": 0xFF, "0x100": 0x100, "0xfff": 0xFFF}
    bad = []
    for nm, order in primes.items():
        exn = Exec(prog, policy=lambda e, f, d: f.module.name == UTIL)
        rn = exn.run(fn, args={fn.params[1]: C(order)})
        good = False
        if rn.ret is not None:
            bc = builtin_call(unsnap(rn.ret))
            if bc and bc[0].endswith("unhexlify") and len(bc[1]) == 1:
                inner = unsnap(bc[1][0])
                mc = meth_call(inner)
                if mc and mc[1] == "encode":
                    inner = unsnap(mc[0])
                if inner.op == "bin" and inner.args[0] == "Mod" and is_const(inner.args[1]) and isinstance(cval(inner.args[1]), str):
                    m = _re.fullmatch(r"%0(\d+)x", cval(inner.args[1]))
                    num = unsnap(inner.args[2])
                    good = bool(m) and int(m.group(1)) == _ndigits_width(order) and num.op == "param" and num.args[0] == fn.params[0]
                    if not good and cval(inner.args[1]) == "%0*x" and num.op == "tuple" and len(num.args[0]) == 2:
                        # "%0*x" % (width, num): the width is taken from the argument list
                        w_, n_ = unsnap(num.args[0][0]), unsnap(num.args[0][1])
                        good = is_const(w_) and cval(w_) == _ndigits_width(order) and n_.op == "param" and n_.args[0] == fn.params[0]
        if not good:
            bad.append(nm)
    chk.require(not bad, P("number-to-string-fixed-width"), fn.qualname, "unhexlify(('%%0%dx' %% num)) for P-256; %d moduli evaluated" % (64, len(primes)), "%s:%d" % (fn.file, fn.lineno),
                "numbers are zero-padded to exactly the byte length of the modulus (leading zero bytes are kept)", "encoding is not the zero-padded fixed-width hex form for %s" % bad)


def show_rel_safe(d) -> str:
    from bfsa.guard import show_rel

    try:
        return show_rel(d, 4)
    except Exception:
        return str(d)


def run(prog, chk, tier):
    chk.explanation = ("Block layout and KDF flow are checked on the byte-layout / provenance level (04 || X||Y || AES-CBC_k(session key), k = SHA-256(ECDH x)[:16], same on both "
                       "sides); the four published recipient keys are parsed with the checker's own DER reader, tested on P-256 with the checker's own arithmetic and compared with "
                       "the pinned values; the constant 27-byte header is audited structurally; the call chain from the decryptor to CurveFp.contains_point is followed hop by hop "
                       "(each hop hands the validation flag on, defaults are True, the guard dominates acceptance, rejection is converted to MalformedPointError) and every site "
                       "that binds validation to False is allow-listed. Interoperability with OpenSSL is not decided.")
    from rules import iteronce as _iteronce
    from rules.state import LIB_MODULES as _LIB

    _iteronce.iterable_rules(prog, chk, "C09", _LIB)
    bec2.ecies_rules(prog, chk, "C09")
    bec2.block_rules(prog, chk, "C09", want={"ecc"})
    # the ephemeral public point written into a block is k*G computed through the generator's lazily built table: the block is decryptable only if that
    # table holds the affine doublings of G (C17) and is never visible half built or changed in place (C20) -- also after an interrupted first use
    from rules import c17 as _c17, c20 as _c20

    _c17.mul_rules(prog, chk, "C09")
    _c20.publication_rules(prog, chk, "C09")
    published_key_rules(prog, chk, "C09")
    header_rules(prog, chk, "C09")
    validation_chain_rules(prog, chk, "C09")
    dh_secret_rules(prog, chk, "C09")
    decoded_coordinates_rules(prog, chk, "C09")
    stackrt.guarded(chk, "C09.stack-bec2", stackbec2.bec2_file_rules, prog, chk, "C09", tier, want=("ecc-layout",))
    chk.assume("point multiplication computes d*Q on P-256 (C17 clauses); SHA-256 is hashlib's; AES as in C16")
