"""Rules about the registered AES-128 adapter (plug-in AES128Proxy), crypto.pad / create_AES128 and bf3file.cmac.

Shared by C16 (adapter is a pure zero-padded CBC), C03 (MAC definition), C02/C06/C08 (decrypt is length preserving)."""
from __future__ import annotations

from typing import List, Optional

from bfsa.guard import unsnap
from bfsa.layout import Writer, builtin_call, is_call_named, meth_call, show_segs
from bfsa.length import cong, len_key
from bfsa.load import AnalysisError, ClassInfo, FuncInfo
from bfsa.symexec import Exec
from bfsa.terms import C, NONE, Term, cval, is_const, mk, show, subterms

PLUGIN = "register_crypto_plugin"
CRYPTO = "bec2format.crypto"


def registered_aes(prog) -> ClassInfo:
    ex = Exec(prog)
    t = ex.registry.get("AES128")
    if t is None or t.op != "class":
        raise AnalysisError("no class is registered through register_AES128 in the plug-in")
    return prog.cls(t.args[0])


def _run(prog, fi, pol=None, self_cls=None):
    ex = Exec(prog, policy=pol or (lambda e, f, d: False))
    return ex, ex.run(fi, self_cls=self_cls)


def _feed_calls(res):
    return [e for e in res.events if e.kind == "call" and e.d["callee"].name == "feed"]


def _zero_pad_ok(ex, padded: Term, data_param: str, block: int = 16):
    """padded == <data> + zeros((-len(data)) % block)   (the `b'' if 0` special case is the same value)"""
    padded = unsnap(padded)
    if not (padded.op == "bin" and padded.args[0] == "Add"):
        return False, "argument is %s, not data + padding" % show(padded, 4)
    d, p = unsnap(padded.args[1]), unsnap(padded.args[2])
    if not (d.op == "param" and d.args[0] == data_param):
        return False, "padded value does not start with the data parameter"
    w = Writer(ex)
    w.list_snapshots = {}
    for e in ex.trace:
        if e.kind == "extcall" and e.d.get("snapshot_of") is not None:
            a = unsnap(e.d["args"][0])
            if a.op == "ref":
                w.list_snapshots[a.args[0]] = e.d["snapshot_of"]
    for oid, o in getattr(ex, "_final_heap", {}).items():
        w.list_snapshots.setdefault(oid, o)
    try:
        segs = w.flatten(p)
    except Exception as u:
        return False, "padding not interpretable: %s" % u
    counts = []
    if len(segs) == 1 and segs[0][0] == "zeros":
        counts = [segs[0][1]]
    elif len(segs) == 1 and segs[0][0] == "alt":
        _, cond, a, b = segs[0]
        for arm in (a, b):
            if arm == []:
                continue
            if len(arm) == 1 and arm[0][0] == "zeros":
                counts.append(arm[0][1])
            else:
                return False, "padding arm is %s" % show_segs(arm, 3)
        # the empty arm must be taken exactly when the count is 0 (otherwise bytes are dropped)
        from bfsa.guard import rel

        r = rel(cond, True)
        okc = r[0] == "rel" and r[1] in ("Eq", "NotEq") and any(is_const(x) and cval(x) == 0 for x in (r[2], r[3])) and any(unsnap(x) is unsnap(counts[0]) for x in (r[2], r[3])) if counts else False
        if not okc:
            return False, "empty-padding special case is not guarded by (pad length == 0)"
    else:
        return False, "padding is %s, not a run of 0x00 bytes" % show_segs(segs, 3)
    for c in counts:
        cg = cong(c, block)
        if cg is None:
            return False, "pad length %s is not analysable" % show(c, 4)
        co, k, lo, hi = cg
        want = {len_key(d): (block - 1)}
        if not (co == want and k == 0 and lo == 0 and hi == block - 1):
            # the same count written differently (rounding up with divmod, a ceiling division, ...): an arithmetic function of len(data) alone, periodic in it with
            # period `block` by construction of the accepted operators (+, -, *, //, % by constants, comparisons); evaluated for every length 0 .. 8 * block
            from bfsa.evalterm import NoEval, eval_term

            lens = [t_ for t_ in subterms(unsnap(c)) if t_.op == "len" and unsnap(t_.args[0]) is d]
            others = [t_ for t_ in subterms(unsnap(c)) if t_.op in ("param", "loopvar", "attr", "call") and not (t_.op == "param" and t_ is d)]
            bad_ = None
            big = [t_ for t_ in subterms(unsnap(c)) if is_const(t_) and isinstance(cval(t_), int) and not isinstance(cval(t_), bool) and abs(cval(t_)) > 4 * block]
            if not lens or others or big:
                # (a constant beyond the evaluated lengths could hide a case the grid does not reach)
                bad_ = "not a function of len(data) and small constants alone"
            else:
                try:
                    for n_ in range(0, 8 * block + 1):
                        v_ = eval_term(c, {lens[0].uid: n_})
                        if isinstance(v_, bool) or v_ != (-n_) % block:
                            bad_ = "for len(data) = %d it is %r" % (n_, v_)
                            break
                except (NoEval, TypeError, KeyError, ZeroDivisionError) as e_:
                    bad_ = "not evaluable (%s)" % (e_,)
            if bad_ is not None:
                return False, "pad length %s is not (-len(data)) mod %d in [0,%d]: %s" % (show(c, 5), block, block - 1, bad_)
    return True, ""


def _is_own_iv(iv: Term) -> bool:
    """self._iv, or the documented meaning of a missing IV spelled out: 16 zero bytes when self._iv is None, else self._iv"""
    iv = unsnap(iv)
    if iv.op == "attr" and iv.args[1] == "_iv":
        return True
    if iv.op == "phi":
        from bfsa.guard import rel

        cond, a, b = iv.args[0], unsnap(iv.args[1]), unsnap(iv.args[2])
        r = rel(cond, True)
        if r[0] == "rel" and r[1] in ("Is", "IsNot", "Eq", "NotEq"):
            x, y = unsnap(r[2]), unsnap(r[3])
            if y.op == "attr":
                x, y = y, x
            if x.op == "attr" and x.args[1] == "_iv" and y is NONE:
                none_arm, other = (a, b) if r[1] in ("Is", "Eq") else (b, a)
                return is_const(none_arm) and cval(none_arm) == bytes(16) and other is x
    return False


def adapter_rules(prog, chk, pid, want=None):
    """C16.R5..R9"""
    cls = registered_aes(prog)
    P = lambda s: "%s.%s" % (pid, s)
    W = lambda s: want is None or s in want
    base = prog.cls(CRYPTO + ".AES128")
    try:
        bs = prog.fold_class_attr(base, "BLOCK_SIZE")
        ks = prog.fold_class_attr(base, "KEY_SIZE")
    except Exception:
        bs = ks = None
    if W("constants"):
        chk.require(bs == 16 and ks == 16, P("adapter.constants"), base.qualname, "BLOCK_SIZE == KEY_SIZE == 16", "%s:%d" % (base.module.relpath, base.node.lineno), "AES-128 block and key size constants", "BLOCK_SIZE=%r KEY_SIZE=%r" % (bs, ks))
    pol = lambda e, f, d: f.module.name == PLUGIN or f.qualname.startswith(CRYPTO + ".AES128.")
    results = {}
    for name in ("encrypt", "decrypt", "mac"):
        r = cls.lookup(name)
        if r is None or not isinstance(r[1], FuncInfo) or r[0] is base:
            chk.fail(P("adapter.%s" % name), cls.qualname + "." + name, "method missing", "", "registered AES class does not implement %s" % name)
            continue
        fi = r[1]
        # (the method may live in a mixin of the registered class: it is interpreted on an object of the registered class, so that self.encrypt(...) is that class's)
        ex, res = _run(prog, fi, pol, self_cls=cls)
        ex._final_heap = res.state.heap if res.state is not None else {}
        results[name] = (fi, ex, res)
    # ---- fresh mode object per call, built from (key, iv); no state kept on self/class/global
    for name in ("encrypt", "decrypt"):
        if name not in results or not W("fresh-mode"):
            continue
        fi, ex, res = results[name]
        where = "%s:%d" % (fi.file, fi.lineno)
        news = [e for e in res.events if e.kind == "new" and e.d["cls"].name == "AESModeOfOperationCBC"]
        ok = len(news) == 1
        why = "expected exactly one AESModeOfOperationCBC(...) per call, found %d" % len(news)
        if ok:
            a = list(news[0].d["args"]) + [news[0].d["kwargs"].get("iv")] if len(news[0].d["args"]) < 2 else list(news[0].d["args"])
            k, iv = unsnap(a[0]), (unsnap(a[1]) if len(a) > 1 and a[1] is not None else None)
            ok = k.op == "attr" and k.args[1] == "_key" and iv is not None and _is_own_iv(iv)
            why = "mode is built from (%s, %s), not (self._key, self._iv)" % (show(k, 3), show(iv, 3) if iv is not None else None)
        chk.require(ok, P("adapter.fresh-mode"), fi.qualname, "AESModeOfOperationCBC(self._key, self._iv) per call", where, "a new CBC mode object starts from the IV on every call (no chaining across calls)", why)
        stores = [e for e in res.events if e.kind in ("setattr", "gstore", "clsstore") and e.stack == (fi.qualname,)]
        stores = [e for e in stores if e.kind != "setattr" or (e.d.get("origin") is not None)]
        chk.require(not stores, P("adapter.stateless"), fi.qualname, "no store to self / class / module state", stores[0].where if stores else where,
                    "results cannot depend on earlier calls: the method writes no attribute of self, no class attribute and no global", "method stores state (%s)" % (stores[0].d.get("name") if stores else ""))
        feeders = [e for e in res.events if e.kind == "new" and e.d["cls"].name in ("Encrypter", "Decrypter")]
        okf = len(feeders) == 1 and feeders[0].d["cls"].name == ("Encrypter" if name == "encrypt" else "Decrypter")
        pad = None
        if okf:
            fa = feeders[0].d["args"]
            pad = feeders[0].d["kwargs"].get("padding", fa[1] if len(fa) > 1 else None)
            okf = news and unsnap(fa[0]) is unsnap(news[0].d["result"]) and pad is not None and is_const(pad) and cval(pad) == "none"
        chk.require(bool(okf), P("adapter.feeder-protocol"), fi.qualname, "%s(mode, padding='none'); feed(x); feed()" % ("Encrypter" if name == "encrypt" else "Decrypter"), where,
                    "block feeder wraps the fresh mode object with padding disabled", "feeder is not built as documented (padding=%s)" % (show(pad, 3) if pad is not None else None))
    # ---- encrypt: zero padding, result = feed(padded) + feed()
    if "encrypt" in results and W("encrypt"):
        fi, ex, res = results["encrypt"]
        where = "%s:%d" % (fi.file, fi.lineno)
        feeds = _feed_calls(res)
        ok, why = len(feeds) == 2, "expected feed(data) followed by feed(), found %d feed calls" % len(feeds)
        if ok:
            a0 = [a for a in feeds[0].d["args"] if unsnap(a).op != "ref"]
            a1 = [a for a in feeds[1].d["args"] if unsnap(a).op != "ref"]
            if len(a0) != 1 or a1:
                ok, why = False, "feed protocol is not feed(padded data) then feed()"
            else:
                ok, why = _zero_pad_ok(ex, a0[0], fi.params[1])
        if ok:
            ret = unsnap(res.ret)
            ok = ret.op == "bin" and ret.args[0] == "Add" and unsnap(ret.args[1]) is unsnap(feeds[0].d["result"]) and unsnap(ret.args[2]) is unsnap(feeds[1].d["result"])
            why = "returned value is %s, not feed(padded) + feed()" % show(ret, 4)
        chk.require(ok, P("adapter.encrypt-zero-padded-cbc"), fi.qualname, "feed(data + 0x00*((-len(data)) % 16)) + feed()", where,
                    "ciphertext = CBC over the data zero-padded to a multiple of 16 (pad length in [0,15], congruent to -len(data) mod 16), nothing added or removed", why)
    # ---- decrypt: exactly the feeder's output
    if "decrypt" in results and W("decrypt"):
        fi, ex, res = results["decrypt"]
        where = "%s:%d" % (fi.file, fi.lineno)
        feeds = _feed_calls(res)
        ok, why = len(feeds) == 2, "expected feed(data) followed by feed(), found %d feed calls" % len(feeds)
        if ok:
            a0 = [a for a in feeds[0].d["args"] if unsnap(a).op != "ref"]
            ok = len(a0) == 1 and unsnap(a0[0]).op == "param" and unsnap(a0[0]).args[0] == fi.params[1]
            why = "first feed() does not receive the ciphertext parameter unchanged"
        if ok:
            ret = unsnap(res.ret)
            ok = ret.op == "bin" and ret.args[0] == "Add" and unsnap(ret.args[1]) is unsnap(feeds[0].d["result"]) and unsnap(ret.args[2]) is unsnap(feeds[1].d["result"])
            why = "returned value is %s: decrypt must return exactly feed(data) + feed() (length preserving); post-processing such as rstrip/strip/slicing loses plaintext bytes (keys or CRCs ending in 0x00)" % show(ret, 5)
        chk.require(ok, P("adapter.decrypt-length-preserving"), fi.qualname, "return feed(data) + feed()", where,
                    "decrypt returns exactly the zero-padded plaintext that was encrypted (same length as the ciphertext)", why)
    # ---- mac = last block of encrypt
    if "mac" in results and W("mac"):
        fi, ex, res = results["mac"]
        where = "%s:%d" % (fi.file, fi.lineno)
        ret = unsnap(res.ret)
        enc = results.get("encrypt")
        ok = ret.op == "slice" and is_const(ret.args[1]) and cval(ret.args[1]) == -16 and ret.args[2] is NONE and ret.args[3] is NONE
        why = "mac is %s, not encrypt(data)[-16:]" % show(ret, 4)
        if ok:
            calls = [e for e in res.events if e.kind == "call" and e.d["callee"].name == "encrypt" and e.stack == (fi.qualname,)]
            ok = len(calls) == 1 and unsnap(calls[0].d["result"]) is unsnap(ret.args[0]) and enc is not None and calls[0].d["callee"] is enc[0]
            if ok:
                a = [x for x in calls[0].d["args"] if unsnap(x).op != "ref"]
                ok = len(a) == 1 and unsnap(a[0]).op == "param" and unsnap(a[0]).args[0] == fi.params[1]
            why = "mac does not slice the result of self.encrypt(data)"
        chk.require(ok, P("adapter.mac-last-block"), fi.qualname, "self.encrypt(data)[-16:]", where, "MAC = last 16 bytes of the zero-padded CBC ciphertext", why)


def mac_definition_rules(prog, chk, pid):
    """C03.R5: cmac(data, key, iv) == create_AES128(key, iv).mac(data); create_AES128 passes (key, iv) through; adapter mac/encrypt as documented"""
    P = lambda s: "%s.%s" % (pid, s)
    fi = prog.func("bec2format.bf3file.cmac")
    ex, res = _run(prog, fi)
    ret = unsnap(res.ret) if res.ret is not None else None
    mc = meth_call(ret) if ret is not None else None
    ok = bool(mc) and mc[1] == "mac" and is_call_named(unsnap(mc[0]), "create_AES128") and len(mc[2]) == 1 and unsnap(mc[2][0]).op == "param" and unsnap(mc[2][0]).args[0] == fi.params[0]
    if ok:
        a = unsnap(mc[0]).args[1]
        ok = len(a) == 2 and unsnap(a[0]).op == "param" and unsnap(a[0]).args[0] == fi.params[1] and unsnap(a[1]).op == "param" and unsnap(a[1]).args[0] == fi.params[2]
    dflt = fi.node.args.defaults
    ok = ok and len(dflt) == 1 and prog.try_fold(fi.module, dflt[0], default="x") is None
    chk.require(ok, P("mac-definition"), fi.qualname, "create_AES128(key, iv).mac(data), iv default None", "%s:%d" % (fi.file, fi.lineno),
                "cmac is the registered cipher's MAC of the data under (key, iv)", "cmac is %s" % (show(ret, 5) if ret is not None else None))
    fi2 = prog.func(CRYPTO + ".create_AES128")
    ex2 = Exec(prog, policy=lambda e, f, d: False)
    res2 = ex2.run(fi2)
    news = [e for e in res2.events if e.kind in ("new", "call", "dyncall")]
    ok2 = False
    cls = registered_aes(prog)
    for e in res2.events:
        if e.kind == "new" and e.d["cls"] is cls:
            a = e.d["args"]
            ok2 = len(a) == 2 and unsnap(a[0]).op == "param" and unsnap(a[0]).args[0] == "key" and unsnap(a[1]).op == "param" and unsnap(a[1]).args[0] == "iv" and unsnap(res2.ret) is unsnap(e.d["result"])
    chk.require(ok2, P("mac-definition"), fi2.qualname, "__AES128(key, iv) -> registered class", "%s:%d" % (fi2.file, fi2.lineno),
                "create_AES128 instantiates the registered AES class with (key, iv) unchanged", "create_AES128 does not pass (key, iv) to the registered class")
    # base-class constructor keeps key and iv
    init = cls.lookup("__init__")
    ok3 = False
    if init and isinstance(init[1], FuncInfo):
        ex3, res3 = _run(prog, init[1])
        sets = {e.d["name"]: unsnap(e.d["value"]) for e in res3.events if e.kind == "setattr"}
        ok3 = "_key" in sets and "_iv" in sets and sets["_key"].op == "param" and sets["_key"].args[0] == "key" and sets["_iv"].op == "param" and sets["_iv"].args[0] == "iv"
        chk.require(ok3, P("mac-definition"), init[1].qualname, "self._key = key; self._iv = iv", "%s:%d" % (init[1].file, init[1].lineno), "cipher object keeps the key and IV it was created with", "constructor does not store key/iv unchanged")
    adapter_rules(prog, chk, pid, want={"encrypt", "mac", "fresh-mode"})


def pad_rule(prog, chk, pid):
    """crypto.pad appends (-len) % 16 zero bytes"""
    fi = prog.func(CRYPTO + ".pad")
    ex, res = _run(prog, fi)
    ex._final_heap = res.state.heap if res.state is not None else {}
    ok, why = _zero_pad_ok(ex, res.ret, fi.params[0]) if res.ret is not None else (False, "no return")
    chk.require(ok, "%s.pad-zero-to-16" % pid, fi.qualname, "data + 0x00 * ((-len(data)) % BLOCK_SIZE)", "%s:%d" % (fi.file, fi.lineno), "pad() zero-pads to the next multiple of 16 (0..15 bytes)", why)
