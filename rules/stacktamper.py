"""Damaged files (C04 / C05): an authentic BF3 image, built by the writer scenario, is damaged in every enumerated way and
handed to the real reader (MAC checks on) in concrete-control mode.

  truncation   every proper prefix of the image
  extension    bytes appended
  replacement  every single byte position after the signature: structural constants by other constants, symbolic bytes
               (payload, tag values, MAC bytes) by a fresh `tamper` symbol
  wrong key    the same image read under another session key

Each run must end in a definite FormatError / ValueError, or return exactly the original content.  MAC comparisons between
different terms are decided by the property's own assumption (enabled per scenario as `mac_axiom`): cipher blocks of different
inputs differ, and a tampered byte differs from the byte it replaced.
"""
from __future__ import annotations

from typing import List, Optional

from bfsa.exprs import sbytes
from bfsa.guard import unsnap
from bfsa.load import AnalysisError
from bfsa.terms import C, NONE, Term, cval, is_const, mk, show, sym

from rules import stackfile as F
from rules import stackrt as R

BF3Q = "bec2format.bf3file"
ALLOWED = ("Bf3FileFormatError", "Bec2FileFormatError", "ValueError", "FormatError")

READ = ("def drv(data, sk, n):\n    rdr = BytesReader(data)\n    rdr.read(n)\n    g = Bf3File.from_binary(rdr, None, True, sk)\n"
        "    return [(c.description, c.blob, c.actual_len, c.encrypt_by_session_key) for c in g.components]\n")


def _content(ex, res):
    items = ex.iter_items(res.ret, res.state)
    if items is None:
        return None
    out = []
    for it in items:
        d, blob, alen, flag = ex.unpack_to(it, 4, res.state, None)
        do = ex.obj(res.state, d)
        if do is None or do.kind != "dict" or not do.exact:
            return None
        dd = []
        for k, v in do.kv.items():
            fv = R.flat(ex, res, v)
            if fv is None:
                return None
            dd.append((k, tuple(x.uid for x in fv)))
        fb = R.flat(ex, res, blob)
        if fb is None or not is_const(alen) or not is_const(flag):
            return None
        out.append((tuple(dd), tuple(x.uid for x in fb), cval(alen), bool(cval(flag))))
    return out


def tamper_rules(prog, chk, pid, tier):
    P = lambda s: "%s.%s" % (pid, s)
    fr = prog.method(BF3Q + ".Bf3File", "from_binary")
    where = "%s:%d" % (fr.file, fr.lineno)
    enc_tag = prog.fold_class_attr(prog.cls(BF3Q + ".BF3TAG"), "ENC")
    enc_val = prog.fold_class_attr(prog.cls(BF3Q + ".BF3ENC"), "SESSIONKEY")
    sk = mk("param", "sk")
    # ---- the authentic image (reference writer of rules/stackfile.py; C03 proves the repo writer produces the same bytes)
    comps = [F.Comp([(0xC1, R.syms("t", 1)), (0xC3, R.syms("u", 2))], R.syms("a", 9), False),
             F.Comp([(0xC1, R.syms("v", 1)), (enc_tag, [C(enc_val)])], R.syms("b", 17), True),
             # a plain payload that ends in zero bytes: the zero-padded CBC-MAC input does not change when they are cut off
             F.Comp([], R.syms("z", 4) + [C(0)] * 3, False)]
    sig = [C(x) for x in b"BF3\x00\x00"]
    img = sig + F.ref_binary(comps, len(sig), sk)
    stk = R.Stack(prog, mac_axiom=True)

    def read(data: List[Term], key=sk):
        return stk.run(BF3Q, READ, {"data": sbytes(data), "sk": key, "n": C(len(sig))})

    ex, res = read(img)
    orig = _content(ex, res) if not res.dead and res.ret is not None else None
    chk.require(orig is not None and len(orig) == 3, P("tamper-baseline"), fr.qualname, "authentic three-component image (%d bytes) read back" % len(img), where,
                "the undamaged image is accepted and yields its three components", "the authentic image is not accepted by the reader")
    if orig is None:
        return

    def outcome(data, key=sk):
        ex, res = read(data, key)
        if res.dead:
            exc = str(ex._dead[1]) if ex._dead else "?"
            if any(exc.endswith(a) or a in exc.split("|") for a in ALLOWED):
                return "rejected", exc
            return "wrong-exception", exc
        got = _content(ex, res) if res.ret is not None else None
        if got is None:
            return "undecided", "result is not a single definite value"
        return ("same", "") if got == orig else ("different", "%d component(s) with other content" % len(got))

    stats = {"rejected": 0, "same": 0}
    undecided: List[str] = []

    def judge(kind, label, data, key=sk, bad=None):
        try:
            o, why = outcome(data, key)
        except AnalysisError as e:
            # the damaged byte makes the parse depend on symbolic (MAC / payload) bytes: this variant is not decided, it is listed
            undecided.append("%s: %s" % (label, str(e).split("\n")[0][-90:]))
            return bad
        if o in stats:
            stats[o] += 1
            return bad
        return bad or (label, {"different": "is accepted with different content (%s)" % why, "wrong-exception": "raises %s" % why, "undecided": "cannot be decided (%s)" % why}[o])

    # ---- truncation / extension
    bad = None
    ks = range(len(sig), len(img)) if tier == "thorough" else [k for k in range(len(sig), len(img)) if k < 60 or k % 3 == 0 or k > len(img) - 20]
    for k in ks:
        bad = judge("cut", "image cut to %d of %d bytes" % (k, len(img)), img[:k], bad=bad)
    ncut = len(list(ks))
    chk.require(bad is None, P("tamper-truncation"), fr.qualname, "%d proper prefixes of the image" % ncut, where, "every truncated image is rejected with a format error", "%s %s" % bad if bad else "")
    bad = None
    same0 = stats["same"]
    for extra in ([C(0)], [sym("x_")], [C(0)] * 16, list(img[-16:])):
        label = "image followed by %d more byte(s)" % len(extra)
        bad = judge("ext", label, img + extra, bad=bad)
        if pid == "C05" and stats["same"] > same0 and bad is None:
            # C05: "nothing follows the last payload" -- the reader has to refuse, returning the original content is not enough
            bad = (label, "is accepted (bytes after the last payload are ignored)")
    chk.require(bad is None, P("tamper-extension"), fr.qualname, "4 extensions of the image", where,
                "appended bytes are rejected" if pid == "C05" else "appended bytes are rejected (or the original content is returned)", "%s %s" % bad if bad else "")
    # ---- single byte replaced
    bad = None
    n = 0
    for i in range(len(sig), len(img)):
        t = img[i]
        if is_const(t):
            v = cval(t)
            alts = [v ^ 1, v ^ 0x80] if tier != "thorough" else sorted({v ^ 1, v ^ 0x80, v ^ 0x10, (v + 1) & 0xFF, (v - 1) & 0xFF, 0, 0xFF} - {v})
            reps = [C(a) for a in alts]
        else:
            reps = [mk("sym", "tamper", i)]
        for rep in reps:
            n += 1
            bad = judge("rep", "byte %d (%s) replaced by %s" % (i, show(t, 2)[:30], show(rep, 2)), img[:i] + [rep] + img[i + 1:], bad=bad)
    chk.require(bad is None, P("tamper-single-byte"), fr.qualname, "%d single-byte replacements (every position of directory and payload area)" % n, where,
                "every image with one byte replaced is rejected (or, when the replacement changes nothing, read as the original)", "%s %s" % bad if bad else "")
    # ---- images that break exactly one rule of the format, everything else (both MACs included) consistent
    bad = None
    defects = ["no-sentinel", "duplicate-tag", "declared-exceeds-stored", "address-off-by-one", "gap-between-payloads", "entry-index-shifted", "dir-size-too-large"]
    for dname in defects:
        dimg = sig + F.ref_binary(comps, len(sig), sk, defect=dname)
        o, why = outcome(dimg)
        if o != "rejected":
            bad = bad or (dname, "image is %s %s" % ({"same": "accepted", "different": "accepted with other content"}.get(o, o), why))
    chk.require(bad is None, P("crafted-single-defect"), fr.qualname, "%d images, each violating one rule: %s" % (len(defects), ", ".join(defects)), where,
                "an image is refused when the sentinel is missing, a description tag repeats, the declared length exceeds the stored length, addresses are not absolute and contiguous, an entry MAC was made with another entry index, or the directory size does not match",
                "defect %s: %s" % bad if bad else "")
    # ---- well-formed images with unusual but legal field values: accepted, and the content is what the fields say
    odd = [("ENC tag present with a two-byte value 00 02 (not the writer's one-byte 02): the payload is plain", [F.Comp([(enc_tag, [C(0), C(enc_val)])], R.syms("p", 16), False)]),
           ("ENC tag with the value 00 (plain)", [F.Comp([(enc_tag, [C(0)])], R.syms("q", 5), False)]),
           ("empty ENC tag value", [F.Comp([(enc_tag, [])], R.syms("r", 7), False)])]
    bad = None
    for label, cs in odd:
        oimg = sig + F.ref_binary(cs, len(sig), sk)
        ex2, res2 = read(oimg)
        got = _content(ex2, res2) if not res2.dead and res2.ret is not None else None
        want_c = [(tuple((t, tuple(x.uid for x in v)) for t, v in c.tags), tuple(x.uid for x in c.blob), len(c.blob), False) for c in cs]
        if got != want_c:
            bad = bad or (label, "is %s" % ("rejected (%s)" % (ex2._dead[1] if ex2._dead else "?") if got is None else "read with other content / flags than its fields say"))
    chk.require(bad is None, P("odd-but-valid-images"), fr.qualname, "%d well-formed images with unusual ENC tag values" % len(odd), where,
                "a well-formed authentic image is accepted and every component comes back with exactly its tags, its stored bytes and the encryption flag its ENC tag says", "%s: %s" % bad if bad else "")
    # ---- wrong session key
    o, why = outcome(img, mk("param", "other_key"))
    chk.require(o == "rejected", P("tamper-wrong-key"), fr.qualname, "authentic image read under another session key", where, "reading with a different session key is rejected", "image read under another key: %s %s" % (o, why))
    chk.info["tamper_runs"] = stk.runs
    chk.info["tamper_variants_not_decided"] = undecided[:40]
    if len(undecided) > max(12, stk.runs // 20):
        raise AnalysisError("%d of %d damaged-image variants could not be decided (first: %s)" % (len(undecided), stk.runs, undecided[0]))
    chk.info["tamper_rejected"] = stats["rejected"]
    chk.info["tamper_read_as_original"] = stats["same"]
    chk.assume("scenario axiom: block-cipher outputs of different inputs differ and a tampered byte differs from the byte it replaced (AES-CBC-MAC unforgeability, the property's own assumption)")
