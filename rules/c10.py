"""C10 -- configurations encode to bounded TLV blocks that decode to the same operations.

Decided statically: ordering (sorted deletes, then sorted sets; complementary predicates); the three TLV part layouts;
the split test against MAX_TLVBLOCK_SIZE = 117 over exactly the bytes that would be in the block; the emptiness invariant
of the block list (EMPT domain); framing `len || block ... 00`, declared length and tags in set_config.
Not decided: decode-equality for arbitrary dictionaries; the running size bound beyond the split test."""
from __future__ import annotations

import ast

from bfsa.empt import BList, Empt, TList
from bfsa.guard import raise_rel, rel, show_rel, unsnap
from bfsa.heap import Unsupported
from bfsa.layout import Writer, builtin_call, is_call_named, meth_call, show_segs
from bfsa.length import lin, lin_eq, len_key
from bfsa.load import AnalysisError, NotConst
from bfsa.symexec import Exec
from bfsa.terms import C, NONE, Term, cval, is_const, mk, show, subterms

from rules.bf3 import BF3, _self_attr, canon
from rules import c06
from rules import stackrt

LEVEL = "other"


def ordering_rules(prog, chk, pid):
    P = lambda s: "%s.%s" % (pid, s)
    fi = prog.func(BF3 + ".conf_dict_to_list")
    ex = Exec(prog, policy=lambda e, f, d: False)
    res = ex.run(fi)
    where = "%s:%d" % (fi.file, fi.lineno)
    ret = unsnap(res.ret) if res.ret is not None else None
    ok, why = ret is not None and ret.op == "bin" and ret.args[0] == "Add", "result is not <deletions> + <assignments>"
    if ok:
        first, second = unsnap(ret.args[1]), unsnap(ret.args[2])
        ok = first.op == "comp" and second.op == "comp"
        why = "result parts are not built by filtering conf_dict.items()"
    if ok:
        l1, l2 = ex.loops[first.args[3]], ex.loops[second.args[3]]

        def src_ok(lr):
            mc = meth_call(unsnap(lr.iter))
            return bool(mc) and mc[1] == "items" and unsnap(mc[0]).op == "param"

        def elt_ok(t):
            t = unsnap(t)
            # ((key, value), content) -> (key, value, content)
            if t.op != "tuple" or len(t.args[0]) != 3:
                return False
            k, v, c = [unsnap(x) for x in t.args[0]]
            def path(x):
                p = []
                while x.op == "sub" and is_const(x.args[1]):
                    p.append(cval(x.args[1]))
                    x = unsnap(x.args[0])
                return tuple(reversed(p)) if x.op == "elem" else None
            return path(k) == (0, 0) and path(v) == (0, 1) and path(c) == (1,)

        ok = src_ok(l1) and src_ok(l2) and elt_ok(first.args[1]) and elt_ok(second.args[1])
        why = "elements are not (key, value, content) of every ((key, value), content) item"
        if ok:
            # predicates: first = deletions (value is None or content is None), second = complement
            def pred(lr):
                if len(lr.conds) != 1:
                    return None
                return rel(lr.conds[0], True)

            p1, p2n = pred(l1), (rel(l2.conds[0], False) if len(l2.conds) == 1 else None)
            def canon_pred(r):
                if r is None:
                    return None
                atoms = r[1] if r[0] in ("and", "or") else [r]
                out = []
                for a in atoms:
                    if a[0] != "rel" or a[3] is None:
                        return None
                    x, y = (a[2], a[3]) if a[3] is NONE else (a[3], a[2])
                    if y is not NONE:
                        return None
                    out.append((a[1], canon(x)))
                return (r[0] if r[0] in ("and", "or") else "atom", tuple(sorted(out)))
            c1, c2 = canon_pred(p1), canon_pred(p2n)
            want = ("or", (("Is", None), ("Is", None)))
            ok = c1 is not None and c1 == c2 and c1[0] == "or" and len(c1[1]) == 2 and all(a[0] == "Is" for a in c1[1]) and c1[1][0][1] != c1[1][1][1]
            why = "first part is not filtered by (value is None or content is None) with the second part its exact complement (%s / %s)" % (show_rel(p1) if p1 else None, show_rel(rel(l2.conds[0], True)) if l2.conds else None)
        if ok:
            sorts = [e for e in res.events if e.kind == "mcall" and e.d["name"] == "sort" and not e.d["args"] and not e.d["kwargs"]]
            sorted_terms = {unsnap(e.d["recv"]).uid for e in sorts}
            ok = first.uid in sorted_terms and second.uid in sorted_terms
            why = "both groups are not sorted (plain ascending sort) before concatenation"
    chk.require(ok, P("ordering"), fi.qualname, "sorted(deletes) + sorted(sets), complementary predicates", where, "all deletions in sorted order, then all assignments in sorted order, each entry in exactly one group", why)


def part_rules(prog, chk, pid):
    """the three TLV part constructions"""
    P = lambda s: "%s.%s" % (pid, s)
    fi = prog.func(BF3 + ".conf_dict_to_tlv")
    ex = Exec(prog, policy=lambda e, f, d: False)
    res = ex.run(fi)
    where = "%s:%d" % (fi.file, fi.lineno)
    w = Writer(ex)
    w.list_snapshots = {}
    for e in ex.trace:
        if e.kind == "extcall" and e.d.get("snapshot_of") is not None:
            a = unsnap(e.d["args"][0])
            if a.op == "ref":
                w.list_snapshots[a.args[0]] = e.d["snapshot_of"]
    apps = [e for e in res.events if e.kind == "mutate" and e.d["how"] == "append" and unsnap(e.d["value"]).op == "tuple" and len(unsnap(e.d["value"]).args[0]) == 3]
    # an "arm" is one way a part comes about: the path facts of the append plus the conditions of conditional values inside the tuple
    # (three appends under if / elif / else and one append of values chosen earlier are the same three arms)
    def alternatives(t):
        t = unsnap(t)
        if t.op == "phi":
            c, x, y = t.args
            return [([(c, True)] + cs, v) for cs, v in alternatives(x)] + [([(c, False)] + cs, v) for cs, v in alternatives(y)]
        return [([], t)]

    arms = []
    arms_tested = []
    # where parts come from: tuples appended to a list, or the element of a comprehension (a tuple, or a choice between tuples made by a helper's returns)
    sources = [(e, list(getattr(e, "facts", ()) or ()) + [(f[1], f[2]) for f in e.ctx if f[0] == "if"], unsnap(e.d["value"])) for e in apps]
    if not sources:
        class _At:
            def __init__(self, where):
                self.where = where
        for lr in ex.loops.values():
            if lr.kind == "comp" and getattr(lr, "elt", None) is not None:
                alts = alternatives(lr.elt)
                if alts and all(v.op == "tuple" and len(v.args[0]) == 3 for _, v in alts):
                    for cs, v in alts:
                        sources.append((_At("%s:%d" % (fi.file, getattr(lr.node, "lineno", fi.lineno))), cs, v))
    for e, base, tup in sources:
        for c0, pre_t in alternatives(tup.args[0][0]):
            for c1, data_t in alternatives(tup.args[0][1]):
                for c2, post_t in alternatives(tup.args[0][2]):
                    conds = {}
                    feasible = True
                    for c, pol in base + c0 + c1 + c2:
                        r = rel(c, bool(pol))
                        if r[0] == "rel" and r[1] in ("Is", "IsNot") and (r[3] is NONE or r[2] is NONE):
                            x = unsnap(r[2] if r[3] is NONE else r[3])
                            if conds.get(x.uid, (r[1],))[0] != r[1]:
                                feasible = False  # x is None and x is not None: this combination cannot occur
                            conds[x.uid] = (r[1], x)
                    if feasible:
                        arms.append((e, sorted(v[0] for v in conds.values()), pre_t, data_t, post_t))
                        arms_tested.append({v[1].uid: v[0] for v in conds.values()})
    ok = len(arms) == 3
    why = "expected three TLV part constructions (delete key / delete value / set value), found %d" % len(arms)
    layouts = []
    if ok:
        for e, conds, pre_t, data_t, post_t in arms:
            pre, data, post = [w.flatten(x) for x in (pre_t, data_t, post_t)]
            layouts.append((e, conds, pre, data, post))

        def is_key_hi(t):
            t = unsnap(t)
            # key >> 8, or key // 256 (the same for every int: both floor)
            return t.op == "bin" and is_const(t.args[2]) and ((t.args[0] == "RShift" and cval(t.args[2]) == 8) or (t.args[0] == "FloorDiv" and cval(t.args[2]) == 256))

        def is_key_lo(t, hi):
            t = unsnap(t)
            # key & 0xFF, or key % 256
            return t.op == "bin" and is_const(t.args[2]) and ((t.args[0] == "BitAnd" and cval(t.args[2]) == 0xFF) or (t.args[0] == "Mod" and cval(t.args[2]) == 256)) and unsnap(t.args[1]) is unsnap(unsnap(hi).args[1])

        def pre_ok(pre, op):
            return len(pre) == 3 and pre[0] == ("const", bytes([op])) and pre[1][0] == "int" and pre[1][1] == 1 and is_key_hi(pre[1][2]) and pre[2][0] == "int" and is_key_lo(pre[2][2], pre[1][2])

        kinds = []
        for e, conds, pre, data, post in layouts:
            if pre_ok(pre, 0x02) and data == [] and post == []:
                kinds.append("delete-key")
            elif pre_ok(pre, 0x01) and len(data) == 2 and data[0][0] == "int" and data[0][1] == 1 and data[1] == ("const", b"\xff") and post == [("const", b"\xff")]:
                kinds.append("delete-value")
            elif pre_ok(pre, 0x01) and len(data) == 3 and data[0][0] == "int" and data[0][1] == 1 and data[1][0] == "int" and data[1][1] == 1 and data[2][0] == "opaque" and unsnap(data[1][2]).op == "len" and unsnap(unsnap(data[1][2]).args[0]) is unsnap(data[2][1]) and post == [("const", b"\xff")]:
                kinds.append("set-value")
            else:
                kinds.append("?%s|%s|%s" % (show_segs(pre, 2), show_segs(data, 2), show_segs(post, 2)))
        ok = sorted(kinds) == ["delete-key", "delete-value", "set-value"]
        why = "TLV parts are %s; documented 02 KK KK | 01 KK KK VV FF FF | 01 KK KK VV LL content FF" % kinds
        if ok:
            # arm selection: delete-key iff value is None; delete-value iff value not None and content None
            for (e, conds, pre, data, post), kind in zip(layouts, kinds):
                if kind == "delete-key":
                    good = conds == ["Is"]
                elif kind == "delete-value":
                    good = conds == ["Is", "IsNot"]
                else:
                    good = conds == ["IsNot", "IsNot"]
                if not good:
                    ok, why = False, "part '%s' is selected under the None-tests %s" % (kind, conds)
            if ok:
                # the same two values are tested throughout: value (None -> delete key), then content (None -> delete value)
                by_kind = dict(zip(kinds, arms_tested))
                (v_uid,) = by_kind["delete-key"].keys()
                dv, sv = by_kind["delete-value"], by_kind["set-value"]
                ok = dv.get(v_uid) == "IsNot" and sv.get(v_uid) == "IsNot" and set(dv) == set(sv) and [k for k, o in dv.items() if o == "Is"] == [k for k in sv if k != v_uid]
                why = "the three parts are not selected by `value is None` / `content is None` on the same two values"
    chk.require(ok, P("tlv-parts"), fi.qualname, "02 KK KK | 01 KK KK VV FF / FF | 01 KK KK VV LL content / FF", where, "the three part constructions have the documented byte layouts and selection conditions (key big-endian, LL = len(content))", why)
    # ---- split test
    try:
        mx = prog.fold_name(prog.module(BF3), "MAX_TLVBLOCK_SIZE")
    except NotConst:
        mx = None
    chk.require(mx == 117, P("block-limit-117"), BF3, "MAX_TLVBLOCK_SIZE == 117", "", "block limit constant", "MAX_TLVBLOCK_SIZE is %r" % (mx,))
    branches = [e for e in res.events if e.kind in ("branch", "guard") and any(f[0] == "loop" for f in e.ctx)]
    found = None
    for b in branches:
        r = rel(b.d["cond"], True)
        # `len(...) > T` closes a block as soon as it would exceed T bytes, `len(...) >= T` as soon as it would exceed T - 1: any bound of at most 117 keeps the property
        # (the documented limit is a maximum; splitting earlier only produces more, smaller blocks)
        def len_sum(t):
            """operands x1..xn if t is len(x1) + ... + len(xn) (the length of their concatenation), else None"""
            t = unsnap(t)
            if t.op == "len":
                return [t.args[0]]
            if t.op == "bin" and t.args[0] == "Add":
                a_, b_ = len_sum(t.args[1]), len_sum(t.args[2])
                return a_ + b_ if a_ is not None and b_ is not None else None
            return None

        if r[0] == "rel" and r[1] in ("Lt", "LtE") and is_const(r[2]) and isinstance(cval(r[2]), int) and len_sum(r[3]) is not None:
            bound = cval(r[2]) if r[1] == "Lt" else cval(r[2]) - 1
            if 1 <= bound <= 117:
                found = (b, len_sum(r[3]))
    ok = found is not None
    why = "no split test in the merge loop that closes a block before it would exceed 117 bytes"
    if ok:
        segs = []
        for x_ in found[1]:
            segs += w.flatten(x_)
        names = [canon(s[1]) if s[0] == "opaque" else s[0] for s in segs]
        # current block, pending postface, preface, data, postface of the entry
        ok = len(segs) == 5 and all(s[0] == "opaque" for s in segs)
        why = "split test measures %s; documented: current block + pending postface + preface + data + the entry's own postface" % names
        if ok:
            want_tail = ["preface", "data", "postface"]
            t = [unsnap(s[1]) for s in segs]
            ok = t[0].op == "sub" and is_const(t[0].args[1]) and cval(t[0].args[1]) == -1 and t[1].op == "loopvar" and all(x.op in ("elem", "sub") for x in t[2:])
            why = "split test operands are %s" % names
    chk.require(ok, P("split-test"), fi.qualname, "len(block + last_postface + preface + data + postface) > 117", found[0].where if found else where, "a block is closed exactly when adding the entry (with both postfaces) would exceed 117 bytes", why)


def emptiness_rule(prog, chk, pid):
    fi = prog.func(BF3 + ".conf_dict_to_tlv")
    where = "%s:%d" % (fi.file, fi.lineno)
    try:
        e = Empt(fi.node, {"conf_dict_to_list": TList(("?", "?", "?"))}).run({p: "?" for p in fi.params})
    except Unsupported as u:
        raise AnalysisError("emptiness analysis of conf_dict_to_tlv: %s" % u)
    for f in e.findings:
        src = ast.get_source_segment(fi.module.source, _stmt_at(fi.node, f.lineno)) or ""
        chk.fail("%s.no-empty-block" % pid, fi.qualname, " ".join(src.split())[:120], "%s:%d" % (fi.file, f.lineno), f.msg + " (e.g. a first entry larger than the block limit: {(1,1): bytes(200)} gives block lengths [0, 206])")
    ok = bool(e.returns)
    why = "no return"
    for ln, v in e.returns:
        if not isinstance(v, BList) or v.closed not in (None, "N") or v.last not in (None, "N"):
            ok, why = False, "returned block list may contain an empty block (%s)" % (v,)
    if not e.findings:
        chk.require(ok, "%s.no-empty-block" % pid, fi.qualname, "returned blocks: all non-empty", where, "emptiness invariant: every closed block is non-empty when closed and an empty last block is removed (%d block-closing sites analysed)" % e.closed_events, why)
    chk.info["empt_closing_sites"] = e.closed_events


def _stmt_at(fn, lineno):
    for n in ast.walk(fn):
        if isinstance(n, ast.stmt) and getattr(n, "lineno", None) == lineno:
            return n
    return fn


def framing_rules(prog, chk, pid):
    P = lambda s: "%s.%s" % (pid, s)
    fi = prog.method(BF3 + ".Bf3File", "set_config")
    ex = Exec(prog, policy=lambda e, f, d: False)
    res = ex.run(fi)
    where = "%s:%d" % (fi.file, fi.lineno)
    news = [e for e in res.events if e.kind == "new" and e.d["cls"].name == "Bf3Component"]
    ok, why = len(news) == 1, "set_config does not build exactly one component"
    if ok:
        params = prog.method(BF3 + ".Bf3Component", "__init__").params[1:]
        a = dict(zip(params, news[0].d["args"]))
        a.update(news[0].d["kwargs"])
        blob, alen = a.get("blob"), a.get("actual_len")
        w = Writer(ex)
        try:
            segs = w.flatten(blob)
        except Unsupported as u:
            raise AnalysisError("configuration blob layout not interpretable: %s" % u)
        ok = len(segs) == 2 and segs[0][0] == "repeat" and segs[1] == ("const", b"\x00")
        why = "blob is %s; documented {U8 len, block}* 00" % show_segs(segs, 3)
        if ok:
            body = segs[0][2]
            ok = len(body) == 2 and body[0][0] == "int" and body[0][1] == 1 and body[1][0] == "opaque" and unsnap(body[0][2]).op == "len" and unsnap(unsnap(body[0][2]).args[0]) is unsnap(body[1][1])
            why = "block record is %s; documented U8 len(block), block" % show_segs(body, 3)
        if ok:
            it = unsnap(segs[0][3])
            # tlv blocks from conf_dict_to_tlv(config), followed by the caller's additional blocks
            alts = [it] if it.op != "phi" else [unsnap(x) for x in it.args[1:]]
            good = True
            for alt in alts:
                parts = []
                def flat(t):
                    t = unsnap(t)
                    if t.op == "bin" and t.args[0] == "Add":
                        flat(t.args[1]); flat(t.args[2])
                    else:
                        parts.append(t)
                flat(alt)
                if not (parts and is_call_named(parts[0], "conf_dict_to_tlv") and len(parts[0].args[1]) == 1 and unsnap(parts[0].args[1][0]).op == "param" and unsnap(parts[0].args[1][0]).args[0] == "config"):
                    good = False
                if len(parts) > 2:
                    good = False
                if len(parts) == 2:
                    o = ex.obj(res.state, parts[1])
                    src = getattr(o, "base", None) if o is not None else None
                    if not (src is not None and unsnap(src).op == "param" and unsnap(src).args[0] == "additional_tvl_blocks"):
                        good = False
            ok = good and any(True for _ in alts)
            why = "blocks framed are not conf_dict_to_tlv(config) followed by the caller's additional blocks"
        if ok:
            ok = alen is not None and unsnap(alen).op == "len" and unsnap(unsnap(alen).args[0]) is unsnap(blob)
            why = "declared length is not len(blob)"
    chk.require(ok, P("framing"), fi.qualname, "{U8 len(block), block}* over tlv blocks + additional blocks, then 00; actual_len = len(blob)", where, "length-prefixed blocks closed by a single 00, caller's blocks appended unchanged, declared length = blob length", why)


def _traversals(node, name) -> int:
    """upper bound of how often `name` is traversed on one path through `node` (truth tests, `is None`, len() do not traverse)"""
    if isinstance(node, list):
        return sum(_traversals(x, name) for x in node)
    if isinstance(node, ast.If):
        return _traversals(node.test, name) + max(_traversals(node.body, name), _traversals(node.orelse, name))
    if isinstance(node, (ast.For, ast.While)):
        inner = _traversals(node.body, name) + (_traversals(node.test, name) if isinstance(node, ast.While) else 0)
        return (_traversals(node.iter, name) if isinstance(node, ast.For) else 0) + (2 * inner) + _traversals(node.orelse, name)
    if isinstance(node, ast.For):
        pass
    if isinstance(node, (ast.ListComp, ast.SetComp, ast.GeneratorExp, ast.DictComp)):
        n = 0
        for k, g in enumerate(node.generators):
            n += _traversals(g.iter, name) * (1 if k == 0 else 2) + 2 * sum(_traversals(c, name) for c in g.ifs)
        elts = [node.key, node.value] if isinstance(node, ast.DictComp) else [node.elt]
        return n + 2 * sum(_traversals(e, name) for e in elts)
    if isinstance(node, ast.Name):
        return 1 if node.id == name and isinstance(node.ctx, ast.Load) else 0
    if isinstance(node, ast.Call) and isinstance(node.func, ast.Name) and node.func.id in ("len", "bool", "isinstance", "type", "id") and all(isinstance(a, ast.Name) and a.id == name for a in node.args):
        return 0
    if isinstance(node, ast.Compare) and isinstance(node.left, ast.Name) and node.left.id == name and all(isinstance(o, (ast.Is, ast.IsNot)) for o in node.ops):
        return sum(_traversals(c, name) for c in node.comparators)
    if isinstance(node, ast.BoolOp) or isinstance(node, ast.UnaryOp) and isinstance(node.op, ast.Not):
        vals = node.values if isinstance(node, ast.BoolOp) else [node.operand]
        return sum(0 if isinstance(v, ast.Name) and v.id == name else _traversals(v, name) for v in vals)
    if isinstance(node, ast.Try):
        return _traversals(node.body, name) + max([_traversals(h.body, name) for h in node.handlers] + [0]) + _traversals(node.orelse, name) + _traversals(node.finalbody, name)
    if isinstance(node, (ast.FunctionDef, ast.Lambda, ast.AsyncFunctionDef)):
        return 2 * sum(_traversals(c, name) for c in ast.iter_child_nodes(node))
    return sum(_traversals(c, name) for c in ast.iter_child_nodes(node))


def single_pass_rule(prog, chk, pid):
    """the caller's extra blocks are declared as an Iterable: a generator or map object gives its items once, so everything the function does with them has to happen in ONE traversal"""
    P = lambda s: "%s.%s" % (pid, s)
    fi = prog.method(BF3 + ".Bf3File", "set_config")
    name = "additional_tvl_blocks"
    if name not in fi.params:
        raise AnalysisError("set_config has no parameter %s" % name)
    body = fi.node.body
    n = 0
    for st in body:
        # `if param:` at statement level is a truth test, not a traversal
        if isinstance(st, ast.If) and isinstance(st.test, ast.Name) and st.test.id == name:
            n += max(_traversals(st.body, name), _traversals(st.orelse, name))
        else:
            n += _traversals(st, name)
    rebound = any(isinstance(x, ast.Name) and x.id == name and isinstance(x.ctx, ast.Store) for x in ast.walk(fi.node))
    chk.require(n <= 1 or rebound, P("extra-blocks-single-pass"), fi.qualname, "uses of %s that traverse it, along one path" % name, "%s:%d" % (fi.file, fi.lineno),
                "the extra blocks are traversed at most once (they may come from a generator), so all of them reach the component",
                "%s is traversed %d times on one path: a one-shot iterable is exhausted by the first traversal and the blocks are silently dropped" % (name, n))


def _decode_block(b):
    """decode one TLV block (list of byte terms; control bytes must be constants) into operations"""
    ops = []
    pos, n = 0, len(b)
    cv = lambda i: cval(b[i]) if i < n and is_const(b[i]) else None
    while pos < n:
        op, kh, kl = cv(pos), cv(pos + 1), cv(pos + 2)
        if op not in (1, 2) or kh is None or kl is None:
            return None
        key = (kh << 8) | kl
        pos += 3
        if op == 2:
            ops.append(("delkey", key))
            continue
        first = True
        while True:
            if pos >= n:
                break  # a block may end without the closing FF
            v = cv(pos)
            if v is None:
                return None
            if v == 0xFF:
                pos += 1
                break
            ln = cv(pos + 1)
            if ln is None:
                return None
            if ln == 0xFF:
                ops.append(("delval", key, v))
                pos += 2
            else:
                if pos + 2 + ln > n:
                    return None
                ops.append(("set", key, v, tuple(x.uid for x in b[pos + 2:pos + 2 + ln])))
                pos += 2 + ln
            first = False
        if first:
            return None  # a value group without any entry
    return ops


def tlv_scenarios(prog, chk, pid, tier):
    """conf_dict_to_tlv / set_config on enumerated dictionaries (keys, value ids and content LENGTHS enumerated, in particular sizes
    landing on, below and above the 117-byte limit; contents symbolic), interpreted in concrete-control mode and decoded by an
    independent decoder of the block format"""
    from bfsa.exprs import sbytes
    from rules import stackrt as R

    P = lambda s_: "%s.%s" % (pid, s_)
    stk = R.Stack(prog)
    fi = prog.func(BF3 + ".conf_dict_to_tlv")
    where = "%s:%d" % (fi.file, fi.lineno)
    LIMIT = 117
    dicts = []
    # (key, value, content length | None for a delete)   value None = delete key
    dicts.append([((0x0101, 3), 5), ((0x0101, 4), 7), ((0x0202, 0x82), 8), ((0x0620, 1), 2)])
    dicts.append([((0x0101, None), None), ((0x0300, 5), None), ((0x0300, 6), None), ((0x0101 + 1, 3), 10)])
    dicts.append([])
    for first in (109, 110, 111, 112, 113):  # entry size 3 + 2 + n + 1: 115..119 around the limit
        dicts.append([((0x0101, 1), first), ((0x0101, 2), 4)])
        dicts.append([((0x0100, None), None), ((0x0101, 1), first - 3), ((0x0101, 2), 1)])
        dicts.append([((0x0101, 1), 20), ((0x0102, 1), first - 26), ((0x0103, 9), 3)])
    for a in (100, 104, 105, 106):
        dicts.append([((0x0200, 1), a), ((0x0200, 2), 3), ((0x0200, 3), 2), ((0x0201, 1), 1)])
    dicts.append([((0x0101, 1), 200), ((0x0101, 2), 5)])  # an oversize entry in first position
    dicts.append([((0x0101, 1), 5), ((0x0101, 2), 254), ((0x0101, 3), 5)])  # oversize in the middle
    # insertion order differs from sorted order, deletions inserted between and after assignments
    dicts.append([((0x0620, 1), 2), ((0x0400, None), None), ((0x0101, 4), 7), ((0x0200, 9), None), ((0x0101, 3), 5), ((0x0100, None), None), ((0x0200, 2), None)])
    dicts.append([((0x0300, 2), 3), ((0x0300, 1), None), ((0x0101, 9), 1), ((0x0050, None), None)])
    # assignments of empty content (0 bytes is a legal content) next to deletions that sort after them
    dicts.append([((0x0101, 1), 0), ((0x0300, 2), None), ((0x0050, 7), 3), ((0x0400, None), None)])
    dicts.append([((0x0200, 5), 0), ((0x0200, 6), 0), ((0x0200, 7), None)])
    # the ends of the value-id range: 0 (falsy) and 0xFE, set and deleted, each followed by further entries of the same and of another key
    dicts.append([((0x0101, 0), 4), ((0x0101, 1), 3), ((0x0102, 0), 2), ((0x0102, 0xFE), 1)])
    dicts.append([((0x0200, 0), None), ((0x0200, 3), None), ((0x0300, 0), 5), ((0x0300, 0xFE), None), ((0x0000, 0), 1), ((0x0000, 1), 0)])
    dicts.append([((0x0400 + i, 1), 30) for i in range(9)])
    dicts.append([((0x0500, i), 11) for i in range(1, 30)])
    if tier == "thorough":
        for a in range(95, 118):
            for b_ in (0, 1, 7):
                dicts.append([((0x0010, None), None), ((0x0101, 1), a), ((0x0101, 2), b_), ((0x0102, 1), 3)])
    bad = None
    for dspec in dicts:
        args = {}
        items = []
        want_del, want_set = [], []
        fits = True
        for i, ((key, val), ln) in enumerate(dspec):
            if val is None:
                items.append("(%d, None): None" % key)
                want_del.append(("delkey", key, -1))
            elif ln is None:
                items.append("(%d, %d): None" % (key, val))
                want_del.append(("delval", key, val))
            else:
                content = R.syms("c%d_" % i, ln)
                args["c%d" % i] = sbytes(content)
                items.append("(%d, %d): c%d" % (key, val, i))
                want_set.append(("set", key, val, tuple(x.uid for x in content)))
                if 3 + 2 + ln + 1 > LIMIT:
                    fits = False
        want = [(t[0], t[1]) if t[0] == "delkey" else t for t in sorted(want_del, key=lambda t: (t[1], t[2]))] + sorted(want_set, key=lambda t: (t[1], t[2]))
        src = "def drv(%s):\n    return conf_dict_to_tlv({%s})\n" % (", ".join(sorted(args)), ", ".join(items))
        ex, res = stk.run(BF3, src, args)
        label = "%d entries %s" % (len(dspec), [(hex(k), v, l) for (k, v), l in dspec][:4])
        if res.dead or res.ret is None:
            bad = bad or (label, "raises")
            continue
        blocks = ex.iter_items(res.ret, res.state)
        if blocks is None:
            bad = bad or (label, "result is not a list of known blocks")
            continue
        ops = []
        for bi, blk in enumerate(blocks):
            bb = R.flat(ex, res, blk)
            if bb is None:
                bad = bad or (label, "block %d has unknown bytes" % bi)
                break
            if len(bb) == 0:
                bad = bad or (label, "block %d is empty (block lengths %s)" % (bi, [len(R.flat(ex, res, x) or []) for x in blocks]))
            if fits and len(bb) > LIMIT:
                bad = bad or (label, "block %d has %d bytes, limit is %d" % (bi, len(bb), LIMIT))
            d = _decode_block(bb)
            if d is None:
                bad = bad or (label, "block %d does not decode" % bi)
                break
            if len(d) > 1 and len(bb) > LIMIT:
                # an entry that does not fit sits alone in its block: anything appended to it makes a block that the one-byte length prefix may not be able to express
                bad = bad or (label, "block %d holds %d entries and has %d bytes, limit is %d (only a single oversize entry may exceed it)" % (bi, len(d), len(bb), LIMIT))
            ops.extend(d)
        else:
            if ops != want:
                bad = bad or (label, "decodes to %d operations %s..., the dictionary has %d %s..." % (len(ops), [o[:3] for o in ops[:4]], len(want), [o[:3] for o in want[:4]]))
    # ---- set_config: the component's content is len||block for every block of conf_dict_to_tlv(config), then the caller's extra blocks framed the
    # same way and unchanged, then one 00; declared length = content length; marked for encryption
    fs = prog.method(BF3 + ".Bf3File", "set_config")
    bad_f = None
    n_f = 0
    for dspec_src, cargs in (("{(0x0101, 3): c0, (0x0620, 1): c1, (0x0300, None): None}", {"c0": 5, "c1": 2}), ("{}", {}), ("{(0x0101, 1): c0, (0x0101, 2): c1}", {"c0": 111, "c1": 4})):
        for extras in ((), (3,), (1, 20)):
            for form in ("[%s]", "(%s,)", "iter([%s])"):
                if not extras and form != "[%s]":
                    continue
                n_f += 1
                args = {k: sbytes(R.syms(k + "_", n)) for k, n in cargs.items()}
                xs = {"x%d" % i: R.syms("x%d_" % i, n) for i, n in enumerate(extras)}
                args.update({k: sbytes(v) for k, v in xs.items()})
                extra_src = (form % ", ".join(sorted(xs))) if extras else "()"
                src = ("def drv(%s):\n    f = Bf3File()\n    f.set_config(%s, %s)\n    c = f.components[-1]\n    return (c.blob, c.actual_len, c.encrypt_by_session_key, conf_dict_to_tlv(%s), len(f.components))\n"
                       % (", ".join(sorted(args)), dspec_src, extra_src, dspec_src))
                ex, res = stk.run(BF3, src, args)
                label = "set_config(%s, %d extra block(s) as %s)" % (dspec_src[:40], len(extras), form % "...")
                if res.dead or res.ret is None or unsnap(res.ret).op != "tuple":
                    bad_f = bad_f or (label, "raises")
                    continue
                blob, alen, flag, blocks, ncomp = unsnap(res.ret).args[0]
                got = R.flat(ex, res, blob)
                bl = ex.iter_items(blocks, res.state)
                if got is None or bl is None:
                    bad_f = bad_f or (label, "content is not a definite byte string")
                    continue
                want_b = []
                for b_ in [R.flat(ex, res, x) for x in bl] + [xs[k] for k in sorted(xs)]:
                    want_b += [C(len(b_))] + list(b_)
                want_b.append(C(0))
                if len(got) != len(want_b) or any(a is not b for a, b in zip(got, want_b)):
                    bad_f = bad_f or (label, "content (%d bytes) is not len||block for the %d TLV blocks and %d extra blocks followed by 00 (%d bytes)" % (len(got), len(bl), len(extras), len(want_b)))
                elif not (is_const(alen) and cval(alen) == len(want_b)) or not (is_const(flag) and cval(flag) is True) or not (is_const(ncomp) and cval(ncomp) == 1):
                    bad_f = bad_f or (label, "declared length / encryption flag / component count are %s / %s / %s" % (show(alen, 2), show(flag, 2), show(ncomp, 2)))
    chk.require(bad_f is None, P("set-config-scenarios"), fs.qualname, "%d calls: dictionaries x extra blocks given as list / tuple / one-shot iterator" % n_f, "%s:%d" % (fs.file, fs.lineno),
                "the configuration component's content is every TLV block and every extra block prefixed by its length, in order and unchanged, closed by one 00; declared length = content length; encrypt-on-write set",
                "%s: %s" % bad_f if bad_f else "")
    chk.require(bad is None, P("tlv-scenarios"), fi.qualname, "%d dictionaries (sizes around the 117-byte limit, oversize entries, deletions), symbolic contents" % len(dicts), where,
                "for every enumerated dictionary no block is empty, every block is at most 117 bytes when each entry fits, and the blocks decode (independent decoder) to exactly the deletions in sorted order followed by the assignments in sorted order, each once with its exact content",
                "%s: %s" % bad if bad else "")
    chk.info["tlv_scenarios"] = len(dicts)


def run(prog, chk, tier):
    chk.explanation = ("conf_dict_to_list's result is decomposed into its two filtered, sorted groups (complementary predicates in relational normal form); the three TLV part "
                       "constructors are interpreted in the byte-layout domain; the split test's operand is the concatenation of current block, pending postface and the whole "
                       "entry, compared strictly with 117; an emptiness abstract interpretation (E/N/U per byte string, closed/last summary of the block list, disjunctive loop "
                       "fixpoint) proves that no closed block is empty and an empty last block is removed; set_config frames `len || block`* 00 with declared length and the "
                       "documented tags. For enumerated dictionaries with symbolic contents the blocks are decoded by an independent decoder and compared with the dictionary's operations.")
    from rules import state as _state

    _state.library_state_rules(prog, chk, "C10")
    ordering_rules(prog, chk, "C10")
    part_rules(prog, chk, "C10")
    emptiness_rule(prog, chk, "C10")
    framing_rules(prog, chk, "C10")
    single_pass_rule(prog, chk, "C10")
    c06.config_component(prog, chk, "C10")
    stackrt.guarded(chk, "C10.tlv-scenarios", tlv_scenarios, prog, chk, "C10", tier)
    chk.shape_fallback("ordering", ["tlv-scenarios"], "dictionaries with unsorted insertion order and interleaved deletions included")
    chk.shape_fallback("framing", ["set-config-scenarios"])
    # the split test and the emptiness analysis read conf_dict_to_tlv's own loop; when the merging is written differently (moved into a helper, block under construction kept in a
    # local) the scenarios still decode every block of dictionaries whose sizes land on, below and above the limit, with deletions and oversize entries in every position
    chk.shape_fallback("split-test", ["tlv-scenarios"])
    chk.shape_fallback("no-empty-block", ["tlv-scenarios"])
    chk.shape_fallback("tlv-parts", ["tlv-scenarios"])
    chk.assume("keys 0..0xFFFF, value ids 0..0xFE, contents up to 254 bytes as in the property's quantifier")
