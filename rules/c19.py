"""C19 -- key and point encodings round-trip and are byte-compatible with OpenSSL.

Decided statically: (R1) exception-escape sets of the decoders of the vendored ECC library are within {classes defined in
the ecdsa package} U ValueError family; (R2) every DER `remove_*` primitive has an emptiness guard and a length-vs-buffer
guard (sibling rule); (R3) the remainder of parsing a decoder's input is checked empty, every remainder is used; (R4) OIDs
and the 27-byte header are audited constants; (R5) point encoders and decoders agree on prefix bytes.
Not decided: byte compatibility with OpenSSL as executed; round-trip value equality."""
from __future__ import annotations

import ast
import json
import os

from bfsa import constaudit as ca
from bfsa.exc import ExcAnalysis
from bfsa.guard import disjuncts, dominates, raise_rel, rel, show_rel, unsnap
from bfsa.layout import builtin_call, is_call_named, meth_call
from bfsa.length import lin, lin_eq, len_key
from bfsa.load import AnalysisError, NotConst
from bfsa.symexec import Exec
from bfsa.terms import C, NONE, Term, cval, is_const, mk, show, subterms
from rules import stackrt

LEVEL = "other"
VERIF = os.path.dirname(os.path.dirname(os.path.abspath(__file__)))
from bfsa.heap import Unsupported

E = "register_crypto_plugin.ecdsa."
OIDS = json.load(open(os.path.join(VERIF, "spec", "oids.json")))
DISCHARGE = json.load(open(os.path.join(VERIF, "spec", "discharge.json")))

ENTRY = [
    "der.remove_sequence", "der.remove_integer", "der.remove_object", "der.remove_octet_string", "der.remove_constructed", "der.remove_bitstring", "der.unpem",
    "keys.VerifyingKey.from_der", "keys.VerifyingKey.from_pem", "keys.VerifyingKey.from_string",
    "keys.SigningKey.from_der", "keys.SigningKey.from_pem", "keys.SigningKey.from_string",
    "curves.Curve.from_der", "ellipticcurve.PointJacobi.from_bytes",
]


def make_analysis(prog):
    summ = {}
    for q, f in prog.funcs.items():
        if q.startswith(E + "numbertheory.") and f.parent is None and f.cls is None:
            summ[q] = {E + "numbertheory.Error"}
    for cn in ("PointJacobi", "Point", "CurveFp"):
        for mn, m in prog.cls(E + "ellipticcurve." + cn).methods.items():
            if mn != "from_bytes":
                summ[m.qualname] = set()
    for cn in ("PointEdwards", "CurveEdTw"):
        for mn, m in prog.cls(E + "ellipticcurve." + cn).methods.items():
            summ[m.qualname] = set()
    summ[E + "ellipticcurve.AbstractPoint._from_edwards"] = set()
    for q in prog.funcs:
        if q.startswith(E + "eddsa."):
            summ[q] = set()
    summ[E + "ecdsa.Public_key.__init__"] = {E + "ecdsa.InvalidPointError"}
    summ[E + "ecdsa.Private_key.__init__"] = set()
    inl = {E + "ellipticcurve.PointJacobi.from_bytes", E + "keys.VerifyingKey.__init__", E + "keys.SigningKey.__init__", E + "curves.Curve.__init__", E + "curves.find_curve", E + "curves.orderlen"}

    def inline(ex, fi, depth):
        if fi.qualname in summ:
            return False
        if fi.parent is not None or fi.name == "<lambda>":
            return True
        m = fi.module.name
        if m in (E + "der", E + "_compat", E + "util") and depth < 8:
            return True
        if fi.cls is not None and fi.cls.name == "AbstractPoint" and depth < 8:
            return True
        return fi.qualname in inl

    scope = lambda c: c.module.name.startswith(E[:-1])
    return ExcAnalysis(prog, dispatch_scope=scope, inline=inline, summaries=summ, int_index_means_sequence=True, callsite_helpers=("str_idx_as_int",), arith_total=True), summ


def allowed(h, exc: str) -> bool:
    for alt in exc.split("|"):
        if alt.startswith(E + "numbertheory."):
            return False  # the number-theory helpers' own errors (Error, SquareRootError, JacobiError) are internal: a decoder converts them (to MalformedPointError) or it leaks them
        if alt.startswith(E):
            continue
        if h.is_sub(alt, "ValueError"):
            continue
        return False
    return True


def exc_rules(prog, chk, pid):
    from bfsa.report import norm_construct

    an, summ = make_analysis(prog)
    seen = set()
    for q in ENTRY:
        fi = prog.func(E + q)
        escs = an.escapes(fi)
        for s in escs:
            if allowed(an.h, s.exc):
                continue
            key = (s.exc, s.fn, norm_construct(s.construct))
            if key in seen:
                continue
            seen.add(key)
            why = ""
            for d in DISCHARGE.get("C19", []):
                if d["exception"] == s.exc and d["function"] == s.fn and d["construct"] in norm_construct(s.construct):
                    why = d["reason"]
            rule = "%s.escape:%s" % (pid, s.exc.split(".")[-1] if "|" not in s.exc else s.exc)
            if why:
                chk.ok(rule, s.fn, s.construct, s.where, "discharged: " + why)
            else:
                chk.fail(rule, s.fn, s.construct, s.where, "%s can escape %s (malformed input makes the decoder fail with an undocumented exception type)" % (s.exc, q))
        chk.ok("%s.decoder-analysed" % pid, E + q, "%d escaping (class, construct) pairs, all documented" % len(escs), "%s:%d" % (fi.file, fi.lineno), "escape set within {ecdsa-defined classes} U ValueError family")
    chk.info["implicit_raiser_sites_examined"] = an.sites_examined
    chk.info["implicit_raiser_sites_discharged_by_facts"] = an.sites_discharged
    chk.info["functions_analysed"] = len(an.functions_analysed)
    chk.info["summarised_functions"] = len(summ)
    chk.assume("numbertheory and point arithmetic are summarised as raising only numbertheory.Error; arithmetic operators are treated as total (ZeroDivisionError from explicit curve parameters with p = 0 is a recorded blind spot)")
    chk.assume("Edwards-curve code paths (PointEdwards, CurveEdTw, eddsa, _from_edwards) are excluded by the property and summarised as not raising")
    return an


DER_TAGS = {"remove_sequence": {0x30}, "remove_integer": {0x02}, "remove_octet_string": {0x04}, "remove_object": {0x06}, "remove_bitstring": {0x03},
            "remove_constructed": set(range(0xA0, 0xC0))}


def der_tag_rules(prog, chk, pid, only=None):
    """each DER primitive accepts exactly its own identifier octet(s): the function is interpreted (concrete control, nothing executed) on <tag> 01 <content> for every tag value
    0..255 -- the complete domain of the first octet -- and must return for the documented tag(s) and raise for every other one.  A decoder that looks at part of the
    identifier only (constructed bit and tag number but not the class bits) accepts 0x70 / 0xB0 / 0xF0 for a SEQUENCE: a signature with a flipped bit still verifies."""
    from bfsa.exprs import sbytes as _sb

    P = lambda s_: "%s.%s" % (pid, s_)
    for name, want in sorted(DER_TAGS.items()):
        if only is not None and name not in only:
            continue
        q = E + "der." + name
        if q not in prog.funcs:
            raise AnalysisError("DER primitive %s not found" % name)
        fi = prog.funcs[q]
        accepted = set()
        undecided = []
        for tag in range(256):
            ex = Exec(prog, policy=lambda e, f, d: (f.module is fi.module or f.module.name.endswith("._compat")) and d < 6)
            ex.sym_bytes = True
            # content: one byte that is a valid INTEGER / OID / BIT STRING body (01); for a bit string 00 01 (no unused bits)
            body = [C(0), C(1)] if name == "remove_bitstring" else [C(1)]
            data = _sb([C(tag), C(len(body))] + body)
            try:
                res = ex.run(fi, args={fi.params[0]: data})
            except Unsupported as u:
                undecided.append((tag, str(u)))
                continue
            if not res.dead and res.ret is not None:
                accepted.add(tag)
        if undecided:
            raise AnalysisError("%s not interpretable for tag 0x%02X: %s" % (name, undecided[0][0], undecided[0][1][:100]))
        extra, missing = sorted(accepted - want), sorted(want - accepted)
        chk.require(not extra and not missing, P("der-identifier-octet"), q, "accepted identifier octets of %s" % name, "%s:%d" % (fi.file, fi.lineno),
                    "of the 256 possible first octets exactly %s is accepted" % (", ".join("0x%02X" % t for t in sorted(want)) if len(want) < 4 else "0xA0..0xBF"),
                    ("also accepts %s" % ", ".join("0x%02X" % t for t in extra[:6]) if extra else "") + ("; rejects %s" % ", ".join("0x%02X" % t for t in missing[:6]) if missing else ""))


def sibling_rules(prog, chk, pid):
    """every remove_* : emptiness guard before the first index; announced length compared with the bytes available"""
    P = lambda s: "%s.%s" % (pid, s)
    for name in ("remove_sequence", "remove_integer", "remove_object", "remove_octet_string", "remove_constructed", "remove_bitstring"):
        fi = prog.func(E + "der." + name)
        ex = Exec(prog, policy=lambda e, f, d: f.name in ("read_length", "str_idx_as_int", "read_number"))
        res = ex.run(fi)
        where = "%s:%d" % (fi.file, fi.lineno)
        rets = [e for e in res.events if e.kind == "return" and e.stack == (fi.qualname,)]
        pstr = mk("param", fi.params[0])
        gs = [g for g in res.events if g.kind == "guard" and g.d.get("term") == "raise" and str(g.d.get("exc")).endswith("UnexpectedDER") and len(g.stack) == 1]
        def _is_empty_test(d):
            if d[0] != "rel":
                return False
            if d[1] == "Falsy" and unsnap(d[2]) is pstr:
                return True
            if d[3] is None:
                return False
            a, b = unsnap(d[2]), unsnap(d[3])
            for x, y, op in ((a, b, d[1]), (b, a, {"Lt": "Gt", "LtE": "GtE", "Eq": "Eq"}.get(d[1], "?"))):
                if x.op == "len" and unsnap(x.args[0]) is pstr and is_const(y) and isinstance(cval(y), int):
                    if (op == "Eq" and cval(y) == 0) or (op == "Lt" and cval(y) == 1) or (op == "LtE" and cval(y) == 0):
                        return True
            return False

        empt = [g for g in gs if any(_is_empty_test(d) for d in disjuncts(raise_rel(g)))]
        empt = [g for g in empt if all(dominates(g, r) for r in rets)]
        chk.require(bool(empt), P("emptiness-guard"), fi.qualname, "if not string: raise UnexpectedDER", empt[0].where if empt else where, "an empty input is rejected before its first byte is indexed", "no emptiness guard: empty input raises IndexError instead of UnexpectedDER")
        # length-vs-buffer: `length > len(string) - 1 - llen`  or  `len(body) != length`
        lenok = []
        for g in gs:
            for d in disjuncts(raise_rel(g)):
                if d[0] != "rel" or d[3] is None:
                    continue
                txt = show_rel(d, 6)
                a, b = unsnap(d[2]), unsnap(d[3])
                if d[1] == "Lt":
                    la = lin(a)
                    if la is not None and la.get(len_key(pstr)) == 1 and la.get(1) == -1:
                        lenok.append(g)
                if d[1] == "NotEq" and any(x.op == "len" and unsnap(x.args[0]).op == "slice" and unsnap(unsnap(x.args[0]).args[0]) is pstr for x in (a, b)):
                    lenok.append(g)
        lenok = [g for g in lenok if all(dominates(g, r) for r in rets)]
        chk.require(bool(lenok), P("length-vs-buffer-guard"), fi.qualname, "length > len(string) - 1 - llen -> raise UnexpectedDER", lenok[0].where if lenok else where, "an announced length that exceeds the bytes present is rejected (truncated encodings)", "the announced length is not compared with the bytes available: truncated input is accepted with a short body / fails later with IndexError")


# remainders that the ASN.1 grammar allows to be non-empty and that the decoders deliberately do not parse
OPTIONAL_TAIL = {
    ("keys.SigningKey.from_der", "remove_constructed"): "ECPrivateKey: the optional [1] publicKey field may follow the [0] parameters (RFC 5915); upstream ignores it",
    ("keys.SigningKey.from_der", "remove_octet_string"): "PKCS#8 OneAsymmetricKey: optional attributes / publicKey may follow the privateKey octet string (RFC 5958); upstream ignores them",
    ("curves.Curve.from_der", "remove_octet_string"): "ECParameters.curve: the optional seed BIT STRING may follow b (X9.62); upstream ignores it",
}


def trailing_data_rules(prog, chk, pid):
    P = lambda s: "%s.%s" % (pid, s)
    for q in ("keys.VerifyingKey.from_der", "keys.SigningKey.from_der", "curves.Curve.from_der"):
        fi = prog.func(E + q)
        ex = Exec(prog, policy=lambda e, f, d: f.name in ("normalise_bytes",))
        res = ex.run(fi)
        where = "%s:%d" % (fi.file, fi.lineno)
        ev = res.events
        calls = [e for e in ev if e.kind == "call" and e.d["callee"].module.name == E + "der" and e.d["callee"].name.startswith("remove_")]
        inp = None
        for a in fi.node.args.args:
            if a.arg in ("string", "data"):
                inp = a.arg
        # names bound to `_` are deliberately ignored remainders
        ignored_lines = set()
        for n in ast.walk(fi.node):
            if isinstance(n, ast.Assign) and isinstance(n.targets[0], ast.Tuple) and len(n.targets[0].elts) == 2 and isinstance(n.targets[0].elts[1], ast.Name) and n.targets[0].elts[1].id == "_":
                ignored_lines.add(n.lineno)
        n_checked = 0
        for c in calls:
            res_t = unsnap(c.d["result"])
            rest = None
            # remainder = element 1 (remove_constructed: element 2)
            idx = 2 if c.d["callee"].name == "remove_constructed" else 1
            rest = mk("sub", res_t, C(idx))
            arg0 = unsnap(c.d["args"][0]) if c.d["args"] else None
            is_input = arg0 is not None and (arg0.op == "param" and arg0.args[0] == inp or (arg0.op == "call" and any(unsnap(x).op == "param" and unsnap(x).args[0] == inp for x in arg0.args[1])))
            used_guard = False
            used_other = False
            for e in ev:
                if e.uid <= c.uid:
                    continue
                if e.kind in ("guard", "branch"):
                    if any(x is rest for x in subterms(e.d["cond"])):
                        if e.kind == "guard" and e.d.get("term") == "raise":
                            used_guard = True
                        else:
                            used_other = True
                elif e.kind in ("call", "mcall", "extcall", "new"):
                    if any(any(x is rest for x in subterms(a)) for a in e.d["args"]):
                        used_other = True
            line = getattr(c.node, "lineno", 0)
            if is_input:
                n_checked += 1
                chk.require(used_guard, P("input-fully-consumed"), fi.qualname, "%s(%s) -> remainder != b'' -> raise" % (c.d["callee"].name, inp), c.where, "bytes after the outer structure of the decoder's input are rejected", "trailing bytes after the encoded structure are accepted (remainder of parsing the input is not checked)")
            else:
                if line in ignored_lines:
                    chk.ok(P("remainder-used"), fi.qualname, "%s(...) remainder bound to `_`" % c.d["callee"].name, c.where, "deliberately ignored remainder (optional trailing attributes)", nontrivial=False)
                    continue
                n_checked += 1
                if not (used_guard or used_other) and (q, c.d["callee"].name) in OPTIONAL_TAIL:
                    chk.ok(P("remainder-used"), fi.qualname, "remainder of %s(...) at an optional tail" % c.d["callee"].name, c.where, "deliberately unparsed optional fields: " + OPTIONAL_TAIL[(q, c.d["callee"].name)], nontrivial=False)
                    continue
                chk.require(used_guard or used_other, P("remainder-used"), fi.qualname, "remainder of %s(...) at line %d" % (c.d["callee"].name, line), c.where, "the remainder is parsed further or checked", "a remainder is dropped silently: trailing data inside the structure is accepted")
        if not n_checked:
            raise AnalysisError("%s: no DER remainders found" % q)
    # raw-length point inside DER rejected
    fi = prog.func(E + "keys.VerifyingKey.from_der")
    ex = Exec(prog, policy=lambda e, f, d: False)
    res = ex.run(fi)
    gs = [g for g in res.events if g.kind == "guard" and g.d.get("term") == "raise" and "verifying_key_length" in show(g.d["cond"], 5) and "len(" in show(g.d["cond"], 5)]
    chk.require(bool(gs), P("raw-point-in-der-rejected"), fi.qualname, "len(point_str) == curve.verifying_key_length -> raise UnexpectedDER", gs[0].where if gs else "%s:%d" % (fi.file, fi.lineno), "a raw (prefix-less) point inside a DER key is rejected", "raw-length points inside DER are accepted")


def const_rules(prog, chk, pid):
    P = lambda s: "%s.%s" % (pid, s)
    u = prog.module(E + "util")
    try:
        oid = prog.fold_name(u, "oid_ecPublicKey")
    except NotConst:
        oid = None
    chk.require(tuple(oid or ()) == tuple(OIDS["oid_ecPublicKey"]) == ca.OID_EC_PUBLIC_KEY, P("oid-ecPublicKey"), E + "util.oid_ecPublicKey", "(1, 2, 840, 10045, 2, 1)", "", "algorithm identifier is id-ecPublicKey", "oid_ecPublicKey is %r" % (oid,))
    # encoded form is der.encode_oid(*oid): check the encoder on this constant with the checker's own encoder
    sym_ = prog.resolve_symbol(u, "encoded_oid_ecPublicKey")
    ok = isinstance(sym_, tuple) and sym_[0] == "expr" and isinstance(sym_[2], ast.Call) and ast.unparse(sym_[2]).replace(" ", "") in ("der.encode_oid(*oid_ecPublicKey)", "encode_oid(*oid_ecPublicKey)")
    chk.require(ok, P("oid-ecPublicKey"), E + "util.encoded_oid_ecPublicKey", "der.encode_oid(*oid_ecPublicKey)", "", "encoded identifier is derived from the tuple", "encoded_oid_ecPublicKey is not der.encode_oid(*oid_ecPublicKey)")
    m = prog.module(E + "curves")
    seen = {}
    bad = []
    n = 0
    for st in prog.live_body(m, m.tree.body):
        if isinstance(st, ast.Assign) and isinstance(st.value, ast.Call) and getattr(st.value.func, "id", "") == "Curve":
            a = st.value.args
            name = ast.literal_eval(a[0])
            coid = prog.try_fold(m, a[3])
            want = OIDS["curves"].get(name)
            n += 1
            if want is None or (list(coid) if coid else None) != want["oid"]:
                bad.append(name)
            if coid:
                if tuple(coid) in seen:
                    bad.append("%s duplicates %s" % (name, seen[tuple(coid)]))
                seen[tuple(coid)] = name
    chk.require(not bad and n == len(OIDS["curves"]), P("curve-oids"), E + "curves", "%d curve OIDs" % n, "", "every curve's object identifier equals the registered (pinned) value and is unique", "curve OIDs deviate: %s" % bad[:4])
    pf = prog.try_fold(m, prog.resolve_symbol(m, "PRIME_FIELD_OID")[2])
    chk.require(tuple(pf or ()) == tuple(OIDS["prime_field"]), P("curve-oids"), E + "curves.PRIME_FIELD_OID", "(1, 2, 840, 10045, 1, 1)", "", "prime-field identifier", "PRIME_FIELD_OID is %r" % (pf,))
    from rules import c09

    c09.header_rules(prog, chk, pid)


def point_encoding_rules(prog, chk, pid):
    P = lambda s: "%s.%s" % (pid, s)
    c = prog.cls(E + "ellipticcurve.AbstractPoint")
    # encoders
    exs = {}
    for mn in ("_compressed_encode", "_hybrid_encode", "to_bytes", "_raw_encode"):
        fi = c.methods[mn]
        ex = Exec(prog, policy=lambda e, f, d: False)
        exs[mn] = (fi, ex, ex.run(fi))

    def prefix_by_parity(mn):
        fi, ex, res = exs[mn]
        out = {}
        for r in [e for e in res.events if e.kind == "return" and e.stack == (fi.qualname,)]:
            v = unsnap(r.d["value"])
            if v.op == "bin" and v.args[0] == "Add" and is_const(v.args[1]):
                odd = None
                for f in r.ctx:
                    if f[0] == "if":
                        t = show(f[1], 5)
                        if "'y'" in t and "& 1" in t:
                            odd = f[2]
                out[cval(v.args[1])] = odd
        return out

    def _paths(fi, res):
        """(path conditions, value) per return of the function"""
        out = []
        for r in [e for e in res.events if e.kind == "return" and e.stack == (fi.qualname,)]:
            conds = [(f[1], bool(f[2])) for f in r.ctx if f[0] == "if"]
            known = {(unsnap(c_).uid, p_) for c_, p_ in conds}
            conds += [(c_, bool(p_)) for c_, p_ in (getattr(r, "facts", ()) or ()) if (unsnap(c_).uid, bool(p_)) not in known]
            out.append((conds, r.d["value"]))
        return out

    def prefix_by_parity_eval(mn):
        """the same question answered by evaluating the prefix with the checker's own arithmetic for several values of y (whatever the spelling of the choice)"""
        from bfsa.evalterm import NoEval, eval_term

        fi, ex, res = exs[mn]
        out = {}
        try:
            for yv in (0, 1, 2, 3, 254, 255, 256, 257, (1 << 255) - 19, 1 << 255):
                def leaf(t, rec):
                    mc = meth_call(t)
                    if mc and mc[1] == "y" and not mc[2]:
                        return yv
                    return None
                hit = [v for conds, v in _paths(fi, res) if all(bool(eval_term(c_, {}, leaf)) == p_ for c_, p_ in conds)]
                if len(hit) != 1:
                    return {}
                v = unsnap(hit[0])
                if not (v.op == "bin" and v.args[0] == "Add"):
                    return {}
                pre = eval_term(v.args[1], {}, leaf)
                if not isinstance(pre, bytes) or out.get(pre, bool(yv & 1)) != bool(yv & 1):
                    return {}
                out[pre] = bool(yv & 1)
        except (NoEval, TypeError, ValueError):
            return {}
        return out

    comp = prefix_by_parity("_compressed_encode")
    hyb = prefix_by_parity("_hybrid_encode")
    okc = comp.get(b"\x03") is True and set(comp) == {b"\x02", b"\x03"}
    okh = hyb.get(b"\x07") is True and set(hyb) == {b"\x06", b"\x07"}
    if not okc:
        comp2 = prefix_by_parity_eval("_compressed_encode")
        if comp2 == {b"\x02": False, b"\x03": True}:
            okc, comp = True, comp2
    if not okh:
        hyb2 = prefix_by_parity_eval("_hybrid_encode")
        if hyb2 == {b"\x06": False, b"\x07": True}:
            okh, hyb = True, hyb2
    fi = c.methods["_compressed_encode"]
    chk.require(okc, P("compressed-prefix"), fi.qualname, "y odd -> 03, even -> 02", "%s:%d" % (fi.file, fi.lineno), "compressed points are prefixed by the parity of y", "compressed prefixes are %s" % comp)
    fi = c.methods["_hybrid_encode"]
    chk.require(okh, P("hybrid-prefix"), fi.qualname, "y odd -> 07, even -> 06", "%s:%d" % (fi.file, fi.lineno), "hybrid points are prefixed by the parity of y", "hybrid prefixes are %s" % hyb)
    fi, ex, res = exs["to_bytes"]
    unc = [r for r in res.events if r.kind == "return" and unsnap(r.d["value"]).op == "bin" and is_const(unsnap(r.d["value"]).args[1]) and cval(unsnap(r.d["value"]).args[1]) == b"\x04"]
    chk.require(len(unc) == 1 and any("'uncompressed'" in show(f[1], 4) and f[2] for f in unc[0].ctx if f[0] == "if"), P("uncompressed-prefix"), fi.qualname, "uncompressed -> 04 || raw", "%s:%d" % (fi.file, fi.lineno), "uncompressed points are 04 followed by the raw encoding", "uncompressed encoding is not 04 || raw")
    # decoders
    fi = c.methods["_from_compressed"]
    ex = Exec(prog, policy=lambda e, f, d: False)
    res = ex.run(fi)
    s = " ".join(show(e.d["cond"], 6) for e in res.events if e.kind in ("guard", "branch"))
    g = [x for x in res.events if x.kind == "guard" and x.d.get("term") == "raise" and "MalformedPointError" in str(x.d.get("exc"))]
    okd = bool(g) and "b'\\x02'" in show(g[0].d["cond"], 6) and "b'\\x03'" in show(g[0].d["cond"], 6)
    # parity selection: is_even = data[:1] == 02 ; if is_even == bool(beta & 1): y = p - beta
    sel = [e for e in res.events if e.kind == "branch" and "b'\\x02'" in show(e.d["cond"], 6) and "& 1" in show(e.d["cond"], 6)]
    if okd and not sel:
        # the choice of the root, whatever its spelling: for prefix 02 / 03 and either parity of the computed root beta the returned y has the parity the prefix names
        from bfsa.evalterm import NoEval, eval_term

        good = 0
        try:
            for pre in (2, 3):
                for beta in (4, 5, 0, 1):
                    pv = 11

                    def leaf(t, rec):
                        if t.op == "slice" and unsnap(t.args[0]).op == "param" and unsnap(t.args[0]).args[0] == fi.params[0] and t.args[1] is NONE and is_const(t.args[2]) and cval(t.args[2]) == 1:
                            return bytes([pre])
                        if t.op == "sub" and unsnap(t.args[0]).op == "param" and unsnap(t.args[0]).args[0] == fi.params[0] and is_const(t.args[1]) and cval(t.args[1]) == 0:
                            return pre
                        if t.op == "call" and isinstance(t.args[0], Term) and "square_root_mod_prime" in show(t.args[0], 2):
                            return beta
                        mc = meth_call(t)
                        if mc and mc[1] == "p" and not mc[2]:
                            return pv
                        bc = builtin_call(t)
                        if bc and bc[0] == "bool" and len(bc[1]) == 1:
                            return bool(rec(bc[1][0]))
                        if t.op == "cmp" and t.args[0] in ("In", "NotIn"):
                            x_, ys_ = rec(t.args[1]), rec(t.args[2])
                            return (x_ in ys_) if t.args[0] == "In" else (x_ not in ys_)
                        if t.op == "tuple":
                            return tuple(rec(x) if not is_const(x) else cval(x) for x in t.args[0])
                        return None

                    hit = [v for conds, v in _paths(fi, res) if all(bool(eval_term(c_, {}, leaf)) == p_ for c_, p_ in conds)]
                    if len(hit) != 1:
                        raise NoEval("paths")
                    tv = unsnap(hit[0])
                    if tv.op != "tuple" or len(tv.args[0]) != 2:
                        raise NoEval("value")
                    yv = eval_term(tv.args[0][1], {}, leaf)
                    if isinstance(yv, int) and (yv - (pre & 1)) % 2 == 0 and yv % pv == (beta % pv if (beta - pre) % 2 == 0 else (pv - beta) % pv):
                        good += 1
        except (NoEval, TypeError, ValueError, KeyError):
            good = -1
        if good == 8:
            sel = [res.events[0]]
    chk.require(okd and bool(sel), P("compressed-decode"), fi.qualname, "prefix in (02, 03) else raise; 02 selects the even root", "%s:%d" % (fi.file, fi.lineno), "the decoder accepts exactly the prefixes the encoder emits and chooses the root by parity", "compressed decoder does not mirror the encoder's prefixes")
    fi = c.methods["_from_hybrid"]
    ex = Exec(prog, policy=lambda e, f, d: False)
    res = ex.run(fi)
    g = [x for x in res.events if x.kind == "guard" and x.d.get("term") == "raise" and "MalformedPointError" in str(x.d.get("exc"))]
    okh2 = bool(g) and "b'\\x07'" in show(g[0].d["cond"], 8) and "b'\\x06'" in show(g[0].d["cond"], 8) and "validate_encoding" in show(g[0].d["cond"], 8)
    chk.require(okh2, P("hybrid-decode"), fi.qualname, "validate_encoding and parity(y) != prefix -> raise", "%s:%d" % (fi.file, fi.lineno), "inconsistent hybrid prefixes are rejected when validation is on", "hybrid decoder does not check prefix against the parity of y")


def der_codec_scenarios(prog, chk, pid, tier):
    """DER primitives, encoder against decoder and against the definition: for enumerated content lengths (both sides of the
    short/long length-form boundaries) with symbolic content, `remove_X(encode_X(content) + tail)` returns exactly (content, tail)
    and the encoded bytes are tag | definite length | content as X.690 8.1.3 / 10.1 prescribe (shortest length form);
    integers, OIDs and the length field itself are value encodings and are checked on enumerated constants"""
    from bfsa.exprs import sbytes
    from rules import stackrt as R

    P = lambda s_: "%s.%s" % (pid, s_)
    DER = E + "der"
    stk = R.Stack(prog)
    orig_pol = R.pol

    def run(src, args):
        import rules.stackrt as RR

        saved = RR.INLINE
        RR.INLINE = tuple(saved) + (DER, E + "_compat", E + "util")
        try:
            return stk.run(DER, src, args)
        finally:
            RR.INLINE = saved

    def der_len(n):
        if n < 0x80:
            return [C(n)]
        b_ = n.to_bytes((n.bit_length() + 7) // 8, "big")
        return [C(0x80 | len(b_))] + [C(x) for x in b_]

    lens = [0, 1, 2, 0x7F, 0x80, 0xFF, 0x100, 300] if tier != "thorough" else [0, 1, 2, 0x7E, 0x7F, 0x80, 0x81, 0xFF, 0x100, 0x101, 1000, 0xFFFF, 0x10000]
    tail = R.syms("tl", 3)
    # ---- the length field itself
    fl = prog.func(DER + ".encode_length")
    bad = None
    for n in sorted(set(lens + [0xFFFF, 0x10000, 0xFFFFFF])):
        ex, res = run("def drv():\n    e = encode_length(%d)\n    return (e, read_length(e + b'xyz'))\n" % n, {})
        if res.dead or res.ret is None:
            bad = bad or (n, "raises")
            continue
        e_, rl = unsnap(res.ret).args[0] if unsnap(res.ret).op == "tuple" else (None, None)
        if e_ is None:
            parts = cval(res.ret)
            got, back = [C(x) for x in parts[0]], parts[1]
        else:
            got = R.flat(ex, res, e_)
            back = tuple(cval(x) for x in ex.unpack_to(rl, 2, res.state, None)) if not is_const(rl) else cval(rl)
        want = der_len(n)
        if got is None or [cval(x) for x in got] != [cval(x) for x in want] or tuple(back) != (n, len(want)):
            bad = bad or (n, "encodes to %s, read back %s; X.690 gives %s" % ([cval(x) for x in got] if got else None, back, [cval(x) for x in want]))
    chk.require(bad is None, P("der-length-field"), fl.qualname, "%d lengths across the 0x7F/0x80 and byte-count boundaries" % (len(lens) + 3), "%s:%d" % (fl.file, fl.lineno),
                "lengths below 128 are one byte, longer ones 0x80|k followed by k big-endian bytes without leading zero; read_length returns (length, bytes consumed)", "length %s: %s" % bad if bad else "")
    # ---- string-like primitives: tag | length | content, and the decoder inverts it
    prims = [
        ("octet_string", "encode_octet_string(c)", "remove_octet_string(e + t)", 0x04, 0),
        ("sequence", "encode_sequence(c)", "remove_sequence(e + t)", 0x30, 0),
        ("constructed", "encode_constructed(1, c)", "remove_constructed(e + t)", 0xA1, 0),
        ("bitstring", "encode_bitstring(c, 0)", "remove_bitstring(e + t, 0)", 0x03, 1),
    ]
    for name, enc, dec, tag, extra in prims:
        fe = prog.func(DER + ".encode_" + name)
        bad = None
        for n in lens:
            c = R.syms("c", n)
            ex, res = run("def drv(c, t):\n    e = %s\n    return (e, %s)\n" % (enc, dec), {"c": sbytes(c), "t": sbytes(tail)})
            if res.dead or res.ret is None or unsnap(res.ret).op != "tuple":
                bad = bad or (n, "raises (%s)" % (ex._dead[1] if ex._dead else "?"))
                continue
            e_, d_ = unsnap(res.ret).args[0]
            got = R.flat(ex, res, e_)
            want = [C(tag)] + der_len(n + extra) + ([C(0)] if extra else []) + c
            if got is None or len(got) != len(want) or any((a is not b_) and not (is_const(a) and is_const(b_) and cval(a) == cval(b_)) for a, b_ in zip(got, want)):
                bad = bad or (n, "encoding is not tag %02X | length | content" % tag)
                continue
            parts = ex.unpack_to(d_, 3 if name == "constructed" else 2, res.state, None)
            body, rest = (parts[1], parts[2]) if name == "constructed" else (parts[0], parts[1])
            gb, gr = R.flat(ex, res, body), R.flat(ex, res, rest)
            okb = gb is not None and len(gb) == n and all(a is b_ for a, b_ in zip(gb, c))
            okr = gr is not None and len(gr) == 3 and all(a is b_ for a, b_ in zip(gr, tail))
            oktag = name != "constructed" or (is_const(parts[0]) and cval(parts[0]) == 1)
            if not (okb and okr and oktag):
                bad = bad or (n, "decoder returns content ok=%s, rest ok=%s, tag ok=%s" % (okb, okr, oktag))
        chk.require(bad is None, P("der-codec-" + name), fe.qualname, "%d content lengths, symbolic content and trailing bytes" % len(lens), "%s:%d" % (fe.file, fe.lineno),
                    "the encoding is tag | shortest definite length | content and the matching decoder returns exactly (content, trailing bytes)", "content length %s: %s" % bad if bad else "")
    # ---- integers: minimal two's complement, non-negative; round trip through remove_integer
    fi_ = prog.func(DER + ".encode_integer")
    bad = None
    vals = [0, 1, 0x7F, 0x80, 0xFF, 0x100, 0x7FFF, 0x8000, 0xFFFFFF, (1 << 255) - 1, 1 << 255, (1 << 256) - 1, (1 << 521) - 1]
    for v in vals:
        ex, res = run("def drv(t):\n    e = encode_integer(%d)\n    return (e, remove_integer(e + t))\n" % v, {"t": sbytes(tail)})
        if res.dead or res.ret is None:
            bad = bad or (v, "raises")
            continue
        e_, d_ = unsnap(res.ret).args[0]
        got = R.flat(ex, res, e_)
        mag = v.to_bytes(max(1, (v.bit_length() + 7) // 8), "big")
        if mag[0] & 0x80:
            mag = b"\x00" + mag
        want = [C(2)] + der_len(len(mag)) + [C(x) for x in mag]
        parts = ex.unpack_to(d_, 2, res.state, None)
        gr = R.flat(ex, res, parts[1])
        if got is None or [cval(x) for x in got] != [cval(x) for x in want] or not (is_const(parts[0]) and cval(parts[0]) == v) or gr is None or any(a is not b_ for a, b_ in zip(gr, tail)):
            bad = bad or (hex(v), "encoding %s, decoded %s" % ([cval(x) for x in got][:8] if got else None, show(parts[0], 3)[:40]))
    chk.require(bad is None, P("der-codec-integer"), fi_.qualname, "%d values across the sign-bit and byte boundaries" % len(vals), "%s:%d" % (fi_.file, fi_.lineno),
                "INTEGER is 02 | length | minimal big-endian magnitude with a leading 00 when the top bit is set; remove_integer returns (value, trailing bytes)", "value %s: %s" % bad if bad else "")
    # ---- OIDs used by the key formats
    fo = prog.func(DER + ".encode_oid")
    bad = None
    oids = {(1, 2, 840, 10045, 2, 1): "06072a8648ce3d0201", (1, 2, 840, 10045, 3, 1, 7): "06082a8648ce3d030107", (1, 3, 132, 0, 35): "06052b81040023", (1, 3, 101, 112): "06032b6570", (2, 999, 3): "0603883703"}
    for arcs, hx in oids.items():
        ex, res = run("def drv(t):\n    e = encode_oid(%s)\n    return (e, remove_object(e + t))\n" % ", ".join(map(str, arcs)), {"t": sbytes(tail)})
        if res.dead or res.ret is None:
            bad = bad or (arcs, "raises")
            continue
        e_, d_ = unsnap(res.ret).args[0]
        got = R.flat(ex, res, e_)
        parts = ex.unpack_to(d_, 2, res.state, None)
        back = cval(parts[0]) if is_const(parts[0]) else (tuple(cval(x) for x in ex.iter_items(parts[0], res.state)) if ex.iter_items(parts[0], res.state) is not None else None)
        if got is None or bytes(cval(x) for x in got).hex() != hx or tuple(back or ()) != arcs:
            bad = bad or (arcs, "encoding %s (X.690: %s), decoded %s" % (bytes(cval(x) for x in got).hex() if got else None, hx, back))
    chk.require(bad is None, P("der-codec-oid"), fo.qualname, "%d object identifiers (the key-format OIDs, a 2.999 arc)" % len(oids), "%s:%d" % (fo.file, fo.lineno),
                "OBJECT IDENTIFIER is 06 | length | 40*a+b then base-128 arcs; remove_object returns the arcs", "oid %s: %s" % bad if bad else "")
    chk.info["der_codec_scenarios"] = stk.runs


def pubkey_encoding_scenarios(prog, chk, pid, tier):
    """public-key encoders with SYMBOLIC affine coordinates (fixed-width number_to_string as a term constructor, licensed by
    C09.number-to-string-fixed-width): raw = X || Y, uncompressed = 04 || X || Y, DER = the P-256 SubjectPublicKeyInfo
    (RFC 5480: SEQ { SEQ { ecPublicKey, prime256v1 }, BIT STRING 00 04 X Y }) byte for byte, and bec2format's raw conversion of
    that DER is X || Y.  The curve object is built inside the scenario from the literals audited by C17."""
    from bfsa.exprs import sbytes
    from rules import stackrt as R
    import rules.stackrt as RR

    P = lambda s_: "%s.%s" % (pid, s_)
    U = E + "util"

    def h_n2s(ex, fi, args, kwargs, st, node):
        num, order = args[0], args[1]
        if is_const(num) or not is_const(order):
            return None
        l = (1 + len("%x" % cval(order))) // 2
        return sbytes([mk("byteof", num, l, i) for i in range(l)])

    stk = R.Stack(prog, extra_hooks={U + ".number_to_string": h_n2s})
    src = (
        "def drv(x, y, ProxyC):\n"
        "    cf = ellipticcurve.CurveFp(0xffffffff00000001000000000000000000000000ffffffffffffffffffffffff, -3, 0x5ac635d8aa3a93e7b3ebbd55769886bc651d06b0cc53b0f63bce3c3e27d2604b, 1)\n"
        "    gen = ellipticcurve.PointJacobi(cf, 0x6b17d1f2e12c4247f8bce6e563a440f277037d812deb33a0f4a13945d898c296, 0x4fe342e2fe1a7f9b8ee7eb4a7c0f9e162bce33576b315ececbb6406837bf51f5, 1, 0xffffffff00000000ffffffffffffffffbce6faada7179e84f3b9cac2fc632551, generator=True)\n"
        "    cv = Curve('NIST256p', cf, gen, (1, 2, 840, 10045, 3, 1, 7), 'prime256v1')\n"
        "    pt = ellipticcurve.PointJacobi(cf, x, y, 1, cv.order)\n"
        "    vk = VerifyingKey.from_public_point(pt, cv, sha1, False)\n"
        "    return (vk.to_string(), vk.to_string('uncompressed'), vk.to_der(), ProxyC(vk).to_raw_bin_fmt())\n")
    x, y = mk("param", "x"), mk("param", "y")
    saved = RR.INLINE
    RR.INLINE = tuple(saved) + (E + "der", E + "_compat", U, E + "keys", E + "ellipticcurve", E + "ecdsa", E + "curves")
    try:
        ex, res = stk.run(E + "keys", src, {"x": x, "y": y, "ProxyC": mk("class", "register_crypto_plugin.PublicEccKeyProxy")})
    finally:
        RR.INLINE = saved
    fk = prog.method(E + "keys.VerifyingKey", "to_der")
    where = "%s:%d" % (fk.file, fk.lineno)
    X = [mk("byteof", x, 32, i) for i in range(32)]
    Y = [mk("byteof", y, 32, i) for i in range(32)]
    spki = [C(b_) for b_ in bytes.fromhex("3059301306072A8648CE3D020106082A8648CE3D03010703420004")]
    ok, why = not res.dead and res.ret is not None and unsnap(res.ret).op == "tuple", "scenario raises (%s)" % (ex._dead[1] if ex._dead else "?")
    if ok:
        raw, unc, der_, braw = [R.flat(ex, res, t) for t in unsnap(res.ret).args[0]]

        def same(a, b):
            return a is not None and len(a) == len(b) and all((p_ is q_) or (is_const(p_) and is_const(q_) and cval(p_) == cval(q_)) for p_, q_ in zip(a, b))

        checks = [("raw encoding is X || Y", same(raw, X + Y)), ("uncompressed encoding is 04 || X || Y", same(unc, [C(4)] + X + Y)),
                  ("DER is the P-256 SubjectPublicKeyInfo header followed by X || Y", same(der_, spki + X + Y)),
                  ("bec2format's raw conversion of that DER is X || Y", same(braw, X + Y))]
        failed = [t for t, g in checks if not g]
        ok, why = not failed, "; ".join(failed)
    chk.require(ok, P("pubkey-encodings"), fk.qualname, "to_string(), to_string('uncompressed'), to_der(), PublicEccKeyProxy.to_raw_bin_fmt() for symbolic (x, y)", where,
                "for every point the public-key encodings are X || Y, 04 || X || Y and the RFC 5480 SubjectPublicKeyInfo for prime256v1 with the point as BIT STRING; the 27-byte header bec2format strips is exactly that prefix", why)


def private_scalar_rules(prog, chk, pid):
    """a private key is a scalar d with 1 <= d < n: from_secret_exponent (where from_string / from_der / from_pem end up) refuses
    everything else with MalformedPointError BEFORE the public point generator * d is formed (d = n would give the point at infinity
    and an undocumented failure further down)"""
    P = lambda s_: "%s.%s" % (pid, s_)
    fi = prog.func(E + "keys.SigningKey.from_secret_exponent")
    where = "%s:%d" % (fi.file, fi.lineno)
    ex = Exec(prog, policy=lambda e, f, d: False)
    res = ex.run(fi)
    sec = mk("param", fi.params[1])
    gs = [g for g in res.events if g.kind == "guard" and g.d.get("term") == "raise" and "MalformedPointError" in str(g.d.get("exc"))]
    mults = [e for e in res.events if e.kind == "op" and e.d["op"] == "Mult" and any(unsnap(a) is sec for a in e.d["args"]) and any("generator" in show(a, 3) for a in e.d["args"])]
    ok, why = False, "no guard raising MalformedPointError on the scalar"
    for g in gs:
        ds = disjuncts(raise_rel(g))
        low = any(d[0] == "rel" and ((d[1] == "Lt" and unsnap(d[2]) is sec and is_const(d[3]) and cval(d[3]) == 1) or (d[1] == "LtE" and unsnap(d[2]) is sec and is_const(d[3]) and cval(d[3]) == 0)) for d in ds)
        high = any(d[0] == "rel" and d[1] == "LtE" and unsnap(d[3]) is sec and "order" in show(d[2], 3) for d in ds)
        if low and high and len(ds) == 2:
            ok = bool(mults) and all(dominates(g, m_) for m_ in mults)
            why = "the range guard does not dominate the computation of generator * secexp"
            break
        why = "the scalar range refused is (%s), expected secexp < 1 or secexp >= order" % "; ".join(show_rel(d, 4) for d in ds)
    chk.require(ok, P("private-scalar-range"), fi.qualname, "not 1 <= secexp < n -> MalformedPointError, before generator * secexp", where,
                "private scalars outside [1, n-1] (in particular 0 and the group order itself) are refused with the documented error", why)
    # the decoders end in from_secret_exponent (no second construction path)
    for q in ("SigningKey.from_string",):
        f2 = prog.func(E + "keys." + q)
        e2 = Exec(prog, policy=lambda e, f, d: False)
        r2 = e2.run(f2)
        calls = [e for e in r2.events if e.kind == "call" and e.d["callee"].name == "from_secret_exponent"]
        rets = [e for e in r2.events if e.kind == "return" and e.stack == (f2.qualname,)]
        ok2 = len(calls) >= 1 and all(any(unsnap(r.d["value"]) is unsnap(c.d["result"]) for c in calls) or "eddsa" in show(r.d["value"], 4).lower() or any(f[0] == "if" and "CurveEdTw" in show(f[1], 4) and f[2] for f in r.ctx) for r in rets)
        chk.require(ok2, P("private-scalar-range"), f2.qualname, "return cls.from_secret_exponent(string_to_number(string), curve, hashfunc)", "%s:%d" % (f2.file, f2.lineno),
                    "raw private keys become key objects only through the range-checked constructor", "from_string builds a Weierstrass key without from_secret_exponent")


def explicit_params_rules(prog, chk, pid):
    """Curve.to_der('explicit'): ECParameters = SEQUENCE { 1, FieldID { prime-field, p }, Curve { a, b }, base, order [, cofactor] } with the field elements a and b as
    OCTET STRINGs of the byte length of the FIELD PRIME p (SEC 1, 2.3.5 / C.2) -- on curves whose order is longer than the prime (secp160r1) any other width changes the bytes"""
    P = lambda s: "%s.%s" % (pid, s)
    fi = prog.method(E + "curves.Curve", "to_der")
    ex = Exec(prog, policy=lambda e, f, d: False)
    res = ex.run(fi)
    where = "%s:%d" % (fi.file, fi.lineno)
    n2s = [e for e in res.events if e.kind == "call" and e.d["callee"].name == "number_to_string"]
    is_p = lambda t: (meth_call(unsnap(t)) or (None, None))[1] == "p" and "curve" in show(meth_call(unsnap(t))[0], 4)
    ok, why = len(n2s) == 2, "expected the two field elements a and b to be converted by number_to_string (found %d conversions)" % len(n2s)
    if ok:
        seen = set()
        for e in n2s:
            v, ln = [unsnap(x) for x in e.d["args"][:2]]
            coeff = None
            if v.op == "bin" and v.args[0] == "Mod" and is_p(v.args[2]):
                mc_ = meth_call(unsnap(v.args[1]))
                if mc_ and mc_[1] in ("a", "b") and "curve" in show(mc_[0], 4):
                    coeff = mc_[1]
            if coeff is None:
                ok, why = False, "a field element is not <curve>.a() / .b() reduced modulo p (%s)" % show(v, 5)
                break
            seen.add(coeff)
            if not is_p(ln):
                ok, why = False, "coefficient %s is padded to the length of %s; a FieldElement has the byte length of the field prime p" % (coeff, show(ln, 4))
                break
        if ok and seen != {"a", "b"}:
            ok, why = False, "the two field elements are not a and b (%s)" % sorted(seen)
    chk.require(ok, P("explicit-params-field-elements"), fi.qualname, "number_to_string(curve.a() % p, p), number_to_string(curve.b() % p, p)", where,
                "the curve coefficients of explicit parameters are reduced modulo p and encoded with the byte length of p", why)


def known_curve_rule(prog, chk, pid):
    """explicit ECParameters that describe a registered curve decode to THAT curve object (name and OID attached), so that the key re-encodes to the bytes it came from:
    Curve.from_der compares the decoded parameters with every entry of the registry `curves`.  Accepted: a loop (or next() over a generator) over `curves` itself that
    returns the entry equal to the decoded curve; or a lookup in a module-level index built from `curves` whose key function is injective on the registered curves
    (evaluated with the checker's own copy of the curve literals) -- an index keyed by something two registered curves share can only ever return one of them."""
    P = lambda s_: "%s.%s" % (pid, s_)
    m = prog.module(E + "curves")
    fi = prog.method(E + "curves.Curve", "from_der")
    where = "%s:%d" % (fi.file, fi.lineno)
    defs = {}   # variable -> Curve(...) call
    reg = None
    table_defs = {}
    for st in prog.live_body(m, m.tree.body):
        if isinstance(st, ast.Assign) and len(st.targets) == 1 and isinstance(st.targets[0], ast.Name):
            nm = st.targets[0].id
            if isinstance(st.value, ast.Call) and getattr(st.value.func, "id", "") == "Curve":
                defs[nm] = st.value
            elif nm == "curves" and isinstance(st.value, (ast.List, ast.Tuple)):
                reg = [e.id for e in st.value.elts if isinstance(e, ast.Name)]
            else:
                table_defs[nm] = st.value
    if reg is None:
        raise AnalysisError("the registry `curves` is not a module-level list of names")
    missing = sorted(set(defs) - set(reg))
    chk.require(not missing, P("known-curve-recognised"), E + "curves", "curves = [%d entries]" % len(reg), "", "every curve object defined in the module is registered", "defined but not registered: %s" % missing)
    tmp = None
    for n in ast.walk(fi.node):
        if isinstance(n, ast.Assign) and len(n.targets) == 1 and isinstance(n.targets[0], ast.Name) and isinstance(n.value, ast.Call) and n.value.args \
                and isinstance(n.value.args[0], ast.Constant) and n.value.args[0].value == "unknown":
            tmp = n.targets[0].id
    if tmp is None:
        chk.incomplete(P("known-curve-recognised"), "Curve.from_der no longer builds the decoded curve as Curve('unknown', ...)")
        return

    def covers(e):
        if isinstance(e, ast.Name):
            if e.id == "curves":
                return True
            return e.id in table_defs and covers(table_defs[e.id])
        if isinstance(e, ast.Call) and isinstance(e.func, ast.Name) and e.func.id in ("reversed", "tuple", "list", "iter", "sorted") and len(e.args) >= 1:
            return covers(e.args[0])
        return False

    def is_eq(test, x):
        return (isinstance(test, ast.Compare) and len(test.ops) == 1 and isinstance(test.ops[0], ast.Eq)
                and {getattr(test.left, "id", None), getattr(test.comparators[0], "id", None)} == {tmp, x})

    found = None
    for n in ast.walk(fi.node):
        if isinstance(n, ast.For) and isinstance(n.target, ast.Name):
            x = n.target.id
            hit = any(isinstance(i_, ast.If) and is_eq(i_.test, x) and any(isinstance(r_, ast.Return) and getattr(r_.value, "id", None) == x for r_ in i_.body) for i_ in n.body)
            if hit:
                found = ("loop", covers(n.iter), ast.unparse(n.iter))
        elif isinstance(n, ast.GeneratorExp) and len(n.generators) == 1 and isinstance(n.generators[0].target, ast.Name):
            g = n.generators[0]
            x = g.target.id
            if getattr(n.elt, "id", None) == x and len(g.ifs) == 1 and is_eq(g.ifs[0], x):
                found = ("loop", covers(g.iter), ast.unparse(g.iter))
    if found is not None and found[1]:
        chk.ok(P("known-curve-recognised"), fi.qualname, "for c in %s: if decoded == c: return c" % found[2], where, "the decoded parameters are compared with every registered curve")
        return
    # an index built from the registry
    lits = None
    idx = None
    for n in ast.walk(fi.node):
        if isinstance(n, ast.Name) and n.id in table_defs and any(isinstance(k, ast.Name) and k.id == "curves" for k in ast.walk(table_defs[n.id])):
            idx = n.id
    if idx is None:
        if found is not None:
            chk.fail(P("known-curve-recognised"), fi.qualname, "for c in %s" % found[2], where, "the decoded parameters are compared with a subset of the registry only: a registered curve outside it decodes as an anonymous curve without name and OID")
        else:
            chk.incomplete(P("known-curve-recognised"), "the way Curve.from_der looks the decoded parameters up in the registry is not one the rule knows")
        return
    v = table_defs[idx]
    comp = None
    if isinstance(v, ast.DictComp):
        comp = (v.key, v.generators)
    elif isinstance(v, ast.Call) and getattr(v.func, "id", None) == "dict" and len(v.args) == 1 and isinstance(v.args[0], (ast.GeneratorExp, ast.ListComp)) \
            and isinstance(v.args[0].elt, ast.Tuple) and len(v.args[0].elt.elts) == 2:
        comp = (v.args[0].elt.elts[0], v.args[0].generators)
    if comp is None or len(comp[1]) != 1 or comp[1][0].ifs or not isinstance(comp[1][0].target, ast.Name) or not covers(comp[1][0].iter):
        chk.incomplete(P("known-curve-recognised"), "index %s is not a dictionary built by one comprehension over the whole registry" % idx)
        return
    from rules import c17 as _c17

    lits = _c17.curve_literals(prog)
    cvar = comp[1][0].target.id

    def attrs_of(var):
        call = defs.get(var)
        if call is None or len(call.args) < 3:
            return None
        cn = call.args[1].attr if isinstance(call.args[1], ast.Attribute) else getattr(call.args[1], "id", "")
        lit = lits.get(cn[len("curve_"):]) if cn.startswith("curve_") else None
        if lit is None:
            return None
        return dict(lit, name=call.args[0].value if isinstance(call.args[0], ast.Constant) else None, oid=prog.try_fold(m, call.args[3]) if len(call.args) > 3 else None)

    def ev(e, rec):
        if isinstance(e, ast.Tuple):
            return tuple(ev(x, rec) for x in e.elts)
        if isinstance(e, ast.Constant):
            return e.value
        src = ast.unparse(e).replace(" ", "")
        table = {cvar + ".curve.p()": "p", cvar + ".curve.a()": "a", cvar + ".curve.b()": "b", cvar + ".curve.cofactor()": "h", cvar + ".generator.x()": "Gx", cvar + ".generator.y()": "Gy",
                 cvar + ".order": "n", cvar + ".generator.order()": "n", cvar + ".name": "name", cvar + ".oid": "oid"}
        if src in table:
            val = rec[table[src]]
            return tuple(val) if isinstance(val, list) else val
        raise NotConst(src)

    keys = {}
    clash = None
    n_eval = 0
    try:
        for var in reg:
            rec = attrs_of(var)
            if rec is None:
                continue  # (the two Edwards curves: their parameters are not among the short-Weierstrass literals)
            k = ev(comp[0], rec)
            n_eval += 1
            if k in keys:
                clash = (keys[k], var, k)
                break
            keys[k] = var
    except NotConst as e_:
        chk.incomplete(P("known-curve-recognised"), "key function of index %s is not one the rule can evaluate (%s)" % (idx, e_))
        return
    chk.require(clash is None and n_eval >= 17, P("known-curve-recognised"), fi.qualname, "%s = {%s: c for c in curves}" % (idx, ast.unparse(comp[0])), where,
                "the index key is different for every registered short-Weierstrass curve (%d evaluated)" % n_eval,
                ("%s and %s share the key %s of index %s: explicit parameters of the one that is overwritten decode as an anonymous curve without name and OID" % (clash[0], clash[1], hex(clash[2]) if isinstance(clash[2], int) else clash[2], idx)) if clash else "only %d registered curves could be evaluated" % n_eval)



def run(prog, chk, tier):
    from rules import state as _state

    _state.shared_state_rules(prog, chk, "C19", _state.ECDSA_MODULES)
    chk.explanation = ("The decoders of the vendored ECC library are interpreted with the DER primitives, byte helpers and point decoders inlined; explicit raises, assertions and "
                       "implicit raisers are collected with their handlers; implicit ones and assertions are discharged by Fourier-Motzkin entailment over path facts (length "
                       "guards, slice-length definitions, floor-division axioms, non-negativity) -- what remains must be an ecdsa-defined class or a ValueError. Sibling rule: "
                       "each remove_* has an emptiness guard and a length-vs-buffer guard. Trailing data: the remainder of the decoder's input is checked empty and every other "
                       "remainder is used. OIDs and the 27-byte header are audited against pinned registered values; point encoder/decoder prefixes agree. OpenSSL byte "
                       "compatibility is not decided.")
    exc_rules(prog, chk, "C19")
    sibling_rules(prog, chk, "C19")
    der_tag_rules(prog, chk, "C19")
    trailing_data_rules(prog, chk, "C19")
    const_rules(prog, chk, "C19")
    point_encoding_rules(prog, chk, "C19")
    private_scalar_rules(prog, chk, "C19")
    explicit_params_rules(prog, chk, "C19")
    known_curve_rule(prog, chk, "C19")
    stackrt.guarded(chk, "C19.der-codec-scenarios", der_codec_scenarios, prog, chk, "C19", tier)
    stackrt.guarded(chk, "C19.pubkey-encoding-scenarios", pubkey_encoding_scenarios, prog, chk, "C19", tier)
