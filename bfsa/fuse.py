"""Fusion of a generator that did not exist on the pinned tree with the for loop that consumes it.

    for T in G(a, b):          G's body, with its locals renamed and its parameters bound to a, b,
        BODY            ==>    in which the statement `yield V` is replaced by  `T = V; BODY`

This is what the two pieces of code do together, step by step (the consumer's body runs at the point where the generator is suspended), written as one piece
of code again -- the shape the rules were written for.  Only the simple case is fused: a module-level generator function of the same module that is not in
spec/pinned_functions.json, exactly one `yield` (a statement of its own, not under try / with), no `return` in the generator, no `break` / `return` in the
consumer's body (a `continue` there resumes the generator: the body is wrapped in a one-trip loop), every parameter given explicitly, no else clause.
Everything else is left as it is (and interpreted by the generator model of the interpreter).
"""
from __future__ import annotations

import ast
import copy
from typing import List, Optional

_COUNTER = [0]


def _own_nodes(node):
    """nodes of a function body, not descending into nested functions / classes / lambdas"""
    stack = list(ast.iter_child_nodes(node))
    while stack:
        n = stack.pop()
        yield n
        if isinstance(n, (ast.FunctionDef, ast.AsyncFunctionDef, ast.ClassDef, ast.Lambda)):
            continue
        stack.extend(ast.iter_child_nodes(n))


def _loop_level(body, kinds):
    out = []
    stack = list(body)
    while stack:
        n = stack.pop()
        if isinstance(n, kinds):
            out.append(n)
        if isinstance(n, (ast.For, ast.While, ast.AsyncFor)):
            stack.extend(n.orelse)
            continue
        if isinstance(n, (ast.FunctionDef, ast.AsyncFunctionDef, ast.Lambda, ast.ClassDef)):
            continue
        stack.extend(ast.iter_child_nodes(n))
    return out


def fuse_for(s: ast.For, gen_node: ast.FunctionDef) -> Optional[List[ast.stmt]]:
    """the fused statements for `for T in G(...): BODY` with G = gen_node, or None when this is not the simple case"""
    it = s.iter
    if not isinstance(it, ast.Call) or s.orelse or any(isinstance(a, ast.Starred) for a in it.args) or any(k.arg is None for k in it.keywords):
        return None
    g = gen_node
    own = list(_own_nodes(g))
    yields = [n for n in own if isinstance(n, (ast.Yield, ast.YieldFrom))]
    if len(yields) != 1 or isinstance(yields[0], ast.YieldFrom) or any(isinstance(n, ast.Return) for n in own) or any(isinstance(n, (ast.Global, ast.Nonlocal)) for n in own):
        return None
    # the yield is an expression statement reached through plain blocks (if / for / while bodies)
    path = None

    def find(stmts, trail):
        nonlocal path
        for i, st in enumerate(stmts):
            if isinstance(st, ast.Expr) and st.value is yields[0]:
                path = trail + [(stmts, i)]
                return True
            if isinstance(st, (ast.If, ast.For, ast.While)):
                if find(st.body, trail + [(stmts, i)]) or find(st.orelse, trail + [(stmts, i)]):
                    return True
        return False

    gcopy = copy.deepcopy(g)
    own_c = list(_own_nodes(gcopy))
    yields = [n for n in own_c if isinstance(n, ast.Yield)]
    if not find(gcopy.body, []):
        return None
    # consumer body: no break of this loop, no return
    if _loop_level(s.body, (ast.Break,)) or any(isinstance(n, ast.Return) for st_ in s.body for n in [st_] + list(_own_nodes(st_))):
        return None
    # parameters
    a = gcopy.args
    if a.vararg or a.kwarg or a.posonlyargs and False:
        return None
    params = [x.arg for x in a.posonlyargs + a.args + a.kwonlyargs]
    given = {}
    for nm, v in zip([x.arg for x in a.posonlyargs + a.args], it.args):
        given[nm] = v
    if len(it.args) > len(a.posonlyargs + a.args):
        return None
    for k in it.keywords:
        if k.arg in given or k.arg not in params:
            return None
        given[k.arg] = k.value
    if set(given) != set(params):
        return None
    # rename the generator's locals
    _COUNTER[0] += 1
    pre = "__g%d_" % _COUNTER[0]
    local = set(params)
    for n in own_c:
        if isinstance(n, ast.Name) and isinstance(n.ctx, (ast.Store, ast.Del)):
            local.add(n.id)
        elif isinstance(n, ast.ExceptHandler) and n.name:
            local.add(n.name)
    for n in own_c:
        if isinstance(n, ast.Name) and n.id in local:
            n.id = pre + n.id
        elif isinstance(n, ast.ExceptHandler) and n.name in local:
            n.name = pre + n.name
    out: List[ast.stmt] = []
    for nm in params:
        out.append(ast.Assign(targets=[ast.Name(id=pre + nm, ctx=ast.Store())], value=given[nm]))
    stmts, i = path[-1]
    once = ast.For(target=ast.Name(id=pre + "once", ctx=ast.Store()), iter=ast.Tuple(elts=[ast.Constant(value=0)], ctx=ast.Load()), body=list(s.body), orelse=[])
    value = yields[0].value if yields[0].value is not None else ast.Constant(value=None)
    stmts[i:i + 1] = [ast.Assign(targets=[s.target], value=value), once]
    body = [b for b in gcopy.body if not (isinstance(b, ast.Expr) and isinstance(b.value, ast.Constant) and isinstance(b.value.value, str))]
    out += body
    for st_ in out:
        for n in ast.walk(st_):
            if isinstance(n, (ast.expr, ast.stmt)) and getattr(n, "lineno", None) is None:
                ast.copy_location(n, s)
        ast.fix_missing_locations(st_)
    return out


def fuse_function(fn_node: ast.FunctionDef, resolve) -> ast.FunctionDef:
    """a copy of the function in which every fusable `for ... in G(...)` is replaced by the fused statements (resolve(func_expr) -> generator FunctionDef or None)"""
    fn = copy.deepcopy(fn_node)

    def walk(stmts):
        i = 0
        while i < len(stmts):
            st = stmts[i]
            if isinstance(st, ast.For) and isinstance(st.iter, ast.Call):
                g = resolve(st.iter.func)
                fused = fuse_for(st, g) if g is not None else None
                if fused is not None:
                    stmts[i:i + 1] = fused
                    continue  # the fused statements may contain further loops
            for fld in ("body", "orelse", "finalbody"):
                b = getattr(st, fld, None)
                if isinstance(b, list) and b and isinstance(b[0], ast.stmt) and not isinstance(st, (ast.FunctionDef, ast.AsyncFunctionDef, ast.ClassDef)):
                    walk(b)
            for h in getattr(st, "handlers", []) or []:
                walk(h.body)
            i += 1

    walk(fn.body)
    return fn
