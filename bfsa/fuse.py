"""Fusion of a generator that did not exist on the pinned tree with the for loop that consumes it.

    for T in G(a, b):          G's body, with its locals renamed and its parameters bound to a, b,
        BODY            ==>    in which the statement `yield V` is replaced by  `T = V; BODY`

This is what the two pieces of code do together, step by step (the consumer's body runs at the point where the generator is suspended), written as one piece
of code again -- the shape the rules were written for.  Only the simple case is fused: a module-level generator function of the same module that is not in
spec/pinned_functions.json, exactly one `yield` (a statement of its own, not under try / with), no `return` in the generator, no `break` / `return` in the
consumer's body (a `continue` there resumes the generator: the body is wrapped in a one-trip loop), every parameter given explicitly, no else clause.
Everything else is left as it is (and interpreted by the generator model of the interpreter).
"""
from __future__ import annotations

import ast
import copy
from typing import List, Optional

_COUNTER = [0]


def _own_nodes(node):
    """nodes of a function body, not descending into nested functions / classes / lambdas"""
    stack = list(ast.iter_child_nodes(node))
    while stack:
        n = stack.pop()
        yield n
        if isinstance(n, (ast.FunctionDef, ast.AsyncFunctionDef, ast.ClassDef, ast.Lambda)):
            continue
        stack.extend(ast.iter_child_nodes(n))


def _loop_level(body, kinds):
    out = []
    stack = list(body)
    while stack:
        n = stack.pop()
        if isinstance(n, kinds):
            out.append(n)
        if isinstance(n, (ast.For, ast.While, ast.AsyncFor)):
            stack.extend(n.orelse)
            continue
        if isinstance(n, (ast.FunctionDef, ast.AsyncFunctionDef, ast.Lambda, ast.ClassDef)):
            continue
        stack.extend(ast.iter_child_nodes(n))
    return out


def _returns_as_breaks(g: ast.FunctionDef) -> bool:
    """every `return` of the generator is a bare return directly inside its LAST top-level statement, a loop, and not inside a nested loop: leaving the
    generator there is leaving that loop (rewritten in place to `break`); False when a return is of another kind"""
    rets = [n for n in _own_nodes(g) if isinstance(n, ast.Return)]
    if not rets:
        return True
    body = [b for b in g.body if not (isinstance(b, ast.Expr) and isinstance(b.value, ast.Constant))]
    if not body or not isinstance(body[-1], (ast.For, ast.While)) or body[-1].orelse:
        return False
    loop = body[-1]
    found = []

    def walk(stmts):
        for i, st in enumerate(stmts):
            if isinstance(st, ast.Return):
                if st.value is not None:
                    return False
                found.append((stmts, i))
            elif isinstance(st, ast.If):
                if walk(st.body) is False or walk(st.orelse) is False:
                    return False
            elif isinstance(st, (ast.For, ast.While, ast.Try, ast.With, ast.Match, ast.FunctionDef)):
                if any(isinstance(n, ast.Return) for n in ast.walk(st)):
                    return False
        return True

    if walk(loop.body) is False or len(found) != len(rets):
        return False
    for stmts, i in found:
        stmts[i] = ast.copy_location(ast.Break(), stmts[i])
    return True


def fuse_for(s: ast.For, gen_node: ast.FunctionDef, receiver=None) -> Optional[List[ast.stmt]]:
    """the fused statements for `for T in G(...): BODY` with G = gen_node, or None when this is not the simple case.  `receiver` is the expression the
    first parameter (self / cls) of a method is bound to"""
    it = s.iter
    if not isinstance(it, ast.Call) or s.orelse or any(isinstance(a, ast.Starred) for a in it.args) or any(k.arg is None for k in it.keywords):
        return None
    g = gen_node
    own = list(_own_nodes(g))
    yields = [n for n in own if isinstance(n, (ast.Yield, ast.YieldFrom))]
    if not yields or any(isinstance(y, ast.YieldFrom) for y in yields) or any(isinstance(n, (ast.Global, ast.Nonlocal)) for n in own):
        return None
    if len(yields) > 1 and (len(yields) > 4 or any(isinstance(n, (ast.Lambda, ast.FunctionDef, ast.AsyncFunctionDef)) for b in s.body for n in ast.walk(b))):
        return None  # the consumer's body is copied once per yield: only small bodies without nested functions
    if any(isinstance(n, ast.Return) for n in own):
        probe = copy.deepcopy(g)
        if not _returns_as_breaks(probe):
            return None
    # every yield is an expression statement reached through plain blocks (if / for / while bodies)
    sites = []

    def find(stmts, trail):
        for i, st in enumerate(stmts):
            if isinstance(st, ast.Expr) and any(st.value is y for y in yields):
                sites.append((stmts, i, st.value))
            if isinstance(st, (ast.If, ast.For, ast.While)):
                find(st.body, trail + [(stmts, i)])
                find(st.orelse, trail + [(stmts, i)])
        return bool(sites)

    gcopy = copy.deepcopy(g)
    _returns_as_breaks(gcopy)
    own_c = list(_own_nodes(gcopy))
    yields = [n for n in own_c if isinstance(n, ast.Yield)]
    find(gcopy.body, [])
    if len(sites) != len(yields):
        return None
    # consumer body: no break of this loop, no return
    if _loop_level(s.body, (ast.Break,)) or any(isinstance(n, ast.Return) for st_ in s.body for n in [st_] + list(_own_nodes(st_))):
        return None
    # parameters
    a = gcopy.args
    if a.vararg or a.kwarg or a.posonlyargs and False:
        return None
    params = [x.arg for x in a.posonlyargs + a.args + a.kwonlyargs]
    given = {}
    positional = [x.arg for x in a.posonlyargs + a.args]
    if receiver is not None:
        if not positional:
            return None
        given[positional[0]] = receiver
        positional = positional[1:]
    for nm, v in zip(positional, it.args):
        given[nm] = v
    if len(it.args) > len(positional):
        return None
    for k in it.keywords:
        if k.arg in given or k.arg not in params:
            return None
        given[k.arg] = k.value
    if set(given) != set(params):
        return None
    # rename the generator's locals
    _COUNTER[0] += 1
    pre = "__g%d_" % _COUNTER[0]
    local = set(params)
    for n in own_c:
        if isinstance(n, ast.Name) and isinstance(n.ctx, (ast.Store, ast.Del)):
            local.add(n.id)
        elif isinstance(n, ast.ExceptHandler) and n.name:
            local.add(n.name)
    for n in own_c:
        if isinstance(n, ast.Name) and n.id in local:
            n.id = pre + n.id
        elif isinstance(n, ast.ExceptHandler) and n.name in local:
            n.name = pre + n.name
    out: List[ast.stmt] = []
    for nm in params:
        out.append(ast.Assign(targets=[ast.Name(id=pre + nm, ctx=ast.Store())], value=given[nm]))
    # (replace from the last site of each statement list backwards so that positions stay valid)
    for k, (stmts, i, y) in enumerate(sorted(sites, key=lambda t: -t[1])):
        body_k = list(s.body) if k == 0 else copy.deepcopy(list(s.body))
        tgt_k = s.target if k == 0 else copy.deepcopy(s.target)
        once = ast.For(target=ast.Name(id=pre + "once%d" % k, ctx=ast.Store()), iter=ast.Tuple(elts=[ast.Constant(value=0)], ctx=ast.Load()), body=body_k, orelse=[])
        value = y.value if y.value is not None else ast.Constant(value=None)
        stmts[i:i + 1] = [ast.Assign(targets=[tgt_k], value=value), once]
    body = [b for b in gcopy.body if not (isinstance(b, ast.Expr) and isinstance(b.value, ast.Constant) and isinstance(b.value.value, str))]
    out += body
    for st_ in out:
        for n in ast.walk(st_):
            if isinstance(n, (ast.expr, ast.stmt)) and getattr(n, "lineno", None) is None:
                ast.copy_location(n, s)
        ast.fix_missing_locations(st_)
    return out


def fuse_function(fn_node: ast.FunctionDef, resolve) -> ast.FunctionDef:
    """a copy of the function in which every fusable `for ... in G(...)` is replaced by the fused statements (resolve(func_expr) -> generator FunctionDef or None)"""
    fn = copy.deepcopy(fn_node)

    def walk(stmts):
        i = 0
        while i < len(stmts):
            st = stmts[i]
            if isinstance(st, ast.For) and isinstance(st.iter, ast.Call):
                g = resolve(st.iter.func)
                fused = fuse_for(st, g) if g is not None else None
                if fused is not None:
                    stmts[i:i + 1] = fused
                    continue  # the fused statements may contain further loops
            for fld in ("body", "orelse", "finalbody"):
                b = getattr(st, fld, None)
                if isinstance(b, list) and b and isinstance(b[0], ast.stmt) and not isinstance(st, (ast.FunctionDef, ast.AsyncFunctionDef, ast.ClassDef)):
                    walk(b)
            for h in getattr(st, "handlers", []) or []:
                walk(h.body)
            i += 1

    walk(fn.body)
    return fn


# ---------------------------------------------------------------------------------------------------------------------------------------------------
# parallel key / value lists zipped into a dictionary

def _blocks_of(node):
    """every statement list of a function (its own, not those of nested functions / classes)"""
    for n in [node] + [x for x in _own_nodes(node)]:
        for fld in ("body", "orelse", "finalbody"):
            b = getattr(n, fld, None)
            if isinstance(b, list) and b and isinstance(b[0], ast.stmt):
                yield b
        if isinstance(n, ast.Try):
            for h in n.handlers:
                yield h.body
        if isinstance(n, ast.Match):
            for c in n.cases:
                yield c.body


def _empty_list_init(s):
    """name of the variable when s is `K = []` / `K: T = []` / `K = list()`"""
    if isinstance(s, ast.Assign) and len(s.targets) == 1 and isinstance(s.targets[0], ast.Name):
        tgt, v = s.targets[0].id, s.value
    elif isinstance(s, ast.AnnAssign) and isinstance(s.target, ast.Name) and s.value is not None:
        tgt, v = s.target.id, s.value
    else:
        return None
    if isinstance(v, ast.List) and not v.elts:
        return tgt
    if isinstance(v, ast.Call) and isinstance(v.func, ast.Name) and v.func.id == "list" and not v.args and not v.keywords:
        return tgt
    return None


def _append_of(s):
    """(list name, argument) when s is the statement `K.append(x)` with x a name or a constant"""
    if isinstance(s, ast.Expr) and isinstance(s.value, ast.Call):
        c = s.value
        if isinstance(c.func, ast.Attribute) and c.func.attr == "append" and isinstance(c.func.value, ast.Name) and len(c.args) == 1 and not c.keywords and isinstance(c.args[0], (ast.Name, ast.Constant)):
            return c.func.value.id, c.args[0]
    return None


def zip_lists_to_dict(fn_node):
    """A dictionary built as  K = []; V = []; ...; K.append(k); V.append(v); ...; D = dict(zip(K, V[, strict=True]))  where K is otherwise only asked
    `x in K` and V is not read at all is the dictionary filled entry by entry: the function with  D = {}; ...; D[k] = v; ...  and `x in D` instead
    (same keys in the same first-insertion order, a later value replaces an earlier one under the same key in both, list membership and dictionary
    membership agree for hashable keys).  Returns the rewritten copy of the function, or None when the idiom does not occur."""
    own = list(_own_nodes(fn_node))
    for blk in _blocks_of(fn_node):
        for i, s in enumerate(blk):
            # D = dict(zip(K, V))
            if isinstance(s, ast.Assign) and len(s.targets) == 1 and isinstance(s.targets[0], ast.Name):
                d_name, v = s.targets[0].id, s.value
            elif isinstance(s, ast.AnnAssign) and isinstance(s.target, ast.Name) and s.value is not None:
                d_name, v = s.target.id, s.value
            else:
                continue
            if not (isinstance(v, ast.Call) and isinstance(v.func, ast.Name) and v.func.id == "dict" and len(v.args) == 1 and not v.keywords):
                continue
            z = v.args[0]
            if not (isinstance(z, ast.Call) and isinstance(z.func, ast.Name) and z.func.id == "zip" and len(z.args) == 2 and all(isinstance(a, ast.Name) for a in z.args)):
                continue
            if any(not (k.arg == "strict" and isinstance(k.value, ast.Constant)) for k in z.keywords):
                continue
            kn, vn = z.args[0].id, z.args[1].id
            if kn == vn or d_name in (kn, vn):
                continue
            inits = {_empty_list_init(x): j for j, x in enumerate(blk[:i]) if _empty_list_init(x) in (kn, vn)}
            if set(inits) != {kn, vn}:
                continue
            # every other occurrence of the three names
            names = [n for n in own if isinstance(n, ast.Name) and n.id in (kn, vn, d_name)]
            if any(isinstance(n, (ast.Global, ast.Nonlocal)) for n in own) or any(isinstance(n, (ast.Lambda, ast.FunctionDef, ast.AsyncFunctionDef, ast.ClassDef)) for n in own):
                continue
            allowed = {id(z.args[0]), id(z.args[1]), id(s.targets[0] if isinstance(s, ast.Assign) else s.target)}
            for j in inits.values():
                x = blk[j]
                allowed.add(id(x.targets[0] if isinstance(x, ast.Assign) else x.target))
            pairs, tests, ok = [], [], True
            for b2 in _blocks_of(fn_node):
                j = 0
                while j < len(b2):
                    a1 = _append_of(b2[j])
                    if a1 and a1[0] in (kn, vn):
                        a2 = _append_of(b2[j + 1]) if j + 1 < len(b2) else None
                        if not a2 or {a1[0], a2[0]} != {kn, vn}:
                            ok = False
                            break
                        k_arg, v_arg = (a1[1], a2[1]) if a1[0] == kn else (a2[1], a1[1])
                        pairs.append((b2, j, k_arg, v_arg))
                        allowed.add(id(b2[j].value.func.value))
                        allowed.add(id(b2[j + 1].value.func.value))
                        j += 2
                        continue
                    j += 1
                if not ok:
                    break
            if not ok or not pairs:
                continue
            for n in own:
                if isinstance(n, ast.Compare) and len(n.ops) == 1 and isinstance(n.ops[0], (ast.In, ast.NotIn)) and isinstance(n.comparators[0], ast.Name) and n.comparators[0].id == kn:
                    tests.append(n)
                    allowed.add(id(n.comparators[0]))
            if any(id(n) not in allowed for n in names if n.id != d_name):
                continue
            # the dictionary's name is not in use before the statement that creates it, and is not assigned anywhere else
            pos = (s.lineno, s.col_offset)
            if any(n.id == d_name and id(n) not in allowed and ((n.lineno, n.col_offset) < pos or not isinstance(n.ctx, ast.Load)) for n in names):
                continue
            # ---- rewrite a copy (positions of the nodes found above are recomputed on the copy through a parallel walk)
            new = copy.deepcopy(fn_node)
            mapping = {id(a): b for a, b in zip(ast.walk(fn_node), ast.walk(new))}
            nblk = lambda b: next(getattr(mapping[id(p)], fld) for p in [fn_node] + own for fld in ("body", "orelse", "finalbody") if getattr(p, fld, None) is b) if not any(isinstance(p, ast.Try) and any(h.body is b for h in p.handlers) for p in own) else None
            try:
                for n in tests:
                    mapping[id(n)].comparators[0] = ast.copy_location(ast.Name(id=d_name, ctx=ast.Load()), n.comparators[0])
                edits = {}
                for (b2, j, k_arg, v_arg) in pairs:
                    st_ = ast.Assign(targets=[ast.Subscript(value=ast.Name(id=d_name, ctx=ast.Load()), slice=copy.deepcopy(k_arg), ctx=ast.Store())], value=copy.deepcopy(v_arg), type_comment=None)
                    ast.copy_location(st_, b2[j])
                    ast.fix_missing_locations(st_)
                    edits.setdefault(id(b2), (b2, []))[1].append((j, 2, [st_]))
                d_init = ast.Assign(targets=[ast.Name(id=d_name, ctx=ast.Store())], value=ast.Dict(keys=[], values=[]), type_comment=None)
                ast.copy_location(d_init, blk[inits[kn]])
                ast.fix_missing_locations(d_init)
                edits.setdefault(id(blk), (blk, []))[1].extend([(inits[kn], 1, [d_init]), (inits[vn], 1, []), (i, 1, [])])
                for b2, lst in edits.values():
                    nb = nblk(b2)
                    if nb is None:
                        return None
                    for j, n_, repl in sorted(lst, key=lambda e: -e[0]):
                        nb[j:j + n_] = repl
            except StopIteration:
                return None
            ast.fix_missing_locations(new)
            return new
    return None


# ---------------------------------------------------------------------------------------------------------------------------------------------------
# an action on the previous item, deferred to the top of the next trip (and repeated once after the loop)

def _is_none_init(s, name=None):
    if isinstance(s, ast.Assign) and len(s.targets) == 1 and isinstance(s.targets[0], ast.Name):
        t, v = s.targets[0].id, s.value
    elif isinstance(s, ast.AnnAssign) and isinstance(s.target, ast.Name) and s.value is not None:
        t, v = s.target.id, s.value
    else:
        return None
    return t if isinstance(v, ast.Constant) and v.value is None and (name is None or t == name) else None


def _not_none_guard(s):
    """(P, A) when s is `if P is not None: A` (no else)"""
    if isinstance(s, ast.If) and not s.orelse and isinstance(s.test, ast.Compare) and len(s.test.ops) == 1 and isinstance(s.test.ops[0], ast.IsNot) \
            and isinstance(s.test.left, ast.Name) and isinstance(s.test.comparators[0], ast.Constant) and s.test.comparators[0].value is None:
        return s.test.left.id, s.body
    return None


def _sentinel_iter(e):
    """(F, S) when e is iter(F, S) with F a lambda without parameters"""
    if isinstance(e, ast.Call) and isinstance(e.func, ast.Name) and e.func.id == "iter" and len(e.args) == 2 and not e.keywords \
            and isinstance(e.args[0], ast.Lambda) and not (e.args[0].args.args or e.args[0].args.vararg or e.args[0].args.kwarg or e.args[0].args.kwonlyargs or e.args[0].args.posonlyargs):
        return e.args[0], e.args[1]
    return None


def rotate_deferred(fn_node):
    """    P = None                                              [cnt = k]
        for [I,] T in [enumerate(]iter(F, S)[, start=k)]:     T = F()
            if P is not None: A(P)                            while T != S:
            BODY                                       ==>        [I = cnt; cnt += 1]
            P = X                                                 BODY
        if P is not None: A(P)                                    T = F()
                                                                  A(X)
    The action on the item of one trip is carried out after the next item has been fetched (or the sentinel seen), in both: A on the left runs at the top of
    the following trip or, after the last trip, behind the loop.  Conditions: P occurs nowhere else, BODY has no break / continue / return-free jump of this
    loop and binds X afresh on every trip, A reads P and nothing that the loop rebinds, F is a lambda without parameters (the idiom `iter(lambda: read(), 0)`).
    The iterator may also be bound to a name first (IT = iter(F, S)) when that name is used by this loop only.  Returns the new top-level statement list or None."""
    body = fn_node.body
    own = list(_own_nodes(fn_node))
    for li, loop in enumerate(body):
        if not isinstance(loop, ast.For) or loop.orelse or li + 1 >= len(body) or len(loop.body) < 3:
            continue
        g0, gp = _not_none_guard(loop.body[0]), _not_none_guard(body[li + 1])
        last = loop.body[-1]
        if not g0 or not gp or g0[0] != gp[0] or ast.dump(ast.Module(body=g0[1], type_ignores=[])) != ast.dump(ast.Module(body=gp[1], type_ignores=[])):
            continue
        p = g0[0]
        if not (isinstance(last, ast.Assign) and len(last.targets) == 1 and isinstance(last.targets[0], ast.Name) and last.targets[0].id == p and isinstance(last.value, ast.Name)):
            continue
        x = last.value.id
        inits = [j for j, s in enumerate(body[:li]) if _is_none_init(s, p)]
        if len(inits) != 1:
            continue
        # the iterable
        it, cnt_t, start = loop.iter, None, None
        item_t = loop.target
        if isinstance(it, ast.Call) and isinstance(it.func, ast.Name) and it.func.id == "enumerate" and 1 <= len(it.args) <= 2 and isinstance(loop.target, ast.Tuple) and len(loop.target.elts) == 2:
            kw = {k.arg: k.value for k in it.keywords}
            if set(kw) - {"start"} or (len(it.args) == 2 and kw):
                continue
            start = it.args[1] if len(it.args) == 2 else kw.get("start", ast.Constant(value=0))
            cnt_t, item_t = loop.target.elts
            it = it.args[0]
        it_stmt = None
        fs = _sentinel_iter(it)
        if fs is None and isinstance(it, ast.Name):
            defs = [j for j, s in enumerate(body[:li]) if isinstance(s, ast.Assign) and len(s.targets) == 1 and isinstance(s.targets[0], ast.Name) and s.targets[0].id == it.id]
            uses = [n for n in own if isinstance(n, ast.Name) and n.id == it.id]
            if len(defs) == 1 and len(uses) == 2 and _sentinel_iter(body[defs[0]].value):
                it_stmt = defs[0]
                fs = _sentinel_iter(body[it_stmt].value)
        if fs is None or not isinstance(item_t, ast.Name) or (cnt_t is not None and not isinstance(cnt_t, ast.Name)):
            continue
        mid = loop.body[1:-1]
        if _loop_level(mid, (ast.Break, ast.Continue)) or any(isinstance(n, (ast.Return, ast.Lambda, ast.FunctionDef)) for s in g0[1] for n in ast.walk(s)):
            continue
        # P occurs only in the places of the idiom; X is bound by a plain statement of BODY; A reads nothing the loop rebinds
        p_uses = [n for n in own if isinstance(n, ast.Name) and n.id == p]
        p_in_a = sum(1 for s in g0[1] + gp[1] for n in ast.walk(s) if isinstance(n, ast.Name) and n.id == p)
        if len(p_uses) != p_in_a + 4:  # the two tests, the initialisation, the update
            continue
        if not any(isinstance(s, ast.Assign) and len(s.targets) == 1 and isinstance(s.targets[0], ast.Name) and s.targets[0].id == x for s in mid):
            continue
        stored = {n.id for s in loop.body for n in ast.walk(s) if isinstance(n, ast.Name) and isinstance(n.ctx, ast.Store)} | {n.id for n in ast.walk(loop.target) if isinstance(n, ast.Name)}
        a_reads = {n.id for s in g0[1] for n in ast.walk(s) if isinstance(n, ast.Name)}
        if (a_reads - {p}) & stored:
            continue
        _COUNTER[0] += 1
        tag = "__rot%d_" % _COUNTER[0]
        f_expr, s_expr = fs

        def loc(n, at):
            for m in ast.walk(n):
                if getattr(m, "lineno", None) is None:
                    ast.copy_location(m, at)
            ast.fix_missing_locations(n)
            return n

        fetch = lambda at: loc(ast.Assign(targets=[ast.Name(id=item_t.id, ctx=ast.Store())], value=ast.Call(func=f_expr, args=[], keywords=[]), type_comment=None), at)
        act = copy.deepcopy(g0[1])
        for s in act:
            for n in ast.walk(s):
                if isinstance(n, ast.Name) and n.id == p:
                    n.id = x
        pre, head = [], []
        if cnt_t is not None:
            pre.append(loc(ast.Assign(targets=[ast.Name(id=tag + "cnt", ctx=ast.Store())], value=start, type_comment=None), loop))
            head.append(loc(ast.Assign(targets=[ast.Name(id=cnt_t.id, ctx=ast.Store())], value=ast.Name(id=tag + "cnt", ctx=ast.Load()), type_comment=None), loop))
            head.append(loc(ast.AugAssign(target=ast.Name(id=tag + "cnt", ctx=ast.Store()), op=ast.Add(), value=ast.Constant(value=1)), loop))
        pre.append(fetch(loop))
        test = loc(ast.Compare(left=ast.Name(id=item_t.id, ctx=ast.Load()), ops=[ast.NotEq()], comparators=[s_expr]), loop)
        wl = ast.While(test=test, body=head + list(mid) + [fetch(last)] + act, orelse=[])
        ast.copy_location(wl, loop)
        out = []
        for j, s in enumerate(body):
            if j == inits[0] or j == it_stmt or j == li + 1:
                continue
            if j == li:
                out.extend(pre + [wl])
            else:
                out.append(s)
        return out
    return None


# ---------------------------------------------------------------------------------------------------------------------------------------------------
# a generic walker with a visitor callback, and a nested visitor that updates its enclosing function's variables

def _sans_doc(body):
    return [b for b in body if not (isinstance(b, ast.Expr) and isinstance(b.value, ast.Constant) and isinstance(b.value.value, str))]


def _bind_call(g: ast.FunctionDef, call: ast.Call):
    """parameter name -> argument expression for a call with plain positional / keyword arguments that binds every parameter; None otherwise"""
    a = g.args
    if a.vararg or a.kwarg or any(isinstance(x, ast.Starred) for x in call.args) or any(k.arg is None for k in call.keywords):
        return None
    pos = [x.arg for x in a.posonlyargs + a.args]
    names = pos + [x.arg for x in a.kwonlyargs]
    if len(call.args) > len(pos):
        return None
    given = dict(zip(pos, call.args))
    for k in call.keywords:
        if k.arg in given or k.arg not in names:
            return None
        given[k.arg] = k.value
    return given if set(given) == set(names) else None


def inline_visitors(fn_node, resolve_new):
    """    def W(items, *, into):                 cur = init                               cur = init
            for item in items: into(item)       def visit(c):                    ==>      for c' in data:
                                                    nonlocal cur; cur = f(cur, c)             cur = f(cur, c')
                                                W(data, into=visit)
    W is a function of the module that did not exist on the pinned tree (resolve_new(name) gives its definition) and does nothing but hand every item to the
    callback; `visit` is a function defined directly in the body of fn_node without return / yield.  Both calls are statements (their results unused), so
    writing the loop and the visitor's body in place is what the three functions do together.  Returns the new body of fn_node or None."""
    body = list(fn_node.body)
    changed = False
    nested = {b.name: b for b in body if isinstance(b, ast.FunctionDef)}
    out = []
    for st in body:
        new_st = st
        # step 1: the walker
        if isinstance(st, ast.Expr) and isinstance(st.value, ast.Call) and isinstance(st.value.func, ast.Name):
            g = resolve_new(st.value.func.id)
            if g is not None and isinstance(g, ast.FunctionDef) and not any(isinstance(n, (ast.Yield, ast.YieldFrom)) for n in ast.walk(g)):
                gb = _sans_doc(g.body)
                given = _bind_call(g, st.value)
                if given is not None and len(gb) == 1 and isinstance(gb[0], ast.For) and not gb[0].orelse and isinstance(gb[0].target, ast.Name) and isinstance(gb[0].iter, ast.Name) and gb[0].iter.id in given:
                    lb = gb[0].body
                    if len(lb) == 1 and isinstance(lb[0], ast.Expr) and isinstance(lb[0].value, ast.Call) and isinstance(lb[0].value.func, ast.Name) and lb[0].value.func.id in given \
                            and len(lb[0].value.args) == 1 and not lb[0].value.keywords and isinstance(lb[0].value.args[0], ast.Name) and lb[0].value.args[0].id == gb[0].target.id \
                            and lb[0].value.func.id != gb[0].iter.id:
                        _COUNTER[0] += 1
                        item = "__w%d_item" % _COUNTER[0]
                        call = ast.Expr(value=ast.Call(func=given[lb[0].value.func.id], args=[ast.Name(id=item, ctx=ast.Load())], keywords=[]))
                        new_st = ast.For(target=ast.Name(id=item, ctx=ast.Store()), iter=given[gb[0].iter.id], body=[call], orelse=[])
                        for n in ast.walk(new_st):
                            if getattr(n, "lineno", None) is None:
                                ast.copy_location(n, st)
                        ast.fix_missing_locations(new_st)
                        changed = True
        out.append(new_st)

    # step 2: calls of nested visitors as statements, anywhere in the (new) body
    def inline_calls(stmts):
        nonlocal changed
        i = 0
        while i < len(stmts):
            st = stmts[i]
            if isinstance(st, ast.Expr) and isinstance(st.value, ast.Call) and isinstance(st.value.func, ast.Name) and st.value.func.id in nested:
                f = nested[st.value.func.id]
                given = _bind_call(f, st.value)
                own = list(_own_nodes(f))
                if given is not None and not any(isinstance(n, (ast.Return, ast.Yield, ast.YieldFrom, ast.Global, ast.Lambda, ast.FunctionDef)) for n in own) and not f.decorator_list:
                    _COUNTER[0] += 1
                    pre = "__v%d_" % _COUNTER[0]
                    fc = copy.deepcopy(f)
                    own_c = list(_own_nodes(fc))
                    outer = {nm for n in own_c if isinstance(n, ast.Nonlocal) for nm in n.names}
                    local = set(given) | {n.id for n in own_c if isinstance(n, ast.Name) and isinstance(n.ctx, (ast.Store, ast.Del))}
                    local -= outer
                    for n in own_c:
                        if isinstance(n, ast.Name) and n.id in local:
                            n.id = pre + n.id
                    binds = [ast.Assign(targets=[ast.Name(id=pre + k, ctx=ast.Store())], value=v) for k, v in given.items()]
                    inl = binds + [b for b in _sans_doc(fc.body) if not isinstance(b, ast.Nonlocal)]
                    for b in inl:
                        for n in ast.walk(b):
                            if getattr(n, "lineno", None) is None:
                                ast.copy_location(n, st)
                        ast.fix_missing_locations(b)
                    stmts[i:i + 1] = inl
                    changed = True
                    i += len(inl)
                    continue
            for fld in ("body", "orelse", "finalbody"):
                sub = getattr(st, fld, None)
                if isinstance(sub, list) and sub and isinstance(sub[0], ast.stmt) and not isinstance(st, (ast.FunctionDef, ast.AsyncFunctionDef, ast.ClassDef)):
                    inline_calls(sub)
            i += 1

    # a visitor is inlined only when it is used as such: every reference to its name (after step 1) is the callee of a call statement
    for name in list(nested):
        refs = [n for s_ in out for n in ast.walk(s_) if isinstance(n, ast.Name) and n.id == name and not (isinstance(s_, ast.FunctionDef) and s_.name == name)]
        callee = [s_2.value.func for s_ in out for s_2 in ast.walk(s_) if isinstance(s_2, ast.Expr) and isinstance(s_2.value, ast.Call) and isinstance(s_2.value.func, ast.Name) and s_2.value.func.id == name]
        if len(refs) != len(callee) or not callee:
            del nested[name]
    if nested:
        inline_calls(out)
    return out if changed else None
