"""Evaluation of arithmetic / boolean terms under an assignment of integers to some leaves (the checker's own arithmetic, used to compare a
piece of extracted dataflow with a reference function on a grid of values)."""
from __future__ import annotations

from typing import Dict

from .guard import unsnap
from .terms import Term, cval, is_const

class NoEval(Exception):
    pass


def eval_term(t: Term, env: Dict[int, int], leaf=None):
    """value of an arithmetic / boolean term under an assignment of integers to (the uids of) some of its leaves; the checker's own arithmetic.
    `leaf(term, recurse)` may give the value of terms the evaluator does not know (attribute reads, calls of named helper functions); it returns None to decline."""
    t = unsnap(t)
    if t.uid in env:
        return env[t.uid]
    if leaf is not None:
        v = leaf(t, lambda x: eval_term(x, env, leaf))
        if v is not None:
            return v
    if is_const(t):
        return cval(t)
    if t.op == "bin":
        op, a, b = t.args
        x, y = eval_term(a, env, leaf), eval_term(b, env, leaf)
        try:
            return {"Add": lambda: x + y, "Sub": lambda: x - y, "Mult": lambda: x * y, "FloorDiv": lambda: x // y, "Mod": lambda: x % y, "BitAnd": lambda: x & y, "BitOr": lambda: x | y,
                    "BitXor": lambda: x ^ y, "RShift": lambda: x >> y, "LShift": lambda: x << y}[op]()
        except KeyError:
            raise NoEval(op)
    if t.op == "un":
        x = eval_term(t.args[1], env, leaf)
        if t.args[0] == "USub":
            return -x
        if t.args[0] == "Not":
            return not x
        raise NoEval(t.args[0])
    if t.op == "cmp":
        op, a, b = t.args
        x, y = eval_term(a, env, leaf), eval_term(b, env, leaf)
        try:
            return {"Lt": x < y, "LtE": x <= y, "Gt": x > y, "GtE": x >= y, "Eq": x == y, "NotEq": x != y}[op]
        except KeyError:
            raise NoEval(op)
    if t.op == "truthy":
        return bool(eval_term(t.args[0], env, leaf))
    if t.op in ("and", "or"):
        vs = [bool(eval_term(x, env, leaf)) for x in t.args[0]]
        return all(vs) if t.op == "and" else any(vs)
    if t.op == "phi":
        return eval_term(t.args[1], env, leaf) if eval_term(t.args[0], env, leaf) else eval_term(t.args[2], env, leaf)
    raise NoEval(t.op)




def eval_function_result(res, qualname: str, env: Dict[int, int]):
    """value returned by an interpreted function under `env`: the return event whose path conditions (enclosing tests and path facts) all hold
    is selected -- exactly one must -- and its value evaluated.  Conditions that cannot be evaluated under `env` raise NoEval."""
    rets = [e for e in res.events if e.kind == "return" and e.stack == (qualname,)]
    hit = []
    for r in rets:
        conds = [(f[1], bool(f[2])) for f in r.ctx if f[0] == "if"]
        known = {(unsnap(c).uid, p_) for c, p_ in conds}
        conds += [(c, bool(p_)) for c, p_ in (getattr(r, "facts", ()) or ()) if (unsnap(c).uid, bool(p_)) not in known]
        if all(bool(eval_term(c, env)) == p_ for c, p_ in conds):
            hit.append(r)
    if len(hit) != 1:
        raise NoEval("%d return paths apply" % len(hit))
    return eval_term(hit[0].d["value"], env)
