"""FACTS: entailment of linear integer facts by Fourier-Motzkin elimination (the polyhedra domain's decision step).

Facts come from path conditions (relational normal forms), from the non-negativity of lengths / masked values /
int.from_bytes, and from the definition of slice lengths.  `entails(facts, q)` decides  facts |= q >= 0  soundly
(rational relaxation: if the negation is infeasible over Q it is infeasible over Z).
"""
from __future__ import annotations

from fractions import Fraction
from typing import Dict, List, Optional, Tuple

from .guard import rel, unsnap
from .length import lin
from .terms import NONE, Term, cval, is_const, mk, subterms
from .terms import C as C_
from .layout import builtin_call, meth_call

Lin = Dict  # {atom_key: coeff, 1: const}   meaning  sum >= 0


def _neg(a: Lin) -> Lin:
    return {k: -v for k, v in a.items()}


def _add(a: Lin, b: Lin) -> Lin:
    out = dict(a)
    for k, v in b.items():
        out[k] = out.get(k, 0) + v
    return {k: v for k, v in out.items() if v != 0}


def _sub(a: Lin, b: Lin) -> Lin:
    return _add(a, _neg(b))


def _const(c) -> Lin:
    return {1: c} if c else {}


class Facts:
    def __init__(self, ex):
        self.ex = ex
        self.ineqs: List[Lin] = []  # each: lin >= 0
        self.atoms: Dict = {}  # atom key -> Term
        self._seen_terms = set()

    # ------------------------------------------------------------------ building
    def lin_of(self, t: Term) -> Optional[Lin]:
        l = lin(t)
        if l is None:
            return None
        for x in subterms(t):
            self._note_atom(x)
        return {k: v for k, v in l.items() if v != 0}

    def _note_atom(self, x: Term):
        if x.uid in self._seen_terms:
            return
        self._seen_terms.add(x.uid)
        x = unsnap(x)
        if x.op == "len":
            k = ("len", unsnap(x.args[0]).uid)
            self.atoms[k] = x
            self.ineqs.append({k: 1})  # len >= 0
            inner = unsnap(x.args[0])
            if inner.op == "slice":
                self._slice_def(x, inner)
        elif x.op == "bin" and x.args[0] == "BitAnd":
            k = ("atom", x.uid)
            for a in (x.args[1], x.args[2]):
                if is_const(a) and isinstance(cval(a), int) and cval(a) >= 0:
                    self.ineqs.append({k: 1})
                    self.ineqs.append({k: -1, 1: cval(a)})
        elif x.op == "call" and builtin_call(x) and builtin_call(x)[0] in ("int.from_bytes",):
            self.ineqs.append({("atom", x.uid): 1})
        elif x.op in ("index",):
            self.ineqs.append({("atom", x.uid): 1})
        elif x.op == "bin" and ((x.args[0] == "FloorDiv" and is_const(unsnap(x.args[2])) and isinstance(cval(unsnap(x.args[2])), int) and cval(unsnap(x.args[2])) > 0)
                                or (x.args[0] == "RShift" and is_const(unsnap(x.args[2])) and isinstance(cval(unsnap(x.args[2])), int) and 0 <= cval(unsnap(x.args[2])) <= 64)):
            # (x >> k is x // 2**k for every integer x)
            k = cval(unsnap(x.args[2])) if x.args[0] == "FloorDiv" else 1 << cval(unsnap(x.args[2]))
            lx = lin(x.args[1])
            q = {("atom", x.uid): 1}
            if lx is not None:
                for y in subterms(x.args[1]):
                    self._note_atom(y)
                if all(v % k == 0 for v in lx.values()):
                    exact = {kk: v // k for kk, v in lx.items() if v}
                    self.ineqs.append(_sub(q, exact))
                    self.ineqs.append(_sub(exact, q))
                else:
                    kq = {("atom", x.uid): k}
                    self.ineqs.append(_sub(lx, kq))  # x - k q >= 0
                    self.ineqs.append(_add(_sub(kq, lx), _const(k - 1)))  # k q + k - 1 - x >= 0
        elif x.op in ("phi", "loopvar", "loopexit", "call") and self.nonneg(x):
            self.ineqs.append({("atom", x.uid): 1})

    def nonneg(self, t: Term, depth=0) -> bool:
        """syntactic non-negativity of an integer term"""
        t = unsnap(t)
        if depth > 12:
            return False
        if is_const(t):
            return isinstance(cval(t), int) and not isinstance(cval(t), bool) and cval(t) >= 0
        if t.op == "len" or t.op == "index":
            return True
        if t.op == "bin":
            op, a, b = t.args
            if op == "BitAnd":
                return any(is_const(x) and isinstance(cval(x), int) and cval(x) >= 0 for x in (a, b)) or (self.nonneg(a, depth + 1) and self.nonneg(b, depth + 1))
            if op in ("Add", "Mult", "LShift", "RShift", "FloorDiv", "BitOr", "BitXor"):
                return self.nonneg(a, depth + 1) and self.nonneg(b, depth + 1)
            if op == "Mod":
                return self.nonneg(b, depth + 1)
            return False
        if t.op == "phi":
            return self.nonneg(t.args[1], depth + 1) and self.nonneg(t.args[2], depth + 1)
        if t.op == "call":
            bc = builtin_call(t)
            if bc and bc[0] == "int.from_bytes":
                return True
            if bc and bc[0] == "int" and len(bc[1]) == 2:
                inner = unsnap(bc[1][0])
                ib = builtin_call(inner)
                return bool(ib) and ib[0] in ("binascii.hexlify", "binascii.b2a_hex")
            if bc and bc[0] in ("ord", "len", "abs"):
                return True
            return False
        if t.op in ("loopvar", "loopexit"):
            lr = self.ex.loops.get(t.args[0])
            if lr is None:
                return False
            init, nxt = lr.init.get(t.args[1]), lr.next.get(t.args[1])
            if init is None or nxt is None or not self.nonneg(init, depth + 1):
                return False
            n = unsnap(nxt)
            lv = mk("loopvar", t.args[0], t.args[1])
            if n.op == "bin" and n.args[0] == "Add":
                a, b = unsnap(n.args[1]), unsnap(n.args[2])
                return (a is lv and self.nonneg(b, depth + 1)) or (b is lv and self.nonneg(a, depth + 1))
            if n.op == "phi":
                alts = [unsnap(n.args[1]), unsnap(n.args[2])]
                return all(x is lv or (x.op == "bin" and x.args[0] == "Add" and ((unsnap(x.args[1]) is lv and self.nonneg(x.args[2], depth + 1)) or (unsnap(x.args[2]) is lv and self.nonneg(x.args[1], depth + 1)))) for x in alts)
            return n is lv
        if t.op == "sub" or t.op == "elem":
            from .types import type_of

            tb = type_of(self.ex, unsnap(t.args[0]))
            return tb <= frozenset(["bytes", "bytearray"]) and "?" not in tb
        return False

    def _slice_def(self, lenterm: Term, s: Term):
        """len(B[lo:hi]) : when 0 <= lo <= hi <= len(B) is entailed, len == hi - lo; with open upper end len == len(B) - lo when lo <= len(B)"""
        base, lo, hi, step = s.args[0], s.args[1], s.args[2], s.args[3]
        if step is not NONE:
            return
        kS = ("len", unsnap(s).uid)
        L = {("len", unsnap(base).uid): 1}
        self._note_atom(mk("len", unsnap(base)))
        lo_l = self.lin_of(lo) if lo is not NONE else {}
        hi_l = self.lin_of(hi) if hi is not NONE else None
        if lo_l is None or (hi is not NONE and hi_l is None):
            return
        self._pending_slices.append((kS, L, lo_l, hi_l))

    _pending_slices: List = []

    def add_rel(self, r):
        """add a relational normal form (from guard.rel) that is known to hold"""
        if r[0] == "and":
            for a in r[1]:
                self.add_rel(a)
            return
        if r[0] != "rel":
            return
        op, a, b = r[1], r[2], r[3]
        if b is None:
            if op == "Truthy":
                t = unsnap(a)
                # truthy(len-like / non-negative int) -> >= 1 ; truthy(sequence) -> len >= 1
                la = self.lin_of(mk("len", t))
                self.ineqs.append(_add(la, _const(-1))) if la is not None and t.op not in ("bin", "call", "loopvar") else None
                if t.op in ("bin", "loopvar", "loopexit", "phi", "call", "len", "index"):
                    li = self.lin_of(t)
                    if li is not None and (self.nonneg(t) or self.entails_raw(li)):
                        self.ineqs.append(_add(li, _const(-1)))
            return
        la, lb = self.lin_of(a), self.lin_of(b)
        if la is None or lb is None:
            return
        if op == "Lt":  # a < b  ->  b - a - 1 >= 0
            self.ineqs.append(_add(_sub(lb, la), _const(-1)))
        elif op == "LtE":
            self.ineqs.append(_sub(lb, la))
        elif op == "Eq":
            self.ineqs.append(_sub(lb, la))
            self.ineqs.append(_sub(la, lb))
        elif op == "NotEq":
            # x != 0 with x >= 0  ->  x >= 1
            for x, y in ((la, lb), (lb, la)):
                if not [k for k in y if k != 1] and y.get(1, 0) == 0 and self.entails_raw(x):
                    self.ineqs.append(_add(x, _const(-1)))

    def add_event_facts(self, e):
        self._pending_slices = []
        for (f, pol) in e.facts:
            self.add_rel(rel(f, pol))
        self._resolve_slices()

    def _resolve_slices(self):
        for _ in range(2):
            for (kS, L, lo_l, hi_l) in list(self._pending_slices):
                if hi_l is not None:
                    if self.entails_raw(lo_l) and self.entails_raw(_sub(hi_l, lo_l)) and self.entails_raw(_sub(L, hi_l)):
                        d = _sub(hi_l, lo_l)
                        self.ineqs.append(_sub({kS: 1}, d))
                        self.ineqs.append(_sub(d, {kS: 1}))
                        self._pending_slices.remove((kS, L, lo_l, hi_l))
                else:
                    if self.entails_raw(lo_l) and self.entails_raw(_sub(L, lo_l)):
                        d = _sub(L, lo_l)
                        self.ineqs.append(_sub({kS: 1}, d))
                        self.ineqs.append(_sub(d, {kS: 1}))
                        self._pending_slices.remove((kS, L, lo_l, hi_l))

    # ------------------------------------------------------------------ deciding
    def entails(self, q: Term) -> bool:
        """facts |= q >= 0 (q an integer term)"""
        self._pending_slices = getattr(self, "_pending_slices", [])
        l = self.lin_of(q)
        if l is None:
            return False
        self._resolve_slices()
        return self.entails_raw(l)

    def entails_rel(self, r, event=None) -> bool:
        """facts |= relation (normal form from guard.rel)"""
        if r[0] == "and":
            return all(self.entails_rel(a, event) for a in r[1])
        if r[0] == "or":
            return any(self.entails_rel(a, event) for a in r[1])
        if r[0] != "rel":
            return False
        op, a, b = r[1], r[2], r[3]
        # syntactic presence among the path facts
        if event is not None:
            for (f, pol) in event.facts:
                rf = rel(f, pol)
                if rf == r:
                    return True
                if rf[0] == "and" and r in rf[1]:
                    return True
            if op == "Eq" and b is not None:
                # x in (A, B) and x != A  =>  x == B
                for (f, pol) in event.facts:
                    rf = rel(f, pol)
                    for at in ([rf] if rf[0] == "rel" else (rf[1] if rf[0] == "and" else [])):
                        if at[0] == "rel" and at[1] == "In":
                            for x, y in ((a, b), (b, a)):
                                if unsnap(at[2]) is unsnap(x):
                                    tup = unsnap(at[3])
                                    elts = list(tup.args[0]) if tup.op == "tuple" else ([C_(v) for v in cval(tup)] if is_const(tup) and isinstance(cval(tup), tuple) else None)
                                    if elts and len(elts) == 2 and any(unsnap(e) is unsnap(y) for e in elts):
                                        other = [e for e in elts if unsnap(e) is not unsnap(y)]
                                        if other and self._known_noteq(event, x, other[0]):
                                            return True
        if b is None:
            return False
        la, lb = self.lin_of(a), self.lin_of(b)
        if la is None or lb is None:
            return False
        self._resolve_slices()
        if op == "Eq":
            return self.entails_raw(_sub(la, lb)) and self.entails_raw(_sub(lb, la))
        if op == "LtE":
            return self.entails_raw(_sub(lb, la))
        if op == "Lt":
            return self.entails_raw(_add(_sub(lb, la), _const(-1)))
        return False

    def _known_noteq(self, event, x, y) -> bool:
        for (f, pol) in event.facts:
            rf = rel(f, pol)
            for at in ([rf] if rf[0] == "rel" else (rf[1] if rf[0] == "and" else [])):
                if at[0] == "rel" and at[1] == "NotEq" and at[3] is not None:
                    if (unsnap(at[2]) is unsnap(x) and unsnap(at[3]) is unsnap(y)) or (unsnap(at[3]) is unsnap(x) and unsnap(at[2]) is unsnap(y)):
                        return True
        return False

    def entails_raw(self, q: Lin) -> bool:
        # refute:  facts  and  (-q - 1 >= 0); only facts connected to the query's atoms matter
        want = set(k for k in q if k != 1)
        chosen: List[Lin] = []
        pool = [x for x in self.ineqs if x]
        changed = True
        rounds = 0
        while changed and rounds < 4:
            changed = False
            rounds += 1
            rest = []
            for x in pool:
                ks = set(k for k in x if k != 1)
                if ks & want or not ks:
                    chosen.append(x)
                    if not ks <= want:
                        want |= ks
                        changed = True
                else:
                    rest.append(x)
            pool = rest
        if len(chosen) > 60:
            chosen = chosen[:60]
        system = [dict(x) for x in chosen] + [_add(_neg(q), _const(-1))]
        return not _feasible(system)


def _feasible(system: List[Lin], limit: int = 4000) -> bool:
    """Fourier-Motzkin over the rationals; True if a solution may exist"""
    sys_ = [{k: Fraction(v) for k, v in r.items() if v != 0} for r in system]
    vars_ = set(k for r in sys_ for k in r if k != 1)
    while vars_:
        # pick the variable with the fewest pos*neg combinations
        best, cost = None, None
        for v in vars_:
            p = sum(1 for r in sys_ if r.get(v, 0) > 0)
            n = sum(1 for r in sys_ if r.get(v, 0) < 0)
            c = p * n - p - n
            if cost is None or c < cost:
                best, cost = v, c
        v = best
        pos = [r for r in sys_ if r.get(v, 0) > 0]
        neg = [r for r in sys_ if r.get(v, 0) < 0]
        rest = [r for r in sys_ if r.get(v, 0) == 0]
        new = rest
        for p in pos:
            for n in neg:
                a, b = p[v], -n[v]
                comb = {}
                for k in set(p) | set(n):
                    if k == v:
                        continue
                    val = p.get(k, 0) * b + n.get(k, 0) * a
                    if val != 0:
                        comb[k] = val
                new.append(comb)
                if len(new) > limit:
                    return True  # give up: cannot refute
        sys_ = new
        vars_.discard(v)
        vars_ = set(k for r in sys_ for k in r if k != 1)
    for r in sys_:
        if r.get(1, 0) < 0 and not [k for k in r if k != 1]:
            return False
    return True
