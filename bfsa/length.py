"""LEN: symbolic integer terms as linear forms over atoms, with an interval x congruence refinement for `% m`.

lin(t)   -> {atom_key: coeff, 1: const}  exact linear normal form (None if not linear)
cong(t,m)-> (coeffs mod m, const mod m, lo, hi)  value = sum(coeff*atom) + const (mod m), lo <= value <= hi when known
Atoms are terms that are not arithmetic (len(x), parameters, call results ...), keyed by uid.
"""
from __future__ import annotations

from typing import Dict, Optional, Tuple

from .terms import Term, cval, is_const, mk


def unsnap(t: Term) -> Term:
    while isinstance(t, Term) and t.op == "snap":
        t = t.args[0]
    return t


def lin(t: Term) -> Optional[Dict]:
    t = unsnap(t)
    if is_const(t):
        v = cval(t)
        if isinstance(v, bool) or not isinstance(v, int):
            return None
        return {1: v}
    if t.op == "un" and t.args[0] == "USub":
        a = lin(t.args[1])
        return None if a is None else {k: -v for k, v in a.items()}
    if t.op == "bin":
        op, l, r = t.args
        if op in ("Add", "Sub"):
            a, b = lin(l), lin(r)
            if a is None or b is None:
                return None
            out = dict(a)
            for k, v in b.items():
                out[k] = out.get(k, 0) + (v if op == "Add" else -v)
            return {k: v for k, v in out.items() if v != 0 or k == 1}
        if op == "Mult":
            a, b = lin(l), lin(r)
            if a is None or b is None:
                return None
            for x, y in ((a, b), (b, a)):
                if set(x.keys()) <= {1}:
                    c = x.get(1, 0)
                    return {k: v * c for k, v in y.items()}
            return None
        if op in ("LShift", "RShift", "FloorDiv") and is_const(unsnap(r)) and isinstance(cval(unsnap(r)), int) and not isinstance(cval(unsnap(r)), bool):
            # x << k is x * 2**k; x >> k and x // c are exact when every coefficient of x is a multiple of the divisor (2n >> 1, (n << 1) // 2)
            k_ = cval(unsnap(r))
            a = lin(l)
            if a is not None and op == "LShift" and 0 <= k_ <= 64:
                return {key: v * (1 << k_) for key, v in a.items()}
            d_ = (1 << k_) if op == "RShift" and 0 <= k_ <= 64 else k_ if op == "FloorDiv" and k_ > 0 else None
            if a is not None and d_ is not None and all(v % d_ == 0 for v in a.values()) and any(key != 1 for key in a):
                return {key: v // d_ for key, v in a.items()}
    if t.op == "len":
        return {("len", unsnap(t.args[0]).uid): 1}
    return {("atom", t.uid): 1}


def lin_eq(a: Optional[Dict], b: Optional[Dict]) -> bool:
    if a is None or b is None:
        return False
    keys = set(a) | set(b)
    return all(a.get(k, 0) == b.get(k, 0) for k in keys)


def cong(t: Term, m: int):
    """(coeffs mod m, const mod m, lo, hi) or None"""
    t = unsnap(t)
    if is_const(t):
        v = cval(t)
        if isinstance(v, bool) or not isinstance(v, int):
            return None
        return ({}, v % m, v, v)
    if t.op == "un" and t.args[0] == "USub":
        a = cong(t.args[1], m)
        if a is None:
            return None
        co, c, lo, hi = a
        return ({k: (-v) % m for k, v in co.items()}, (-c) % m, None if hi is None else -hi, None if lo is None else -lo)
    if t.op == "bin":
        op, l, r = t.args
        if op in ("Add", "Sub"):
            a, b = cong(l, m), cong(r, m)
            if a is None or b is None:
                return None
            s = 1 if op == "Add" else -1
            co = dict(a[0])
            for k, v in b[0].items():
                co[k] = (co.get(k, 0) + s * v) % m
            c = (a[1] + s * b[1]) % m
            if s == 1:
                lo = None if a[2] is None or b[2] is None else a[2] + b[2]
                hi = None if a[3] is None or b[3] is None else a[3] + b[3]
            else:
                lo = None if a[2] is None or b[3] is None else a[2] - b[3]
                hi = None if a[3] is None or b[2] is None else a[3] - b[2]
            return ({k: v for k, v in co.items() if v}, c, lo, hi)
        if op == "Mod":
            rr = unsnap(r)
            if is_const(rr) and isinstance(cval(rr), int) and cval(rr) > 0:
                k = cval(rr)
                a = cong(l, m)
                if a is None:
                    return ({}, 0, 0, k - 1) if False else None
                if k % m == 0 or m % k == 0:
                    if k == m or k % m == 0:
                        # value mod k keeps the residue mod m
                        return (a[0], a[1], 0, k - 1)
                # residue information is lost, range is known
                return ({("atom", t.uid): 1}, 0, 0, k - 1)
        if op == "Mult":
            a, b = cong(l, m), cong(r, m)
            if a is None or b is None:
                return None
            for x, y in ((a, b), (b, a)):
                if not x[0] and x[2] is not None and x[2] == x[3]:
                    c = x[2]
                    lo = None if y[2] is None else min(y[2] * c, (y[3] if y[3] is not None else y[2]) * c)
                    hi = None if y[3] is None else max(y[2] * c if y[2] is not None else y[3] * c, y[3] * c)
                    if y[2] is None or y[3] is None:
                        lo = hi = None
                    return ({k: (v * c) % m for k, v in y[0].items() if (v * c) % m}, (y[1] * c) % m, lo, hi)
            return None
    if t.op == "len":
        return ({("len", unsnap(t.args[0]).uid): 1}, 0, 0, None)
    return ({("atom", t.uid): 1}, 0, None, None)


def len_key(x: Term):
    return ("len", unsnap(x).uid)


def _known_len(x: Term):
    """length of a bytes-valued term when it is statically a constant"""
    x = unsnap(x)
    if is_const(x) and isinstance(cval(x), (bytes, str, tuple)):
        return len(cval(x))
    if x.op == "call" and isinstance(x.args[0], Term) and x.args[0].op == "meth" and x.args[0].args[1] == "to_bytes" and x.args[1] and is_const(x.args[1][0]):
        return cval(x.args[1][0])
    if x.op == "call" and isinstance(x.args[0], Term) and x.args[0].op == "meth" and x.args[0].args[1] == "digest":
        return None
    return None


_orig_lin = lin


def lin(t: Term):  # noqa: F811  (wrapper adding constant lengths)
    t = unsnap(t)
    if t.op == "len":
        k = _known_len(t.args[0])
        if k is not None:
            return {1: k}
        inner = unsnap(t.args[0])
        if inner.op == "call" and isinstance(inner.args[0], Term) and inner.args[0].op == "meth" and inner.args[0].args[1] == "read" and len(inner.args[1]) == 1 and not inner.args[2]:
            # BytesReader.read(n) returns exactly n bytes or raises (C04 / C05 exact-length-reads): the length of what was read is what was asked for
            rcv = unsnap(inner.args[0].args[0])
            if rcv.op == "snap":
                rcv = unsnap(rcv.args[0])
            if rcv.op == "ref" and len(rcv.args) > 1 and "BytesReader" in str(rcv.args[1]):
                r_ = lin(inner.args[1][0])
                if r_ is not None:
                    return r_
        if inner.op == "bin" and inner.args[0] == "Add":
            from .terms import mk

            a, b = lin(mk("len", inner.args[1])), lin(mk("len", inner.args[2]))
            if a is not None and b is not None:
                out = dict(a)
                for k2, v in b.items():
                    out[k2] = out.get(k2, 0) + v
                return out
    if t.op == "bin" and t.args[0] in ("Add", "Sub"):
        a, b = lin(t.args[1]), lin(t.args[2])
        if a is None or b is None:
            return None
        out = dict(a)
        for k, v in b.items():
            out[k] = out.get(k, 0) + (v if t.args[0] == "Add" else -v)
        return {k: v for k, v in out.items() if v != 0 or k == 1}
    if t.op == "un" and t.args[0] == "USub":
        a = lin(t.args[1])
        return None if a is None else {k: -v for k, v in a.items()}
    if t.op == "bin" and t.args[0] == "Mult":
        a, b = lin(t.args[1]), lin(t.args[2])
        if a is None or b is None:
            return None
        for x, y in ((a, b), (b, a)):
            if set(x.keys()) <= {1}:
                c = x.get(1, 0)
                return {k: v * c for k, v in y.items()}
        return None
    return _orig_lin(t)


_orig_cong = cong


def _divmod_part(t: Term):
    """divmod(a, b)[0] is a // b and divmod(a, b)[1] is a % b"""
    if t.op == "sub" and is_const(t.args[1]) and cval(t.args[1]) in (0, 1) and not isinstance(cval(t.args[1]), bool):
        b = unsnap(t.args[0])
        if b.op == "call" and isinstance(b.args[0], Term) and b.args[0].op == "builtin" and b.args[0].args[0] == "divmod" and len(b.args[1]) == 2 and not b.args[2]:
            return mk("bin", "FloorDiv" if cval(t.args[1]) == 0 else "Mod", b.args[1][0], b.args[1][1])
    return None


def _lin_atoms(t: Term, k: int, acc: dict) -> bool:
    """t as an integer-linear combination of atoms (lengths, residues, opaque integers): acc[uid] = [coefficient, atom], acc[None] = [constant].
    (x // n) * n is rewritten to x - x % n (n a positive constant), so ceiling-division spellings -(-x // n) * n cancel against x"""
    t = unsnap(t)
    dm = _divmod_part(t)
    if dm is not None:
        t = dm
    if is_const(t):
        v = cval(t)
        if isinstance(v, bool) or not isinstance(v, int):
            return False
        acc.setdefault(None, [0, None])[0] += k * v
        return True
    if t.op == "len":
        l = lin(t)
        if l is not None:
            for kk, v in l.items():
                if kk == 1:
                    acc.setdefault(None, [0, None])[0] += k * v
                else:
                    acc.setdefault(kk, [0, kk])[0] += k * v
            return True
    if t.op == "un" and t.args[0] == "USub":
        return _lin_atoms(t.args[1], -k, acc)
    if t.op == "bin" and t.args[0] in ("Add", "Sub"):
        return _lin_atoms(t.args[1], k, acc) and _lin_atoms(t.args[2], k if t.args[0] == "Add" else -k, acc)
    if t.op == "bin" and t.args[0] == "Mult":
        for x, y in ((t.args[1], t.args[2]), (t.args[2], t.args[1])):
            x, y = unsnap(x), unsnap(y)
            if is_const(y) and isinstance(cval(y), int) and not isinstance(cval(y), bool):
                n = cval(y)
                neg = 1
                while x.op == "un" and x.args[0] == "USub":
                    x, neg = unsnap(x.args[1]), -neg
                xd = _divmod_part(x) or x
                if xd.op == "bin" and xd.args[0] == "FloorDiv" and n > 0 and is_const(unsnap(xd.args[2])) and cval(unsnap(xd.args[2])) == n and not isinstance(n, bool):
                    from .terms import mk

                    return _lin_atoms(xd.args[1], k * neg, acc) and _lin_atoms(mk("bin", "Mod", xd.args[1], unsnap(xd.args[2])), -k * neg, acc)
                return _lin_atoms(x, k * n * neg, acc)
        return False
    acc.setdefault(("T", t.uid), [0, t])[0] += k
    return True


def _cong_linear(t: Term, m: int):
    """congruence / range of t after cancelling equal atoms of its linear form"""
    acc: dict = {}
    if not _lin_atoms(t, 1, acc):
        return None
    co: dict = {}
    c = acc.get(None, [0])[0]
    lo = hi = c
    c %= m
    for key, (k, atom) in acc.items():
        if key is None or k == 0:
            continue
        if isinstance(atom, Term):
            a = _cong_nolin(atom, m)
        else:
            a = ({atom: 1}, 0, 0, None)  # a length
        if a is None:
            return None
        for kk, v in a[0].items():
            co[kk] = (co.get(kk, 0) + k * v) % m
        c = (c + k * a[1]) % m
        alo, ahi = (a[2], a[3]) if k > 0 else (a[3], a[2])
        lo = None if lo is None or alo is None else lo + k * alo
        hi = None if hi is None or ahi is None else hi + k * ahi
    return ({kk: v for kk, v in co.items() if v}, c, lo, hi)


def cong(t: Term, m: int):  # noqa: F811
    r = _cong_nolin(t, m)
    tt = unsnap(t)
    if (r is None or r[2] is None or r[3] is None) and (tt.op == "bin" and tt.args[0] in ("Add", "Sub", "Mult") or tt.op == "un"):
        r2 = _cong_linear(tt, m)
        if r2 is not None and (r is None or (r2[2] is not None and r2[3] is not None)):
            return r2
    return r


def _cong_nolin(t: Term, m: int):
    t = unsnap(t)
    dm = _divmod_part(t)
    if dm is not None:
        t = dm
    if t.op == "len":
        l = lin(t)
        if l is not None and set(l.keys()) <= {1}:
            v = l.get(1, 0)
            return ({}, v % m, v, v)
        if l is not None and not (len(l) == 1 and list(l.values()) == [1]):
            # sum of lengths
            co = {k: v % m for k, v in l.items() if k != 1 and v % m}
            return (co, l.get(1, 0) % m, None, None)
    if t.op == "bin" and t.args[0] in ("Add", "Sub"):
        a, b = cong(t.args[1], m), cong(t.args[2], m)
        if a is None or b is None:
            return None
        s = 1 if t.args[0] == "Add" else -1
        co = dict(a[0])
        for k, v in b[0].items():
            co[k] = (co.get(k, 0) + s * v) % m
        c = (a[1] + s * b[1]) % m
        if s == 1:
            lo = None if a[2] is None or b[2] is None else a[2] + b[2]
            hi = None if a[3] is None or b[3] is None else a[3] + b[3]
        else:
            lo = None if a[2] is None or b[3] is None else a[2] - b[3]
            hi = None if a[3] is None or b[2] is None else a[3] - b[2]
        return ({k: v for k, v in co.items() if v}, c, lo, hi)
    if t.op == "un" and t.args[0] == "USub":
        a = cong(t.args[1], m)
        if a is None:
            return None
        co, c, lo, hi = a
        return ({k: (-v) % m for k, v in co.items() if (-v) % m}, (-c) % m, None if hi is None else -hi, None if lo is None else -lo)
    if t.op == "bin" and t.args[0] == "Mod":
        rr = unsnap(t.args[2])
        if is_const(rr) and isinstance(cval(rr), int) and cval(rr) > 0:
            k = cval(rr)
            a = cong(t.args[1], m)
            if a is not None and k % m == 0:
                return (a[0], a[1], 0, k - 1)
            return ({("atom", t.uid): 1}, 0, 0, k - 1)
    return _orig_cong(t, m)


def segs_cong(segs, m: int):
    """congruence/range of the total length of a writer segment list"""
    co, c, lo, hi = {}, 0, 0, 0
    for s in segs:
        k = s[0]
        if k == "const":
            part = ({}, len(s[1]) % m, len(s[1]), len(s[1]))
        elif k == "int":
            part = ({}, s[1] % m, s[1], s[1])
        elif k == "mac":
            part = ({}, 16 % m, 16, 16)
        elif k == "zeros":
            part = cong(s[1], m)
        elif k == "opaque":
            from .terms import mk

            part = cong(mk("len", s[1]), m)
        else:
            return None
        if part is None:
            return None
        for kk, v in part[0].items():
            co[kk] = (co.get(kk, 0) + v) % m
        c = (c + part[1]) % m
        lo = None if lo is None or part[2] is None else lo + part[2]
        hi = None if hi is None or part[3] is None else hi + part[3]
    return ({k: v for k, v in co.items() if v}, c, lo, hi)
